"""Candidate repairs for the defects D1-D11 of DESIGN.md section 5, as exact-string edits.
Run with cwd = <scratch copy>/src/datashard (never /repo directly); prototyped on 2026-09-25:
suite 143 passed (unchanged), mypy + ruff clean, every repro_*.py stops reproducing.
The D12 hunk (cache key) is NOT a repair of D12 (see DESIGN.md) and is kept only as a note.
Each defect becomes its own "fix:" commit in /repo once the corresponding rule reports it."""
import re, sys, pathlib
def sub(fn, old, new, count=1):
    p = pathlib.Path(fn); s = p.read_text()
    assert s.count(old) == count, (fn, old[:50], s.count(old))
    p.write_text(s.replace(old, new))

# D1: OCC stamp strictly advances
sub("metadata_manager.py",
"""                new_metadata.last_updated_ms = int(datetime.now().timestamp() * 1000)
""",
"""                # The OCC stamp must STRICTLY advance past the version we validated
                # against: two commits inside one clock tick (or a clock stepping
                # back) would otherwise leave last_updated_ms unchanged, and a
                # stale-base metadata-only commit would pass validation.
                now_ms = int(datetime.now().timestamp() * 1000)
                new_metadata.last_updated_ms = (
                    max(now_ms, current.last_updated_ms + 1) if current else now_ms
                )
""")

# D6: validated version == version named by the hint whose ETag we CAS against
sub("metadata_manager.py",
"""                current = self.refresh()
""",
"""                validated_info = self._current_version_info()
                current = (
                    self._read_metadata_file(f"{self.metadata_path}/{validated_info[1]}")
                    if validated_info is not None
                    else None
                )
""")
sub("metadata_manager.py",
"""                        if parsed is not None:
                            filesystem_version, previous_metadata_file = parsed
""",
"""                        if parsed is not None:
                            filesystem_version, previous_metadata_file = parsed
                            if validated_info is not None and parsed[1] != validated_info[1]:
                                # The hint moved between the validation read and
                                # this ETag read: the ETag belongs to a version we
                                # never validated against. CAS-ing on it would
                                # overwrite that commit.
                                raise ConcurrentModificationException(
                                    "Version hint changed between validation and "
                                    "the conditional-write read; retrying"
                                )
""")

# D7: clean failure after the metadata file write removes the orphan version
sub("metadata_manager.py",
"""                if not self.lock_provider.is_held():
                    raise ConcurrentModificationException(
                        "Lost distributed lock before commit point; retrying"
                    )

                # PHASE 4: Atomically make new version visible.
                # This is the commit point - after this, the new metadata is visible.
                # If we crash before this, the new metadata file is orphaned but table is consistent.
                self._write_hint_at_commit_point(metadata_file, hint_etag)
""",
"""                try:
                    if not self.lock_provider.is_held():
                        raise ConcurrentModificationException(
                            "Lost distributed lock before commit point; retrying"
                        )

                    # PHASE 4: Atomically make new version visible.
                    # This is the commit point - after this, the new metadata is visible.
                    # If we crash before this, the new metadata file is orphaned but table is consistent.
                    self._write_hint_at_commit_point(metadata_file, hint_etag)
                except AmbiguousCommitError:
                    raise  # may be durable: the file must stay
                except Exception:
                    # Known NOT committed: do not leave an uncommitted version
                    # behind - hint recovery picks the highest version on disk.
                    try:
                        self.storage.delete_file(metadata_path)
                    except Exception as cleanup_error:
                        logger.warning(
                            f"Could not remove uncommitted metadata file {metadata_path}: "
                            f"{cleanup_error}"
                        )
                    raise
""")

# D7b: listing failure is not "no table"
sub("metadata_manager.py",
"""        try:
            all_files = self.storage.list_files(self.metadata_path)
        except Exception:
            return None
""",
"""        # A listing failure is NOT "no metadata files": answering None here makes
        # callers treat an existing table as uninitialised (and re-initialise it).
        all_files = self.storage.list_files(self.metadata_path)
""")

# D2: one metadata read per read operation
sub("transaction.py",
"""        snapshot = self.current_snapshot()
        if not snapshot:
            # An unset current_snapshot_id means "empty table". A SET id that
            # resolves to nothing means the metadata is inconsistent - returning
            # [] there would report a broken table as an empty one (#48).
            metadata = self.metadata_manager.refresh()
            current_id = metadata.current_snapshot_id if metadata else None
""",
"""        # ONE metadata read decides both the snapshot and the empty/broken
        # distinction: combining two reads races with a concurrent first commit.
        metadata = self.metadata_manager.refresh()
        current_id = metadata.current_snapshot_id if metadata else None
        snapshot = None
        if metadata is not None and current_id is not None:
            for candidate in metadata.snapshots:
                if candidate.snapshot_id == current_id:
                    snapshot = candidate
                    break
        if not snapshot:
            # An unset current_snapshot_id means "empty table". A SET id that
            # resolves to nothing means the metadata is inconsistent - returning
            # [] there would report a broken table as an empty one (#48).
""")

# D3: asynchronous BaseException must never reach a deleting rollback
sub("transaction.py",
"""            except Exception as e:
                # Known-pre-commit-point failure - safe to clean up written files
                self._rollback()
                raise e
""",
"""            except Exception as e:
                # Known-pre-commit-point failure - safe to clean up written files
                self._rollback()
                raise e
            except BaseException:
                # KeyboardInterrupt / SystemExit can land anywhere, including after
                # the commit point: the outcome is unknown, so keep every file
                # (and stop __exit__ from running a deleting rollback).
                self._rollback(delete_files=False)
                raise
""")

# D8/D9: signature is ordered and includes the field id
sub("transaction.py",
"""    def _schema_signature(schema: Schema) -> Set[Any]:
        \"\"\"Comparable signature of a schema's fields (name, type, required).\"\"\"
        sig = set()
        for f in schema.fields:
            f_type = f.get("type")
            type_key = json.dumps(f_type, sort_keys=True) if isinstance(f_type, (dict, list)) else f_type
            sig.add((f.get("name"), type_key, bool(f.get("required", False))))
        return sig
""",
"""    def _schema_signature(schema: Schema) -> List[Any]:
        \"\"\"Comparable signature of a schema's fields: (id, name, type, required)
        IN ORDER. Order matters (pa.concat_tables needs identical column order)
        and so does the id (column bounds are keyed by it).\"\"\"
        sig = []
        for f in schema.fields:
            f_type = f.get("type")
            type_key = json.dumps(f_type, sort_keys=True) if isinstance(f_type, (dict, list)) else f_type
            sig.append((f.get("id"), f.get("name"), type_key, bool(f.get("required", False))))
        return sig
""")

# D12: cache key determines the cached value
sub("data_operations.py",
"""        if iceberg_schema.schema_id in self._arrow_schema_cache:
            return self._arrow_schema_cache[iceberg_schema.schema_id]
""",
"""        cache_key = (iceberg_schema.schema_id, iceberg_schema.schema_string)
        if cache_key in self._arrow_schema_cache:
            return self._arrow_schema_cache[cache_key]
""")
sub("data_operations.py",
"""        self._arrow_schema_cache[iceberg_schema.schema_id] = schema
""",
"""        self._arrow_schema_cache[cache_key] = schema
""")
sub("data_operations.py", "self._arrow_schema_cache: Dict[int, pa.Schema] = {}", "self._arrow_schema_cache: Dict[Any, pa.Schema] = {}")

# D10: != must not prune where NaN can hide
sub("filters.py",
"""                if file_min == file_max == expr.value:
                    return False
""",
"""                # Float bounds say nothing about NaN rows (min/max skip them)
                # and NaN != v is TRUE, so a float column can never be pruned.
                if (
                    not isinstance(file_min, float)
                    and not isinstance(file_max, float)
                    and file_min == file_max == expr.value
                ):
                    return False
""")

# D4 + D5: GC reads markers first, and fails closed on marker listing / read errors
sub("garbage_collector.py",
"""        # 1. Refresh metadata to get latest view
        metadata = self.metadata_manager.refresh()
        if not metadata:
            return stats
""",
"""        # 0. Load in-flight protection markers BEFORE reading metadata. A
        # transaction removes its markers only after its commit point, so any
        # transaction whose marker is already gone is visible to the metadata
        # read below; reading metadata first leaves a window in which a commit
        # lands (and drops its markers) between the two reads.
        protected_files = self._load_inflight_protection(inflight_timeout_ms)

        # 1. Refresh metadata to get latest view
        metadata = self.metadata_manager.refresh()
        if not metadata:
            return stats
""")
sub("garbage_collector.py",
"""        # 3. Load in-flight protection markers (and sweep abandoned ones)
        protected_files = self._load_inflight_protection(inflight_timeout_ms)
        if protected_files:
""",
"""        # 3. In-flight protection (loaded in step 0)
        if protected_files:
""")
sub("garbage_collector.py",
"""        try:
            markers = self.storage.list_files(INFLIGHT_PATH)
        except Exception:
            markers = []
""",
"""        try:
            markers = self.storage.list_files(INFLIGHT_PATH)
        except Exception as e:
            # Unknown markers = unknown protection: deleting now could remove
            # the files of a transaction in flight (fail closed).
            raise GarbageCollectionAborted(
                f"Aborting GC: cannot list in-flight markers under {INFLIGHT_PATH}: {e}"
            ) from e
""")
sub("garbage_collector.py",
"""        try:
            payload = json.loads(self.storage.read_file(marker_path).decode("utf-8"))
            target = payload.get("file_path")
        except Exception:
            return fallback
""",
"""        try:
            raw = self.storage.read_file(marker_path)
        except FileNotFoundError:
            return fallback  # marker removed meanwhile: its transaction finished
        except Exception as e:
            # Which file the marker protects is unknown (fail closed).
            raise GarbageCollectionAborted(
                f"Aborting GC: cannot read in-flight marker {marker_path}: {e}"
            ) from e
        try:
            payload = json.loads(raw.decode("utf-8"))
            target = payload.get("file_path")
        except Exception:
            return fallback
""")

# D11: S3 listing confined to the named directory
sub("storage_backend.py",
"""        s3_prefix = self._get_s3_key(prefix)

        def list_op() -> List[str]:
""",
"""        s3_prefix = self._get_s3_key(prefix)
        # List a DIRECTORY, not a string prefix: 'data' must not match
        # 'data_old/...' nor 'metadata' match 'metadata.version-hint.text'.
        if s3_prefix and not s3_prefix.endswith("/"):
            s3_prefix += "/"

        def list_op() -> List[str]:
""")
print("applied")

# ---- added after D13-D15 / D7c were found ----
# D13: pointer parser total
sub("metadata_manager.py",
"""        if text.isdigit():
            # Legacy format""",
"""        if text.isascii() and text.isdigit():
            # (isascii: str.isdigit() accepts characters such as '\\u00b2' that int() rejects)
            # Legacy format""")
# D14: GC normalisation depends on the path only
sub("garbage_collector.py",
"""        if path.startswith(self.table_path):
            path = path[len(self.table_path):]
        return path.lstrip("/")
""",
"""        # Manifest / marker / listing paths are table-relative everywhere (#47);
        # stripping the table LOCATION as a string prefix cannot tell the location
        # '/data' from the entry '/data/x.parquet' and made the two spellings of
        # one file normalise differently.
        return path.lstrip("/")
""")
# D15: delete filter normalises both sides
sub("transaction.py",
"""                surviving_files = [
                    f for f in data_files
                    if f.file_path not in deleted_paths
                    and f.file_path.lstrip("/") not in deleted_paths
                ]
""",
"""                deleted_normalized = {p.lstrip("/") for p in deleted_paths}
                surviving_files = [
                    f for f in data_files
                    if f.file_path.lstrip("/") not in deleted_normalized
                ]
""")
# D7c: losing initializer removes its own v0 file
sub("metadata_manager.py",
"""                    except CASConflictError as e:
                        raise TableExistsError(
""",
"""                    except CASConflictError as e:
                        try:
                            self.storage.delete_file(metadata_path)
                        except Exception as cleanup_error:
                            logger.warning(
                                f"Could not remove losing initial metadata {metadata_path}: "
                                f"{cleanup_error}"
                            )
                        raise TableExistsError(
""")
print("applied D13-D15, D7c")
