import io, hashlib, datetime, itertools
from botocore.exceptions import ClientError
def err(code, op="op"): return ClientError({"Error":{"Code":code,"Message":code}}, op)
class Body(io.BytesIO): pass
class FakeS3:
    def __init__(self): self.o={}; self.ctr=itertools.count(1); self.log=[]
    def _put(self,k,b):
        et='"%d-%s"'%(next(self.ctr),hashlib.md5(b).hexdigest()[:6]); self.o[k]=(bytes(b),et,datetime.datetime.now(datetime.timezone.utc)); return et
    def put_object(self,Bucket,Key,Body,IfNoneMatch=None,IfMatch=None):
        self.log.append(("PUT",Key,IfNoneMatch,IfMatch))
        if IfNoneMatch=="*" and Key in self.o: raise err("PreconditionFailed")
        if IfMatch is not None and (Key not in self.o or self.o[Key][1]!=IfMatch): raise err("PreconditionFailed")
        return {"ETag":self._put(Key,Body)}
    def get_object(self,Bucket,Key,Range=None):
        if Key not in self.o: raise err("NoSuchKey")
        b,et,lm=self.o[Key]
        if Range:
            a,z=Range[6:].split("-"); b=b[int(a):int(z)+1]
        return {"Body":Body(b),"ETag":et,"LastModified":lm,"ContentLength":len(b)}
    def head_object(self,Bucket,Key):
        if Key not in self.o: raise err("404")
        b,et,lm=self.o[Key]; return {"ETag":et,"LastModified":lm,"ContentLength":len(b)}
    def delete_object(self,Bucket,Key): self.o.pop(Key,None); return {}
    def list_objects_v2(self,Bucket,Prefix="",MaxKeys=1000):
        ks=sorted(k for k in self.o if k.startswith(Prefix))[:MaxKeys]
        return {"Contents":[{"Key":k} for k in ks]} if ks else {}
    def get_paginator(self,name):
        s=self
        class P:
            def paginate(self,Bucket,Prefix=""): yield s.list_objects_v2(Bucket,Prefix,10**9)
        return P()
