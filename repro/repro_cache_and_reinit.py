"""E12: Arrow-schema cache keyed by schema_id on a schema-less table silently drops fields (C11).
   E13: pointer lost + one transient listing failure -> existing table is re-initialised (C10/C18)."""
import os, tempfile, shutil, logging
logging.disable(logging.CRITICAL)
from datashard import create_table, Schema, load_table
d = tempfile.mkdtemp(prefix="ds_repro_")
try:
    t = create_table(d+"/t12")                      # no persisted schema
    A = Schema(schema_id=1, fields=[{"id":1,"name":"a","type":"long","required":False}])
    B = Schema(schema_id=1, fields=[{"id":1,"name":"b","type":"string","required":False}])
    t.append_records([{"a":1}], schema=A)
    try:
        print("E12 second append (same schema_id, other fields):", t.append_records([{"b":"x"}], schema=B))
        print("E12 scan:", load_table(d+"/t12").scan())
    except Exception as e: print("E12 raised:", type(e).__name__, str(e)[:100])
    s = Schema(schema_id=1, fields=[{"id":1,"name":"a","type":"long","required":False}])
    t = create_table(d+"/t13", s); t.append_records([{"a":1}])
    uuid_before = t.metadata_manager.refresh().table_uuid
    os.remove(d+"/t13/metadata.version-hint.text")
    from datashard.storage_backend import LocalStorageBackend
    real = LocalStorageBackend.list_files; n = {"k":0}
    def flaky(self, prefix):
        n["k"] += 1
        if n["k"] <= 2: raise OSError("transient")
        return real(self, prefix)
    LocalStorageBackend.list_files = flaky
    try: t2 = create_table(d+"/t13", s)
    finally: LocalStorageBackend.list_files = real
    m = load_table(d+"/t13").metadata_manager.refresh()
    print("E13 uuid unchanged:", m.table_uuid == uuid_before, "rows:", load_table(d+"/t13").scan())
finally:
    shutil.rmtree(d)
