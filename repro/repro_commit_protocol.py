import os, tempfile, shutil, logging, glob
logging.disable(logging.CRITICAL)
from datashard import create_table, Schema, load_table
import datashard.metadata_manager as MM
from datashard.transaction import Transaction
d = tempfile.mkdtemp(prefix="ds_repro_")
s = Schema(schema_id=1, fields=[{"id":1,"name":"a","type":"long","required":False}])
try:
    # E7: async interrupt after commit point, context-manager style
    t = create_table(d+"/t7", s)
    t.append_records([{"a":1}])
    orig = Transaction._finish_committed
    def boom(self): raise KeyboardInterrupt()
    Transaction._finish_committed = boom
    try:
        with t.new_transaction() as tx:
            tx.append_data([{"a":2}]); tx.commit()
    except KeyboardInterrupt: print("E7 KeyboardInterrupt propagated")
    Transaction._finish_committed = orig
    try: print("E7 scan after:", load_table(d+"/t7").scan())
    except Exception as e: print("E7 scan raised:", type(e).__name__, str(e)[:100])
    # E8: failed commit leaves orphan metadata; then hint lost
    t = create_table(d+"/t8", s)
    t.append_records([{"a":1}])
    mm = t.metadata_manager
    orig_w = MM.MetadataManager._write_hint_at_commit_point
    def fail(self, f, e): raise OSError("disk full")
    MM.MetadataManager._write_hint_at_commit_point = fail
    try: t.append_records([{"a":2}])
    except OSError as e: print("E8 commit failed cleanly:", e)
    MM.MetadataManager._write_hint_at_commit_point = orig_w
    print("E8 metadata files:", sorted(os.path.basename(p) for p in glob.glob(d+"/t8/metadata/v*.json")), "hint:", open(d+"/t8/metadata.version-hint.text").read())
    print("E8 scan before hint loss:", load_table(d+"/t8").scan())
    os.remove(d+"/t8/metadata.version-hint.text")
    try: print("E8 scan after hint loss:", load_table(d+"/t8").scan())
    except Exception as e: print("E8 scan after hint loss raised:", type(e).__name__, str(e)[:100])
    # E4: frozen clock, metadata-only commit lost update (local)
    import datetime as _dt
    class FD(_dt.datetime):
        @classmethod
        def now(cls, tz=None): return _dt.datetime(2026,1,1,0,0,0)
    t = create_table(d+"/t4", s)
    for i in range(3): t.append_records([{"a":i}])
    MM.datetime = FD
    import datashard.snapshot_manager as SM
    ids = [x["snapshot_id"] for x in t.snapshots()]
    # normalise: one commit under frozen clock so base stamp == frozen time
    A = load_table(d+"/t4"); B = load_table(d+"/t4")
    B.snapshot_manager.delete_snapshot(ids[0])           # commit 1 at frozen T
    baseA = A.metadata_manager.refresh()                 # A reads base (stamp T)
    B.snapshot_manager.delete_snapshot(ids[1])           # commit 2 at frozen T: stamp unchanged
    import copy
    newA = copy.deepcopy(baseA); newA.properties["x"]="y"
    try:
        A.metadata_manager.commit(baseA, newA); print("E4 stale-base commit ACCEPTED")
    except Exception as e: print("E4 stale commit rejected:", type(e).__name__)
    print("E4 snapshots now:", len(load_table(d+"/t4").snapshots()), "(B deleted two of three; expected 1)")
finally:
    shutil.rmtree(d)
