"""E16: delete_files() compares spellings asymmetrically: a file appended as 'data/x.parquet'
   and deleted as '/data/x.parquet' (the spelling the library itself uses) survives a successful delete (C15)."""
import tempfile, shutil, logging, os
logging.disable(logging.CRITICAL)
from datashard import create_table, Schema, load_table, DataFile, FileFormat
d = tempfile.mkdtemp(prefix="ds_repro_")
try:
    s = Schema(schema_id=1, fields=[{"id":1,"name":"a","type":"long","required":False}])
    t = create_table(d+"/t", s); t.append_records([{"a":1}])
    src = [f for f in os.listdir(d+"/t/data")][0]
    shutil.copy(d+"/t/data/"+src, d+"/t/data/x.parquet")
    t.append_data([DataFile(file_path="data/x.parquet", file_format=FileFormat.PARQUET, partition_values={}, record_count=1, file_size_in_bytes=1)])
    print("E16 rows:", len(t.scan()))
    with t.new_transaction() as tx:
        tx.delete_files(["/data/x.parquet"]); print("E16 delete commit:", tx.commit())
    print("E16 rows after delete of '/data/x.parquet':", len(load_table(d+"/t").scan()), "(expected 1)")
finally: shutil.rmtree(d)
