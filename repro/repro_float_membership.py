"""D20 (C13 / C12): on a float (float32) column `y IN (0.1)` matched the stored 0.1f although `y == 0.1` does not, and the answer
changed with file pruning.  pc.is_in casts the value set to the column's type (lossy double -> float32); `==` compares in double
precision; prune_files_by_bounds compares the literal 0.1 with the widened bounds [0.10000000149, ...] and drops the file.
Exit 1 when pruned and unpruned scans differ or IN disagrees with the disjunction of ==, 0 otherwise."""
import logging, shutil, sys, tempfile
logging.disable(logging.CRITICAL)
from datashard import Schema, create_table, load_table
import datashard.filters as F
d = tempfile.mkdtemp(prefix="ds_repro_")
bad = 0
try:
    s = Schema(schema_id=1, fields=[{"id": 1, "name": "y", "type": "float", "required": False}])
    create_table(d + "/t", s)
    for v in (0.1, 0.7, 1.5):
        load_table(d + "/t").append_records([{"y": v}])
    orig = F.prune_files_by_bounds

    def both(f):
        F.prune_files_by_bounds = orig
        p = load_table(d + "/t").scan(filter=f)
        F.prune_files_by_bounds = lambda dfs, e, s_: dfs
        u = load_table(d + "/t").scan(filter=f)
        F.prune_files_by_bounds = orig
        return sorted(r["y"] for r in p), sorted(r["y"] for r in u)

    for f in ({"y": ("in", [0.1, 0.7, 1.5])}, {"y": ("in", [0.1])}, {"y": ("not_in", [0.1])}, {"y": ("in", [1.5, 2])}, {"y": ("in", [1, 2])}):
        p, u = both(f)
        print(f, "pruned:", p, "unpruned:", u, "" if p == u else "  <-- DIFFER")
        bad += p != u
    eq = sorted(r["y"] for v in (0.1, 0.7, 1.5) for r in load_table(d + "/t").scan(filter={"y": ("==", v)}))
    p, _ = both({"y": ("in", [0.1, 0.7, 1.5])})
    print("union of == :", eq, " IN:", p, "" if eq == p else "  <-- IN is not the disjunction of ==")
    bad += eq != p
finally:
    shutil.rmtree(d)
sys.exit(1 if bad else 0)
