import os, tempfile, shutil, logging, time
logging.disable(logging.CRITICAL)
from datashard import create_table, Schema, load_table
from datashard.garbage_collector import GarbageCollector
d = tempfile.mkdtemp(prefix="ds_repro_")
s = Schema(schema_id=1, fields=[{"id":1,"name":"a","type":"long","required":False}])
try:
    # E9: GC reads metadata, THEN markers; a tx commits in between with an old data file
    t = create_table(d+"/t9", s); t.append_records([{"a":1}])
    w = load_table(d+"/t9")
    tx = w.new_transaction().begin(); tx.append_data([{"a":2}])
    old = time.time()-7200
    for f in os.listdir(d+"/t9/data"): os.utime(d+"/t9/data/"+f, (old, old))   # long-running load: files older than grace
    orig = GarbageCollector._load_inflight_protection
    def interleaved(self, timeout):
        tx.commit()                      # writer commits + removes its markers between GC's metadata read and marker read
        return orig(self, timeout)
    GarbageCollector._load_inflight_protection = interleaved
    print("E9 gc stats:", t.garbage_collect(grace_period_ms=3600000))
    GarbageCollector._load_inflight_protection = orig
    try: print("E9 scan:", load_table(d+"/t9").scan())
    except Exception as e: print("E9 scan raised:", type(e).__name__, str(e)[:90])
    # E10: marker listing failure swallowed -> in-flight file unprotected
    t = create_table(d+"/t10", s); t.append_records([{"a":1}])
    tx = t.new_transaction().begin(); tx.append_data([{"a":2}])
    for f in os.listdir(d+"/t10/data"): os.utime(d+"/t10/data/"+f, (old, old))
    st = t.storage; real = st.list_files
    def flaky(prefix):
        if prefix.endswith("inflight"): raise OSError("transient")
        return real(prefix)
    st.list_files = flaky
    try: print("E10 gc stats:", t.garbage_collect(grace_period_ms=3600000))
    except Exception as e: print("E10 gc raised:", type(e).__name__)
    st.list_files = real
    try:
        tx.commit(); print("E10 commit ok; scan:", load_table(d+"/t10").scan())
    except Exception as e: print("E10 after gc:", type(e).__name__, str(e)[:90])
    # E11: reader racing the first commit
    t = create_table(d+"/t11", s); r = load_table(d+"/t11")
    real_cs = r.current_snapshot
    def cs():
        x = real_cs(); t.append_records([{"a":1}]); return x
    r.current_snapshot = cs
    try: print("E11 scan:", r.scan())
    except Exception as e: print("E11 scan raised:", type(e).__name__, str(e)[:80])
finally:
    shutil.rmtree(d)
