"""E15: table located at a path that is a string prefix of the Iceberg-style entry '/data/...'
   (here: the absolute location '/data'): GC's _normalize_path strips the location from the
   manifest entry but not from the listing, classifies every live data file as an orphan and
   deletes it (C05). Creates and removes the directory /data; refuses to run if it exists."""
import os, sys, shutil, time, logging
logging.disable(logging.CRITICAL)
from datashard import create_table, Schema, load_table
loc = "/data"
if os.path.exists(loc): sys.exit("refusing: /data exists")
try:
    s = Schema(schema_id=1, fields=[{"id":1,"name":"a","type":"long","required":False}])
    t = create_table(loc, s); t.append_records([{"a":1}]); t.append_records([{"a":2}])
    old = time.time()-7200
    for f in os.listdir(loc+"/data"): os.utime(loc+"/data/"+f, (old, old))
    print("E15 rows before:", sorted(r["a"] for r in t.scan()))
    print("E15 gc:", t.garbage_collect(grace_period_ms=3600000))
    try: print("E15 rows after:", sorted(r["a"] for r in load_table(loc).scan()))
    except Exception as e: print("E15 scan after gc raised:", type(e).__name__, str(e)[:80])
finally:
    shutil.rmtree(loc, ignore_errors=True)
