"""E14: pointer content that is a 'digit' for str.isdigit() but not for int() makes every open raise (C10)."""
import tempfile, shutil, logging
logging.disable(logging.CRITICAL)
from datashard import create_table, Schema, load_table
d = tempfile.mkdtemp(prefix="ds_repro_")
try:
    s = Schema(schema_id=1, fields=[{"id":1,"name":"a","type":"long","required":False}])
    t = create_table(d+"/t", s); t.append_records([{"a":1}])
    open(d+"/t/metadata.version-hint.text","wb").write("²".encode())   # SUPERSCRIPT TWO
    try: print("E14 scan:", load_table(d+"/t").scan())
    except Exception as e: print("E14 open raised:", type(e).__name__, e)
finally: shutil.rmtree(d)
