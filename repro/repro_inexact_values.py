"""D18 (C11): values the declared column type cannot represent are accepted and silently altered.
pyarrow's Table.from_pylist truncates a Python float handed to an integer / timestamp / date column (3.5 -> 3) instead of
raising, and validate_records_strict leaves type mismatches 'to pyarrow'.  Run: PYTHONPATH=<tree>/src python repro_inexact_values.py
Exit 1 when an inexact value is accepted (HEAD before the fix), 0 when every one is rejected and the table is unchanged."""
import logging, shutil, sys, tempfile
logging.disable(logging.CRITICAL)
from datashard import Schema, create_table, load_table
d = tempfile.mkdtemp(prefix="ds_repro_")
bad = 0
try:
    s = Schema(schema_id=1, fields=[{"id": 1, "name": "n", "type": "long", "required": False},
                                    {"id": 2, "name": "i", "type": "int", "required": False},
                                    {"id": 3, "name": "ts", "type": "timestamp", "required": False}])
    t = create_table(d + "/t", s)
    t.append_records([{"n": 1, "i": 1}])
    for rec in ({"n": 3.5}, {"i": 2.25}, {"ts": 1.5}, {"n": -0.5}):
        before = sorted(map(repr, load_table(d + "/t").scan()))
        try:
            load_table(d + "/t").append_records([rec])
        except Exception as e:
            after = sorted(map(repr, load_table(d + "/t").scan()))
            print("rejected", rec, type(e).__name__, "table unchanged:", before == after)
            bad += before != after
            continue
        got = [r for r in load_table(d + "/t").scan() if repr(r) not in before]
        print("ACCEPTED", rec, "-> stored as", got)
        bad += 1
    # exact values of another Python type stay accepted: 3.0 is representable as the long 3
    load_table(d + "/t").append_records([{"n": 3.0}])
    print("3.0 into long ->", [r["n"] for r in load_table(d + "/t").scan() if r["n"] == 3])
finally:
    shutil.rmtree(d)
sys.exit(1 if bad else 0)
