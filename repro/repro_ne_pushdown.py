"""D19 (C12): Table.scan(filter={"x": ("!=", v)}, verify_checksums=False) loses NaN rows.
The unverified read path hands the predicate to pq.read_table(filters=...); pyarrow prunes row groups by min/max statistics,
which exclude NaN, so a row group with min == max == v is dropped for `x != v` although its NaN rows satisfy it.  The verified
path and scan_batches filter after decoding and keep the row.  Exit 1 when the read APIs disagree, 0 otherwise."""
import logging, math, shutil, sys, tempfile
logging.disable(logging.CRITICAL)
from datashard import Schema, create_table, load_table
d = tempfile.mkdtemp(prefix="ds_repro_")
try:
    s = Schema(schema_id=1, fields=[{"id": 1, "name": "x", "type": "double", "required": False}])
    create_table(d + "/t", s).append_records([{"x": 1.0}, {"x": 1.0}, {"x": float("nan")}])
    f = {"x": ("!=", 1.0)}
    n = lambda rows: sum(1 for r in rows if isinstance(r["x"], float) and math.isnan(r["x"]))
    got = {
        "scan": n(load_table(d + "/t").scan(filter=f)),
        "scan(verify_checksums=False)": n(load_table(d + "/t").scan(filter=f, verify_checksums=False)),
        "scan(parallel, unverified)": n(load_table(d + "/t").scan(filter=f, verify_checksums=False, parallel=2)),
        "iter_records": n(list(load_table(d + "/t").iter_records(filter=f))),
        "iter_records(verify_checksums=False)": n(list(load_table(d + "/t").iter_records(filter=f, verify_checksums=False))),
    }
    for k, v in got.items():
        print(f"{k}: NaN rows returned for x != 1.0: {v}")
    sys.exit(0 if set(got.values()) == {1} else 1)
finally:
    shutil.rmtree(d)
