import logging, copy
logging.disable(logging.CRITICAL)
import datashard.storage_backend as SB, datashard.lock_provider as LP
from datashard.metadata_manager import MetadataManager
from datashard.data_structures import TableMetadata
from fakes3 import FakeS3
fake = FakeS3()
class B(SB.S3StorageBackend):
    def __init__(self):
        self.bucket="b"; self.prefix="t"; self.s3=fake; self.use_conditional_writes=True
        self.endpoint_url=self.access_key=self.secret_key=None; self.region="x"
    def create_lock(self, path, timeout=30.0):
        class Everyone(LP.LockProvider):
            def acquire(self): return True
            def release(self): pass
            def is_held(self): return True
        return Everyone()
sA, sB = B(), B()
mA, mB = MetadataManager("t", sA), MetadataManager("t", sB)
mA.initialize_table(TableMetadata(location="t"))
baseA = mA.refresh(); baseB = mB.refresh()
# A is inside commit(): validated (refresh) and pauses before read_file_with_etag; B commits meanwhile.
orig = sA.read_file_with_etag
def paused(path):
    nb = copy.deepcopy(baseB); nb.properties["who"]="B"
    import time; time.sleep(0.002)
    mB.commit(baseB, nb); print("  B committed (acknowledged)")
    sA.read_file_with_etag = orig
    return orig(path)
sA.read_file_with_etag = paused
na = copy.deepcopy(baseA); na.properties["who"]="A"
import time; time.sleep(0.002)
try:
    mA.commit(baseA, na); print("  A committed (acknowledged)")
except Exception as e: print("  A rejected:", type(e).__name__)
cur = mB.refresh(); print("final properties:", cur.properties, "metadata_log len:", len(cur.metadata_log))
# C20: listing confinement
fake.o["t/data_old/keep.bin"]=(b"x",'"e"',None); fake.o["t/data/x.parquet"]=(b"x",'"e"',None)
print("S3 list_files('data') ->", sA.list_files("data")); print("S3 list_files('metadata') ->", [p for p in sA.list_files("metadata")])
