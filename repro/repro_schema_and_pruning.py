import os, tempfile, shutil, logging
logging.disable(logging.CRITICAL)
from datashard import create_table, Schema, load_table
d = tempfile.mkdtemp(prefix="ds_repro_")
try:
    # E1: renumbered field ids
    s = Schema(schema_id=1, fields=[{"id":1,"name":"a","type":"long","required":False},{"id":2,"name":"b","type":"long","required":False}])
    t = create_table(d+"/t1", s)
    s2 = Schema(schema_id=1, fields=[{"id":2,"name":"a","type":"long","required":False},{"id":1,"name":"b","type":"long","required":False}])
    t2 = load_table(d+"/t1")
    print("E1 append renumbered:", t2.append_records([{"a":5,"b":100}], schema=s2))
    t3 = load_table(d+"/t1")
    print("E1 scan all:", t3.scan(), " scan a==5:", t3.scan(filter={"a":5}))
    # E2: reordered fields
    t = create_table(d+"/t2", s)
    t.append_records([{"a":1,"b":2}])
    s3 = Schema(schema_id=1, fields=[{"id":2,"name":"b","type":"long","required":False},{"id":1,"name":"a","type":"long","required":False}])
    tf = load_table(d+"/t2")
    print("E2 append reordered (fresh handle):", tf.append_records([{"a":3,"b":4}], schema=s3))
    try:
        print("E2 scan:", load_table(d+"/t2").scan())
    except Exception as e:
        print("E2 scan raised:", type(e).__name__, str(e)[:120])
    # E3: NE prune with NaN
    sf = Schema(schema_id=1, fields=[{"id":1,"name":"x","type":"double","required":False}])
    t = create_table(d+"/t3", sf)
    t.append_records([{"x":1.0},{"x":1.0},{"x":float("nan")}])
    dfs = t._get_all_data_files()
    print("E3 bounds:", dfs[0].lower_bounds, dfs[0].upper_bounds)
    print("E3 scan x!=1.0:", t.scan(filter={"x":("!=",1.0)}))
    import datashard.filters as F
    orig = F.prune_files_by_bounds
    F.prune_files_by_bounds = lambda dfs, e, s: dfs
    print("E3 unpruned  :", t.scan(filter={"x":("!=",1.0)}))
    F.prune_files_by_bounds = orig
finally:
    shutil.rmtree(d)
