"""D22 (C16): LocalStorageBackend.write_file ignores the byte count os.write returns.  write(2) may store fewer bytes than asked
(the volume fills up while the request is in progress - the disk-space pre-check ran before; an interrupted write on some
filesystems): the temp file is then fsynced, renamed and PUBLISHED truncated, the commit goes on and the version pointer is
advanced over a metadata file / manifest that is cut short.  The scenario is injected at the syscall: ONE os.write on a file
under the table stores only the first half of its buffer and reports that count - exactly what the OS is allowed to do.
Exit 1 when a commit is acknowledged (or the pointer advanced) over a truncated file, 0 when the write is completed / refused."""
import glob, json, logging, os, shutil, sys, tempfile
logging.disable(logging.CRITICAL)
from datashard import Schema, create_table, load_table

bad = 0
d = tempfile.mkdtemp(prefix="ds_repro_")
try:
    s = Schema(schema_id=1, fields=[{"id": 1, "name": "x", "type": "long", "required": False}])
    t = create_table(d + "/t", s)
    t.append_records([{"x": 1}])
    real_write = os.write
    state = {"armed": True, "hit": None}

    def short_write(fd, data):
        # the first metadata-plane write of the next commit is cut in half (a legal short count)
        if state["armed"] and len(data) > 64:
            try:
                name = os.readlink(f"/proc/self/fd/{fd}")
            except OSError:
                name = ""
            if "/metadata/" in name and ".tmp." in os.path.basename(name) and "inflight" not in name:
                state["armed"] = False
                state["hit"] = (name, len(data), len(data) // 2)
                return real_write(fd, bytes(data)[: len(data) // 2])
        return real_write(fd, data)

    os.write = short_write
    ack = None
    try:
        load_table(d + "/t").append_records([{"x": 2}])
        ack = True
    except Exception as e:  # refusing the commit is fine
        ack = False
        print("commit refused:", type(e).__name__, str(e)[:80])
    finally:
        os.write = real_write
    if state["hit"] is None:
        print("no metadata-plane write was intercepted (scenario did not apply)")
        sys.exit(0)
    name, asked, stored = state["hit"]
    print(f"one os.write of {asked} bytes stored {stored} (short count returned) for {os.path.basename(name)}")
    # is a truncated file now reachable from the pointer?
    truncated = []
    for f in glob.glob(d + "/t/metadata/**/*", recursive=True):
        if os.path.isfile(f) and ".tmp." not in os.path.basename(f) and os.path.getsize(f) == stored:
            truncated.append(os.path.relpath(f, d + "/t"))
    try:
        rows = load_table(d + "/t").scan()
        print("reopened table answers", sorted(r["x"] for r in rows))
        readable = True
    except Exception as e:
        print("reopened table cannot be read:", type(e).__name__, str(e)[:100])
        readable = False
    if ack and (truncated or not readable):
        print(f"acknowledged commit over a truncated file {truncated}")
        bad += 1
    elif truncated and not readable:
        print(f"pointer / table left over a truncated file {truncated}")
        bad += 1
finally:
    shutil.rmtree(d, ignore_errors=True)
sys.exit(1 if bad else 0)
