"""D21 (C14 / C07 / C05): a manifest (or manifest list) replaced by a sibling JSON file is read as an EMPTY manifest.
read_manifest_file / read_manifest_list_file fall back to JSON when the Avro parse fails and read the container with
`.get("files", [])` / `.get("manifests", [])`: any JSON object without that key (the table's own metadata file, `{}`) loads as
"no entries".  Scans then return a subset of the rows without error, and a collection (grace 0) deletes the data files the
damaged manifest referenced.  Exit 1 when a damaged table is answered with fewer rows / files are deleted, 0 when every read raises."""
import glob, logging, os, shutil, sys, tempfile
logging.disable(logging.CRITICAL)
from datashard import Schema, create_table, load_table
bad = 0
for victim in ("manifest", "manifest_list"):
    d = tempfile.mkdtemp(prefix="ds_repro_")
    try:
        s = Schema(schema_id=1, fields=[{"id": 1, "name": "x", "type": "long", "required": False}])
        create_table(d + "/t", s).append_records([{"x": 1}])
        load_table(d + "/t").append_records([{"x": 2}])
        meta = sorted(glob.glob(d + "/t/metadata/v*.metadata.json"))[-1]
        if victim == "manifest":
            files = sorted(f for f in glob.glob(d + "/t/metadata/manifests/*") if "list" not in os.path.basename(f))
        else:
            files = sorted(f for f in glob.glob(d + "/t/metadata/manifests/*") if "list" in os.path.basename(f))
        targets = files[-1:] if victim == "manifest" else files  # every list: whichever snapshot is current is hit
        for target in targets:
            shutil.copyfile(meta, target)  # swap with a sibling: valid JSON, not a manifest
        for name, call in (("scan", lambda: load_table(d + "/t").scan()), ("row_count", lambda: load_table(d + "/t").row_count()),
                           ("iter_records", lambda: list(load_table(d + "/t").iter_records()))):
            try:
                r = call()
                n = r if isinstance(r, int) else len(r)
                print(f"{victim} swapped with the metadata JSON: {name} answered {n} row(s) instead of raising")
                bad += 1
            except Exception as e:
                print(f"{victim} swapped: {name} raised {type(e).__name__}")
        before = set(glob.glob(d + "/t/data/*.parquet"))
        try:
            load_table(d + "/t").garbage_collect(grace_period_ms=0)
            gone = before - set(glob.glob(d + "/t/data/*.parquet"))
            if gone:
                print(f"{victim} swapped: garbage_collect deleted {len(gone)} data file(s)")
                bad += 1
        except Exception as e:
            print(f"{victim} swapped: garbage_collect raised {type(e).__name__}")
    finally:
        shutil.rmtree(d)
sys.exit(1 if bad else 0)
