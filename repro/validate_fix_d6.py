"""Fix validation (not a checker): on a fake conditional-write S3 with a lock that excludes nobody,
run committer B's whole commit at every S3-request boundary k of committer A's commit and require that
no acknowledged commit is lost. Usage: PYTHONPATH=<tree>/src:/verif/repro python validate_fix_d6.py"""
import logging, copy, time
logging.disable(logging.CRITICAL)
import datashard.storage_backend as SB, datashard.lock_provider as LP
from datashard.metadata_manager import MetadataManager
from datashard.data_structures import TableMetadata
from fakes3 import FakeS3
class Everyone(LP.LockProvider):
    def acquire(self): return True
    def release(self): pass
    def is_held(self): return True
def backend(fake):
    class B(SB.S3StorageBackend):
        def __init__(self):
            self.bucket="b"; self.prefix="t"; self.s3=fake; self.use_conditional_writes=True
            self.endpoint_url=self.access_key=self.secret_key=None; self.region="x"
        def create_lock(self, path, timeout=30.0): return Everyone()
    return B()
class Hooked:
    def __init__(self, fake, k, action): self.f=fake; self.k=k; self.n=0; self.action=action
    def __getattr__(self, name):
        real = getattr(self.f, name)
        def w(*a, **kw):
            if self.n == self.k: self.n += 1; self.action()
            else: self.n += 1
            return real(*a, **kw)
        return w
lost = 0; total = 0; k = 0
while True:
    fake = FakeS3(); sB = backend(fake); mB = MetadataManager("t", sB)
    mB.initialize_table(TableMetadata(location="t"))
    sA = backend(fake); mA = MetadataManager("t", sA)
    baseA = mA.refresh(); baseB = mB.refresh(); time.sleep(0.002)
    ackB = []
    def b_commits():
        nb = copy.deepcopy(baseB); nb.properties["B"]="1"
        try: mB.commit(baseB, nb); ackB.append(True)
        except Exception: ackB.append(False)
    h = Hooked(fake, k, b_commits); sA.s3 = h
    na = copy.deepcopy(baseA); na.properties["A"]="1"
    try: mA.commit(baseA, na); ackA = True
    except Exception as e: ackA = False
    if not ackB: break          # k beyond the number of requests A makes
    final = backend(fake); props = MetadataManager("t", final).refresh().properties
    ok = (("A" in props) == ackA or not ackA) and (("B" in props) == ackB[0] or not ackB[0])
    ok = ok and (not ackA or "A" in props) and (not ackB[0] or "B" in props)
    total += 1
    if not ok: lost += 1; print(f"k={k}: ackA={ackA} ackB={ackB[0]} final={props}  LOST UPDATE")
    k += 1
print(f"explored {total} insertion points, lost updates: {lost}")
