"""Benign-variant generators (behaviour-preserving whole-package rewrites) used by the thorough tier and tools/."""
from __future__ import annotations

import ast
import builtins
import os
import tempfile
from typing import Set


class _Renamer(ast.NodeTransformer):
    def __init__(self, names: Set[str]) -> None:
        self.names = names

    def visit_Name(self, n: ast.Name) -> ast.AST:
        if n.id in self.names:
            n.id = n.id + "_rn"
        return n

    def visit_ExceptHandler(self, n: ast.ExceptHandler) -> ast.AST:
        if n.name in self.names:
            n.name = n.name + "_rn"
        self.generic_visit(n)
        return n


def _locals_of(fn: ast.AST) -> Set[str]:
    a = fn.args  # type: ignore[attr-defined]
    params = {x.arg for x in a.posonlyargs + a.args + a.kwonlyargs}
    if a.vararg:
        params.add(a.vararg.arg)
    if a.kwarg:
        params.add(a.kwarg.arg)
    stores: Set[str] = set()
    globs: Set[str] = set()
    imported: Set[str] = set()
    nested: Set[str] = set()
    inner_params: Set[str] = set()
    for n in ast.walk(fn):
        if isinstance(n, ast.Name) and isinstance(n.ctx, ast.Store):
            stores.add(n.id)
        elif isinstance(n, (ast.Global, ast.Nonlocal)):
            globs |= set(n.names)
        elif isinstance(n, (ast.Import, ast.ImportFrom)):
            for al in n.names:
                imported.add((al.asname or al.name).split(".")[0])
        elif isinstance(n, ast.ExceptHandler) and n.name:
            stores.add(n.name)
        elif isinstance(n, (ast.FunctionDef, ast.AsyncFunctionDef)) and n is not fn:
            nested.add(n.name)
        if isinstance(n, (ast.FunctionDef, ast.Lambda)) and n is not fn:
            inner_params |= {x.arg for x in n.args.args + n.args.kwonlyargs}
    return stores - params - globs - imported - nested - inner_params - set(dir(builtins))


def rename_locals_copy(repo: str) -> tuple:
    """Write a copy of src/datashard with every local variable renamed to <name>_rn; returns (tmp root, #renamed)."""
    src = os.path.join(repo, "src", "datashard")
    tmp = tempfile.mkdtemp(prefix="sa_rename_")
    dst = os.path.join(tmp, "src", "datashard")
    os.makedirs(dst)
    total = 0
    for fn in sorted(os.listdir(src)):
        if not fn.endswith(".py"):
            continue
        with open(os.path.join(src, fn)) as fh:
            tree = ast.parse(fh.read())
        tops = [n for n in tree.body if isinstance(n, (ast.FunctionDef, ast.AsyncFunctionDef))]
        for c in [n for n in tree.body if isinstance(n, ast.ClassDef)]:
            tops += [n for n in c.body if isinstance(n, (ast.FunctionDef, ast.AsyncFunctionDef))]
        for f in tops:
            names = _locals_of(f)
            total += len(names)
            _Renamer(names).visit(f)
        out = ast.unparse(tree) + "\n"
        compile(out, fn, "exec")
        with open(os.path.join(dst, fn), "w") as fh:
            fh.write(out)
    return tmp, total


class _Annotator(ast.NodeTransformer):
    """`x = v` -> `x: object = v` for the first plain single-target assignment of each local (top-level statements of the
    function body and of its compound statements; not inside nested functions)."""
    def __init__(self, names: Set[str]) -> None:
        self.names = set(names)
        self.count = 0

    def visit_FunctionDef(self, n: ast.FunctionDef) -> ast.AST:
        return n  # nested functions are handled as their own unit (or left alone)

    visit_AsyncFunctionDef = visit_FunctionDef  # type: ignore[assignment]
    visit_Lambda = visit_FunctionDef  # type: ignore[assignment]

    def visit_Assign(self, n: ast.Assign) -> ast.AST:
        if len(n.targets) == 1 and isinstance(n.targets[0], ast.Name) and n.targets[0].id in self.names:
            self.names.discard(n.targets[0].id)
            self.count += 1
            new = ast.AnnAssign(target=n.targets[0], annotation=ast.Name(id="object", ctx=ast.Load()), value=n.value, simple=1)
            return ast.copy_location(new, n)
        return n


def annotate_locals_copy(repo: str) -> tuple:
    """Write a copy of src/datashard in which local assignments carry a (vacuous) type annotation; returns (tmp, #annotated)."""
    src = os.path.join(repo, "src", "datashard")
    tmp = tempfile.mkdtemp(prefix="sa_annot_")
    dst = os.path.join(tmp, "src", "datashard")
    os.makedirs(dst)
    total = 0
    for fn in sorted(os.listdir(src)):
        if not fn.endswith(".py"):
            continue
        with open(os.path.join(src, fn)) as fh:
            tree = ast.parse(fh.read())
        tops = [n for n in tree.body if isinstance(n, (ast.FunctionDef, ast.AsyncFunctionDef))]
        for c in [n for n in tree.body if isinstance(n, ast.ClassDef)]:
            tops += [n for n in c.body if isinstance(n, (ast.FunctionDef, ast.AsyncFunctionDef))]
        for f in tops:
            # a name may be annotated only if it is not used in a nested scope as nonlocal and is assigned before any use;
            # keep to names whose FIRST occurrence in source order is a plain assignment statement
            names = _locals_of(f)
            first = {}
            for n in ast.walk(f):
                if isinstance(n, ast.Name) and n.id in names:
                    key = (n.lineno, n.col_offset)
                    if n.id not in first or key < first[n.id][0]:
                        first[n.id] = (key, isinstance(n.ctx, ast.Store))
            ok = {nm for nm, (_k, st) in first.items() if st}
            an = _Annotator(ok)
            f.body = [an.visit(st) if not isinstance(st, (ast.FunctionDef, ast.AsyncFunctionDef)) else st for st in f.body]
            total += an.count
        ast.fix_missing_locations(tree)
        out = ast.unparse(tree) + "\n"
        compile(out, fn, "exec")
        with open(os.path.join(dst, fn), "w") as fh:
            fh.write(out)
    return tmp, total
