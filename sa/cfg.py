"""E2 - statement-level control-flow graph with call nodes in evaluation order,
short-circuit branches, exception edges (try/except/else/finally, with),
finally bodies duplicated per continuation, typed function exits."""
from __future__ import annotations

import ast
from dataclasses import dataclass, field
from typing import Dict, Iterable, List, Optional, Sequence, Set, Tuple

from .model import EXC_ALIASES, AnalysisError, Callee, FunctionInfo, Program, dotted, norm_text

Pending = List[Tuple[int, str]]


@dataclass
class Frame:
    kind: str  # 'try' | 'with' | 'loop'
    node: ast.AST
    part: str = "body"  # try: body|handler|else|final ; with: body ; loop: body|else
    handler: Optional[ast.ExceptHandler] = None  # when part == 'handler'
    uid: int = 0

    def key(self) -> Tuple[int, str, int]:
        return (self.uid, self.part, id(self.handler))


@dataclass
class Node:
    id: int
    kind: str
    ast: Optional[ast.AST]
    stmt: Optional[ast.AST]
    lineno: int
    frames: Tuple[Frame, ...]
    callee: Optional[Callee] = None
    flags: Set[str] = field(default_factory=set)
    raised: Optional[str] = None  # for raise nodes: class name, 'reraise', or None
    may_raise: bool = False

    @property
    def text(self) -> str:
        if self.ast is None:
            return self.kind
        if self.kind == "handler":
            h = self.ast
            return "except " + (norm_text(h.type) if getattr(h, "type", None) is not None else "<bare>")
        if self.kind in ("with_enter", "with_exit"):
            return f"{self.kind} {norm_text(self.ast.context_expr)}"  # type: ignore[attr-defined]
        if self.kind == "loop" and isinstance(self.ast, (ast.For, ast.AsyncFor)):
            return f"for {norm_text(self.ast.target)} in {norm_text(self.ast.iter)}"
        if self.kind == "stmt" and isinstance(self.ast, (ast.FunctionDef, ast.AsyncFunctionDef)):
            return f"def {self.ast.name}"
        return norm_text(self.ast)


def handler_classes(h: ast.ExceptHandler) -> List[str]:
    if h.type is None:
        return ["BaseException"]
    elts = h.type.elts if isinstance(h.type, ast.Tuple) else [h.type]
    out: List[str] = []
    for e in elts:
        if isinstance(e, ast.Starred):
            e = e.value
        dn = dotted(e)
        if dn and dn.split(".")[-1] in EXC_ALIASES:
            out.extend(EXC_ALIASES[dn.split(".")[-1]])
        else:
            out.append(dn if dn else norm_text(e))
    return out


def expr_may_raise(e: Optional[ast.AST]) -> bool:
    """E2a fallibility grammar for the non-call part of an expression."""
    if e is None:
        return False
    for n in _walk_no_lambda(e):
        if isinstance(n, ast.Subscript) and isinstance(n.ctx, ast.Load):
            return True
        if isinstance(n, ast.BinOp) and not (isinstance(n.left, ast.Constant) and isinstance(n.right, ast.Constant)):
            return True
        if isinstance(n, ast.Compare) and any(isinstance(o, (ast.Lt, ast.LtE, ast.Gt, ast.GtE)) for o in n.ops):
            return True
        if isinstance(n, (ast.Await, ast.Yield, ast.YieldFrom)):
            return True
        if isinstance(n, (ast.ListComp, ast.SetComp, ast.DictComp, ast.GeneratorExp)):
            # iteration over a non-display may raise
            for g in n.generators:
                if not isinstance(g.iter, (ast.List, ast.Tuple, ast.Set, ast.Dict, ast.Name, ast.Attribute)):
                    return True
        if isinstance(n, ast.UnaryOp) and isinstance(n.op, (ast.USub, ast.Invert)) and not isinstance(n.operand, ast.Constant):
            return True
    return False


def _walk_no_lambda(e: ast.AST) -> Iterable[ast.AST]:
    stack = [e]
    while stack:
        n = stack.pop()
        yield n
        if isinstance(n, ast.Lambda):
            continue
        stack.extend(ast.iter_child_nodes(n))


class CFG:
    def __init__(self, fn: FunctionInfo) -> None:
        self.fn = fn
        self.nodes: List[Node] = []
        self.succ: Dict[int, List[Tuple[int, str]]] = {}
        self.pred: Dict[int, List[Tuple[int, str]]] = {}
        self.inline_returns: Dict[int, List[Tuple[Optional[ast.AST], int]]] = {}
        self.inlined_calls: Dict[int, FunctionInfo] = {}
        self.entry = self._new("entry", None, None, 0, ())
        self.exit = self._new("exit", None, None, 0, ())
        self.raise_exit = self._new("raise_exit", None, None, 0, ())

    def _new(self, kind: str, a: Optional[ast.AST], stmt: Optional[ast.AST], lineno: int,
             frames: Tuple[Frame, ...]) -> int:
        n = Node(len(self.nodes), kind, a, stmt, lineno, frames)
        self.nodes.append(n)
        self.succ[n.id] = []
        self.pred[n.id] = []
        return n.id

    def add_edge(self, a: int, b: int, label: str) -> None:
        if (b, label) not in self.succ[a]:
            self.succ[a].append((b, label))
            self.pred[b].append((a, label))

    # ------------------------------------------------------------ queries
    def reachable(self, labels: Optional[Set[str]] = None) -> Set[int]:
        seen = {self.entry}
        st = [self.entry]
        while st:
            n = st.pop()
            for d, l in self.succ[n]:
                if labels is not None and l not in labels:
                    continue
                if d not in seen:
                    seen.add(d)
                    st.append(d)
        return seen

    def calls(self) -> List[Node]:
        r = self.reachable()
        return [n for n in self.nodes if n.kind == "call" and n.id in r]

    def find_calls(self, pred) -> List[Node]:
        return [n for n in self.calls() if pred(n)]

    def node_for_stmt(self, stmt: ast.AST, kind: Optional[str] = None) -> List[Node]:
        return [n for n in self.nodes if n.stmt is stmt and (kind is None or n.kind == kind)]

    def dump(self) -> str:
        r = self.reachable()
        out = [f"CFG {self.fn.qname}"]
        for n in self.nodes:
            if n.id not in r:
                continue
            cal = f"  -> {n.callee}" if n.callee else ""
            succ = ", ".join(f"{d}[{l}]" for d, l in self.succ[n.id])
            out.append(f"  {n.id:3d} L{n.lineno:<4d} {n.kind:10s} {n.text[:70]:70s}{cal}\n        => {succ}")
        return "\n".join(out)


NORMAL = {"norm", "true", "false", "back"}
EXC = {"exc", "exc_base"}


class CFGBuilder:
    def __init__(self, prog: Program, fn: FunctionInfo) -> None:
        self.prog = prog
        self.fn = fn
        self.g = CFG(fn)
        self.frames: List[Frame] = []
        self._uid = 0
        self._route_cache: Dict[Tuple, int] = {}
        self._dispatch: Dict[int, int] = {}  # frame uid -> dispatch node id
        self._loop_info: Dict[int, Dict[str, object]] = {}
        self._inline_join: Dict[int, int] = {}
        self._inline_cond: Dict[int, Tuple[int, int]] = {}
        self._inline_cond_wrap: Dict[int, str] = {}
        self._cond_none: Optional[str] = None
        self._want_cond = False
        self._cond_result: Optional[Tuple[Pending, Pending]] = None
        self._inline_stack: List[str] = [fn.qname]
        self._pre: Dict[int, Callee] = {}  # id(call ast in an inlined copy) -> callee resolved in the helper's own context
        self._inl_n = 0

    # ------------------------------------------------------------- plumbing
    def new(self, kind: str, a: Optional[ast.AST], stmt: Optional[ast.AST]) -> int:
        ln = getattr(a, "lineno", None) or getattr(stmt, "lineno", 0) or 0
        return self.g._new(kind, a, stmt, ln, tuple(self.frames))

    def connect(self, pending: Pending, dst: int) -> None:
        for s, l in pending:
            self.g.add_edge(s, dst, l)

    def build(self) -> CFG:
        pend = self.stmts(self.fn.body(), [(self.g.entry, "norm")])
        self.connect(pend, self.g.exit)
        return self.g

    # ------------------------------------------------------------- routing
    def _with_frames(self, frames: Sequence[Frame]):
        class _Ctx:
            def __init__(s, outer: "CFGBuilder") -> None:
                s.o = outer
                s.saved: List[Frame] = []

            def __enter__(s) -> None:
                s.saved = s.o.frames
                s.o.frames = list(frames)

            def __exit__(s, *a: object) -> None:
                s.o.frames = s.saved
        return _Ctx(self)

    def _cleanup_copy(self, idx: int, frames: Sequence[Frame], cont: int, label: str) -> int:
        """Build a copy of the cleanup of frames[idx] (finally body / with-exit) whose
        end continues to node `cont` with edge label `label`; returns its entry node."""
        fr = frames[idx]
        outer = list(frames[:idx])
        if fr.kind == "with":
            with self._with_frames(outer):
                n = self.new("with_exit", fr.node, fr.node)
                self.g.nodes[n].flags.add("cleanup:" + label)
            self.g.add_edge(n, cont, label)
            return n
        # try/finally
        fin = Frame("try", fr.node, "final", None, fr.uid)
        with self._with_frames(outer + [fin]):
            entry = self.new("finally", fr.node, fr.node)
            self.g.nodes[entry].flags.add("cleanup:" + label)
            pend = self.stmts(fr.node.finalbody, [(entry, "norm")])  # type: ignore[attr-defined]
        for s, _l in pend:
            self.g.add_edge(s, cont, label)
        return entry

    @staticmethod
    def _needs_cleanup(fr: Frame) -> bool:
        if fr.kind == "with":
            return True
        if fr.kind == "inline":
            return False
        if fr.kind == "try":
            return bool(fr.node.finalbody) and fr.part != "final"  # type: ignore[attr-defined]
        return False

    def route(self, kind: str, frames: Sequence[Frame], loop_uid: int = 0) -> Tuple[int, str]:
        """Target node for an abrupt completion of `kind` ('exc'|'return'|'break'|'continue')
        raised inside `frames`. Returns (node, edge label)."""
        key = (kind, tuple(f.key() for f in frames), loop_uid)
        label = {"exc": "exc", "return": "norm", "return_t": "norm", "return_f": "norm", "break": "norm", "continue": "back"}[kind]
        if key in self._route_cache:
            return self._route_cache[key], label
        # find the terminator
        i = len(frames) - 1
        cleanups: List[int] = []
        final_target: Optional[int] = None
        while i >= 0:
            fr = frames[i]
            if kind == "exc" and fr.kind == "try" and fr.part == "body" and fr.node.handlers:  # type: ignore[attr-defined]
                final_target = self.dispatch_node(frames[: i + 1])
                break
            if kind in ("return", "return_t", "return_f") and fr.kind == "inline":
                if kind == "return" or fr.uid not in self._inline_cond:
                    final_target = self._inline_join[fr.uid]
                else:
                    final_target = self._inline_cond[fr.uid][0 if kind == "return_t" else 1]
                break
            if kind in ("break", "continue") and fr.kind == "loop" and fr.uid == loop_uid:
                info = self._loop_info[fr.uid]
                final_target = info["head"] if kind == "continue" else info["after"]  # type: ignore[assignment]
                break
            if self._needs_cleanup(fr):
                cleanups.append(i)
            i -= 1
        if final_target is None:
            if kind == "exc":
                final_target = self.g.raise_exit
            elif kind == "return":
                final_target = self.g.exit
            else:  # pragma: no cover
                raise AnalysisError(f"{kind} outside loop in {self.fn.qname}")
        # chain cleanups innermost first: build from the outermost backwards
        cont = final_target
        for idx in reversed(cleanups):
            cont = self._cleanup_copy(idx, frames, cont, label)
        self._route_cache[key] = cont
        return cont, label

    def dispatch_node(self, frames: Sequence[Frame]) -> int:
        fr = frames[-1]
        if fr.uid in self._dispatch:
            return self._dispatch[fr.uid]
        with self._with_frames(list(frames[:-1])):
            d = self.new("dispatch", fr.node, fr.node)
        self._dispatch[fr.uid] = d
        return d

    # ---------------------------------------------------------- expressions
    def expr(self, e: Optional[ast.AST], pending: Pending, stmt: ast.AST, flags: Optional[Set[str]] = None) -> Pending:
        """Create call nodes for every call in `e`, in evaluation order."""
        if e is None:
            return pending
        flags = flags or set()
        if isinstance(e, ast.Lambda):
            return pending
        if isinstance(e, ast.Call):
            want_cond, self._want_cond = self._want_cond, False
            # func expression (receiver) first, then args, then the call itself
            if isinstance(e.func, ast.Attribute):
                pending = self.expr(e.func.value, pending, stmt, flags)
            elif not isinstance(e.func, ast.Name):
                pending = self.expr(e.func, pending, stmt, flags)
            for a in e.args:
                pending = self.expr(a.value if isinstance(a, ast.Starred) else a, pending, stmt, flags)
            for k in e.keywords:
                pending = self.expr(k.value, pending, stmt, flags)
            n = self.new("call", e, stmt)
            node = self.g.nodes[n]
            node.flags |= flags
            node.callee = self._pre.get(id(e)) or self.prog.resolve_call(e, self.fn)
            self.connect(pending, n)
            target = self._inline_target(node.callee)
            self._want_cond = want_cond
            if target is not None:
                node.flags.add("inlined")
                if self._want_cond:
                    # the call IS a branch condition: keep the correlation between the helper's return sites and the
                    # branch outcome (each `return <expr>` becomes a test of <expr>)
                    self._want_cond = False
                    self._cond_result = self._inline(e, target, n, stmt, as_cond=True)  # type: ignore[assignment]
                    return []
                return self._inline(e, target, n, stmt)  # type: ignore[return-value]
            self._want_cond = False  # (routing the exception may build a `finally` body: its statements are no branch conditions)
            if not self._infallible_call(node):
                node.may_raise = True
                t, l = self.route("exc", self.frames)
                self.g.add_edge(n, t, l)
            return [(n, "norm")]
        if isinstance(e, ast.BoolOp):
            # first operand unconditional, the rest conditional
            pending = self.expr(e.values[0], pending, stmt, flags)
            for v in e.values[1:]:
                pending = self._cond_expr(v, pending, stmt, flags)
            return pending
        if isinstance(e, ast.IfExp):
            pending = self.expr(e.test, pending, stmt, flags)
            pending = self._cond_expr(e.body, pending, stmt, flags)
            pending = self._cond_expr(e.orelse, pending, stmt, flags)
            return pending
        if isinstance(e, (ast.ListComp, ast.SetComp, ast.GeneratorExp, ast.DictComp)):
            gens = e.generators
            pending = self.expr(gens[0].iter, pending, stmt, flags)
            cf = set(flags) | {"in_comp"}
            inner: List[ast.AST] = []
            for i, g in enumerate(gens):
                if i > 0:
                    inner.append(g.iter)
                inner.extend(g.ifs)
            if isinstance(e, ast.DictComp):
                inner.extend([e.key, e.value])
            else:
                inner.append(e.elt)
            for x in inner:
                pending = self._cond_expr(x, pending, stmt, cf)
            return pending
        for child in ast.iter_child_nodes(e):
            if isinstance(child, (ast.expr_context, ast.operator, ast.cmpop, ast.boolop, ast.unaryop)):
                continue
            if isinstance(child, ast.keyword):
                pending = self.expr(child.value, pending, stmt, flags)
            elif isinstance(child, ast.comprehension):
                continue
            else:
                pending = self.expr(child, pending, stmt, flags)
        return pending

    # ------------------------------------------------------------- inlining
    def _contextmanager_target(self, ce: ast.AST) -> Optional[FunctionInfo]:
        """The generator behind `with helper(...)`, when helper is a later-introduced @contextmanager function with exactly
        one `yield` statement and no `return`."""
        if not isinstance(ce, ast.Call):
            return None
        c = self._pre.get(id(ce)) or self.prog.resolve_call(ce, self.fn)
        if c is None or c.kind != "func" or len(c.funcs) != 1:
            return None
        t = c.funcs[0]
        if self.prog.is_known(t) or isinstance(t.node, ast.Lambda):
            return None
        if not any(d.split(".")[-1] == "contextmanager" for d in t.decorators):
            return None
        if t.qname in self._inline_stack or len(self._inline_stack) > 3:
            return None
        own = [x for x in ast.walk(t.node)]
        ys = [x for x in own if isinstance(x, (ast.Yield, ast.YieldFrom))]
        if len(ys) != 1 or not isinstance(ys[0], ast.Yield):
            return None
        if any(isinstance(x, ast.Return) for x in own) or any(isinstance(x, (ast.FunctionDef, ast.Lambda)) and x is not t.node for x in own):
            return None
        # the yield must be an expression STATEMENT
        if not any(isinstance(x, ast.Expr) and x.value is ys[0] for x in own):
            return None
        return t

    def _inline_target(self, c: Optional[Callee]) -> Optional[FunctionInfo]:
        """A helper that did not exist when the rules were written is transparent: its body is analysed in place."""
        if c is None or c.kind != "func" or len(c.funcs) != 1:
            return None
        t = c.funcs[0]
        if self.prog.is_known(t) or isinstance(t.node, ast.Lambda) or t.is_property:
            return None
        if t.qname in self._inline_stack or len(self._inline_stack) > 3:
            return None
        if any(isinstance(x, (ast.Yield, ast.YieldFrom, ast.Await)) for x in ast.walk(t.node)):
            return None
        return t

    def _instantiate(self, call: ast.Call, t: FunctionInfo) -> Tuple[List[ast.stmt], List[Tuple[str, ast.AST]]]:
        """A private copy of helper t's body for this call site: calls resolved in the helper's own context, locals
        alpha-renamed, parameters substituted (alias) or bound (returned as (name, argument) pairs)."""
        import copy
        self._inl_n += 1
        k = self._inl_n
        sfx = f"__i{k}"
        orig_body = list(t.node.body)  # type: ignore[attr-defined]
        body = copy.deepcopy(orig_body)
        # resolve the calls of the helper in ITS context, before renaming
        for o_st, c_st in zip(orig_body, body):
            for o, c in zip(ast.walk(o_st), ast.walk(c_st)):
                if isinstance(o, ast.Call):
                    self._pre[id(c)] = self._pre.get(id(o)) or self.prog.resolve_call(o, t)
        # alpha-rename the helper's parameters and locals
        params = [p for p in t.params]
        caller_self = self.fn.self_name()
        callee_self = t.self_name() if (t.cls is not None and not t.is_static) else None
        recv = call.func.value if isinstance(call.func, ast.Attribute) else None
        keep_self = callee_self is not None and isinstance(recv, ast.Name) and recv.id == caller_self and callee_self == caller_self
        local_names = {p.name for p in params}
        for x in ast.walk(t.node):
            if isinstance(x, ast.Name) and isinstance(x.ctx, ast.Store):
                local_names.add(x.id)
            elif isinstance(x, ast.ExceptHandler) and x.name:
                local_names.add(x.name)
        if keep_self and callee_self:
            local_names.discard(callee_self)
        stored = {x.id for x in ast.walk(t.node) if isinstance(x, ast.Name) and isinstance(x.ctx, ast.Store)}
        # bind parameters: a parameter that is never re-assigned and whose argument is a plain variable is an ALIAS of that
        # variable (the common shape of an extracted helper) - it is substituted, everything else gets a fresh name
        pos = [q for q in params if q.kind == "pos"]
        if callee_self is not None and pos and pos[0].name == callee_self:
            pos = pos[1:]
        alias: Dict[str, str] = {}
        subst: Dict[str, ast.AST] = {}
        binds: List[Tuple[str, ast.AST]] = []
        if callee_self is not None and not keep_self and recv is not None:
            binds.append((callee_self + sfx, recv))
        for q in [q for q in params if q.kind in ("pos", "kwonly") and not (callee_self and q.name == callee_self)]:
            arg: Optional[ast.AST] = None
            for kw in call.keywords:
                if kw.arg == q.name:
                    arg = kw.value
            if arg is None and q.kind == "pos":
                idx = pos.index(q) if q in pos else -1
                if 0 <= idx < len(call.args) and not isinstance(call.args[idx], ast.Starred):
                    arg = call.args[idx]
            if arg is None:
                arg = q.default if q.default is not None else ast.Constant(value=None)
            if isinstance(arg, ast.Name) and q.name not in stored:
                alias[q.name] = arg.id
            elif q.name not in stored and self._pure_arg(arg):
                # a constant or an attribute chain (`self.file_manager.read_manifest_list_file`, `base.properties`): the
                # parameter stands for that expression - substituted at every use, so constants stay visible to the rules
                # and a function value passed as an argument is called by its real name
                subst[q.name] = arg
            else:
                binds.append((q.name + sfx, arg))

        # **kwargs parameter: the dict of the call's keywords that no named parameter takes (or the caller's own **dict)
        named = {q.name for q in params if q.kind in ("pos", "kwonly")}
        for q in [q for q in params if q.kind == "kwarg"]:
            extra = [kw for kw in call.keywords if kw.arg is not None and kw.arg not in named]
            star = [kw.value for kw in call.keywords if kw.arg is None]
            if star and not extra and len(star) == 1 and isinstance(star[0], ast.Name) and q.name not in stored:
                alias[q.name] = star[0].id
            else:
                d = ast.Dict(keys=[ast.Constant(value=kw.arg) for kw in extra] + [None for _ in star],
                             values=[kw.value for kw in extra] + list(star))
                binds.append((q.name + sfx, d))

        class _Sub(ast.NodeTransformer):
            def visit_Name(s_, x: ast.Name) -> ast.AST:  # noqa: N805
                if isinstance(x.ctx, ast.Load) and x.id in subst:
                    new = copy.deepcopy(subst[x.id])
                    for y in ast.walk(new):
                        ast.copy_location(y, x)
                    return new
                return x

        for i, st in enumerate(body):
            if subst:
                st = _Sub().visit(st)
                body[i] = st
                # calls whose callee was the substituted parameter are resolved afresh (in the caller's context)
                for x in ast.walk(st):
                    if isinstance(x, ast.Call):
                        pre = self._pre.get(id(x))
                        if pre is not None and pre.kind in ("param", "unknown"):
                            self._pre.pop(id(x), None)
            for x in ast.walk(st):
                if isinstance(x, ast.Name) and x.id in alias:
                    x.id = alias[x.id]
                elif isinstance(x, ast.Name) and x.id in local_names:
                    x.id = x.id + sfx
                elif isinstance(x, ast.ExceptHandler) and x.name in local_names:
                    x.name = x.name + sfx
        return body, binds

    @staticmethod
    def _pure_arg(arg: ast.AST) -> bool:
        if isinstance(arg, ast.Constant):
            return True
        x = arg
        while isinstance(x, ast.Attribute):
            x = x.value
        return isinstance(x, ast.Name) and isinstance(arg, ast.Attribute)

    def _inline(self, call: ast.Call, t: FunctionInfo, marker: int, stmt: ast.AST, as_cond: bool = False):
        body, binds = self._instantiate(call, t)
        pending: Pending = [(marker, "norm")]
        for nm, arg in binds:
            b = ast.Assign(targets=[ast.Name(id=nm, ctx=ast.Store())], value=arg)
            ast.copy_location(b, call)
            ast.fix_missing_locations(b)
            nb = self.new("stmt", b, b)
            self.g.nodes[nb].flags.add("inline-bind")
            self.connect(pending, nb)
            pending = [(nb, "norm")]
        uid = self._next_uid()
        join = self.new("join", None, stmt)
        self._inline_join[uid] = join
        wrap = self._cond_none if as_cond else None
        self._cond_none = None
        if as_cond:
            tj = self.new("join", None, stmt)
            self._inline_cond[uid] = (tj, join)  # falling off the end returns None: the false side
            if wrap:
                self._inline_cond_wrap[uid] = wrap
        self.g.inline_returns.setdefault(id(call), [])
        self.g.inlined_calls[id(call)] = t
        self._inline_stack.append(t.qname)
        self.frames.append(Frame("inline", call, "body", None, uid))
        saved_fn = self.fn
        try:
            out = self.stmts(body, pending)
        finally:
            self.frames.pop()
            self._inline_stack.pop()
            self.fn = saved_fn
        if as_cond and wrap == "is":
            self.connect(out, self._inline_cond[uid][0])  # falling off the end returns None, and `None is None` holds
        else:
            self.connect(out, join)
        if as_cond:
            return [(self._inline_cond[uid][0], "norm")], [(join, "norm")]
        return [(join, "norm")]

    def _cond_expr(self, e: ast.AST, pending: Pending, stmt: ast.AST, flags: Set[str]) -> Pending:
        """Calls inside `e` may or may not run: route around them."""
        before = list(pending)
        after = self.expr(e, pending, stmt, set(flags) | {"conditional"})
        if after == before:
            return after
        # a bypass: predecessors may skip the conditional calls
        j = self.new("join", None, stmt)
        self.connect(before, j)
        self.connect(after, j)
        return [(j, "norm")]

    def _infallible_call(self, node: Node) -> bool:
        c = node.callee
        if c is None:
            return False
        if c.kind == "prim" and c.name.startswith("logging."):
            return True
        return False

    def cond(self, e: ast.AST, pending: Pending, stmt: ast.AST) -> Tuple[Pending, Pending]:
        """Build a (possibly short-circuit) test; returns (true_pending, false_pending)."""
        if isinstance(e, ast.BoolOp):
            if isinstance(e.op, ast.And):
                false_all: Pending = []
                cur = pending
                for v in e.values:
                    t, f = self.cond(v, cur, stmt)
                    false_all += f
                    cur = t
                return cur, false_all
            true_all: Pending = []
            cur = pending
            for v in e.values:
                t, f = self.cond(v, cur, stmt)
                true_all += t
                cur = f
            return true_all, cur
        if isinstance(e, ast.UnaryOp) and isinstance(e.op, ast.Not):
            t, f = self.cond(e.operand, pending, stmt)
            return f, t
        if isinstance(e, ast.Call):
            self._want_cond, self._cond_result = True, None
            pending = self.expr(e, pending, stmt)
            self._want_cond = False
            if self._cond_result is not None:
                res, self._cond_result = self._cond_result, None
                return res
        elif isinstance(e, ast.Compare) and len(e.ops) == 1 and isinstance(e.ops[0], (ast.Is, ast.IsNot)) and isinstance(e.left, ast.Call) \
                and isinstance(e.comparators[0], ast.Constant) and e.comparators[0].value is None:
            # `if helper(..) is not None:` with the helper analysed in place: each `return <expr>` becomes a test of
            # `<expr> is not None` (a `return None` reaches only the false side)
            self._want_cond, self._cond_result = True, None
            self._cond_none = "is" if isinstance(e.ops[0], ast.Is) else "isnot"
            pending = self.expr(e.left, pending, stmt)
            self._want_cond = False
            self._cond_none = None
            if self._cond_result is not None:
                res, self._cond_result = self._cond_result, None
                return res
        else:
            pending = self.expr(e, pending, stmt)
        b = self.new("branch", e, stmt)
        self.connect(pending, b)
        if expr_may_raise(e):
            self.g.nodes[b].may_raise = True
            t, l = self.route("exc", self.frames)
            self.g.add_edge(b, t, l)
        if isinstance(e, ast.Constant):
            return ([(b, "true")], []) if e.value else ([], [(b, "false")])
        if isinstance(e, ast.Compare) and len(e.ops) == 1 and isinstance(e.ops[0], (ast.Is, ast.IsNot)) and isinstance(e.left, ast.Constant) \
                and isinstance(e.comparators[0], ast.Constant) and (e.left.value is None or e.comparators[0].value is None):
            # `None is not None` / `'*' is not None`: an optional parameter of a helper analysed in place, given (or omitted) as a
            # literal at this call site - one side only
            same = (e.left.value is None) and (e.comparators[0].value is None)
            truth = same if isinstance(e.ops[0], ast.Is) else not same
            return ([(b, "true")], []) if truth else ([], [(b, "false")])
        return [(b, "true")], [(b, "false")]

    # ----------------------------------------------------------- statements
    def stmts(self, body: Sequence[ast.stmt], pending: Pending) -> Pending:
        for st in body:
            if not pending:
                break  # unreachable
            pending = self.stmt(st, pending)
        return pending

    def simple(self, st: ast.AST, pending: Pending, exprs: Sequence[Optional[ast.AST]], kind: str = "stmt") -> int:
        for e in exprs:
            pending = self.expr(e, pending, st)
        n = self.new(kind, st, st)
        self.connect(pending, n)
        if any(expr_may_raise(e) for e in exprs) or self._stmt_self_raises(st):
            self.g.nodes[n].may_raise = True
            t, l = self.route("exc", self.frames)
            self.g.add_edge(n, t, l)
        return n

    @staticmethod
    def _stmt_self_raises(st: ast.AST) -> bool:
        if isinstance(st, ast.Assign):
            for t in st.targets:
                if isinstance(t, (ast.Tuple, ast.List)):
                    return True  # unpacking may raise
                if isinstance(t, ast.Subscript):
                    return True
        if isinstance(st, ast.AugAssign):
            return not isinstance(st.value, ast.Constant) or not isinstance(st.target, ast.Name)
        if isinstance(st, ast.Delete):
            return any(isinstance(t, ast.Subscript) for t in st.targets)
        if isinstance(st, (ast.Import, ast.ImportFrom)):
            return True
        return False

    def stmt(self, st: ast.stmt, pending: Pending) -> Pending:
        if isinstance(st, ast.Expr):
            n = self.simple(st, pending, [st.value])
            return [(n, "norm")]
        if isinstance(st, ast.Assign):
            n = self.simple(st, pending, [st.value] + [t for t in st.targets if not isinstance(t, ast.Name)])
            return [(n, "norm")]
        if isinstance(st, ast.AnnAssign):
            n = self.simple(st, pending, [st.value])
            return [(n, "norm")]
        if isinstance(st, ast.AugAssign):
            n = self.simple(st, pending, [st.value])
            return [(n, "norm")]
        if isinstance(st, ast.Return):
            inl = next((fr for fr in reversed(self.frames) if fr.kind == "inline"), None)
            if inl is not None and inl.uid in self._inline_cond:
                val = st.value if st.value is not None else ast.copy_location(ast.Constant(value=None), st)
                wrap_ = self._inline_cond_wrap.get(inl.uid)
                if wrap_:
                    if isinstance(val, ast.Constant):
                        val = ast.copy_location(ast.Constant(value=(val.value is None) == (wrap_ == "is")), st)
                    elif isinstance(val, (ast.Dict, ast.List, ast.Tuple, ast.Set, ast.JoinedStr)):
                        val = ast.copy_location(ast.Constant(value=(wrap_ != "is")), st)  # a display is never None
                    else:
                        val = ast.copy_location(ast.Compare(left=val, ops=[ast.Is() if wrap_ == "is" else ast.IsNot()],
                                                            comparators=[ast.Constant(value=None)]), st)
                        ast.fix_missing_locations(val)
                tp, fp = self.cond(val, pending, st)
                for pend, kind in ((tp, "return_t"), (fp, "return_f")):
                    if not pend:
                        continue
                    n = self.new("stmt", st, st)
                    self.g.nodes[n].flags.add("inline-return")
                    self.connect(pend, n)
                    self.g.inline_returns.setdefault(id(inl.node), []).append((st.value, n))
                    t, l = self.route(kind, self.frames)
                    self.g.add_edge(n, t, l)
                return []
            n = self.simple(st, pending, [st.value], "return" if inl is None else "stmt")
            if inl is not None:
                self.g.nodes[n].flags.add("inline-return")
                self.g.inline_returns.setdefault(id(inl.node), []).append((st.value, n))
            t, l = self.route("return", self.frames)
            self.g.add_edge(n, t, l)
            return []
        if isinstance(st, ast.Raise):
            for e in (st.exc, st.cause):
                pending = self.expr(e, pending, st)
            n = self.new("raise", st, st)
            self.connect(pending, n)
            node = self.g.nodes[n]
            node.may_raise = True
            node.raised = self._raised_class(st)
            t, l = self.route("exc", self.frames)
            self.g.add_edge(n, t, l)
            return []
        if isinstance(st, ast.If):
            t, f = self.cond(st.test, pending, st)
            tp = self.stmts(st.body, t)
            fp = self.stmts(st.orelse, f) if st.orelse else f
            return tp + fp
        if isinstance(st, ast.While):
            return self._while(st, pending)
        if isinstance(st, (ast.For, ast.AsyncFor)):
            return self._for(st, pending)
        if isinstance(st, ast.Try) or st.__class__.__name__ == "TryStar":
            return self._try(st, pending)  # type: ignore[arg-type]
        if isinstance(st, (ast.With, ast.AsyncWith)):
            return self._with(st, list(st.items), pending)
        if isinstance(st, ast.Break):
            n = self.new("stmt", st, st)
            self.connect(pending, n)
            lu = self._innermost_loop()
            t, l = self.route("break", self.frames, lu)
            self._loop_info[lu]["breaks"].append(n)  # type: ignore[union-attr]
            self.g.add_edge(n, t, "norm")
            return []
        if isinstance(st, ast.Continue):
            n = self.new("stmt", st, st)
            self.connect(pending, n)
            lu = self._innermost_loop()
            t, l = self.route("continue", self.frames, lu)
            self.g.add_edge(n, t, "back")
            return []
        if isinstance(st, ast.Assert):
            t, f = self.cond(st.test, pending, st)
            if f:
                n = self.new("raise", st, st)
                self.connect(f, n)
                self.g.nodes[n].raised = "AssertionError"
                self.g.nodes[n].may_raise = True
                tt, l = self.route("exc", self.frames)
                self.g.add_edge(n, tt, l)
            return t
        if isinstance(st, (ast.FunctionDef, ast.AsyncFunctionDef, ast.ClassDef)):
            n = self.new("stmt", st, st)
            self.connect(pending, n)
            return [(n, "norm")]
        if isinstance(st, ast.Delete):
            n = self.simple(st, pending, list(st.targets))
            return [(n, "norm")]
        if isinstance(st, (ast.Pass, ast.Import, ast.ImportFrom, ast.Global, ast.Nonlocal)):
            n = self.simple(st, pending, [])
            return [(n, "norm")]
        if st.__class__.__name__ == "Match":
            raise AnalysisError(f"match statement not modelled ({self.fn.qname}:{st.lineno})")
        raise AnalysisError(f"statement kind {type(st).__name__} not modelled ({self.fn.qname}:{st.lineno})")

    def _raised_class(self, st: ast.Raise) -> Optional[str]:
        if st.exc is None:
            return "reraise"
        e = st.exc
        if isinstance(e, ast.Call):
            e = e.func
        dn = dotted(e)
        if dn is None:
            return None
        # `raise e` where e is the variable of an enclosing handler => re-raise
        for fr in reversed(self.frames):
            if fr.kind == "try" and fr.part == "handler" and fr.handler is not None and fr.handler.name == dn:
                return "reraise"
        # `raise self._missing(key)`: an exception FACTORY of the package - the class it is annotated to return, or the one class
        # every `return` of it constructs
        if isinstance(st.exc, ast.Call) and dn.split(".")[-1].lstrip("_")[:1].islower():
            try:
                cal = self.prog.resolve_call(st.exc, self.fn)
            except Exception:
                cal = None
            if cal is not None and cal.kind == "func" and len(cal.funcs) == 1 and not isinstance(cal.funcs[0].node, ast.Lambda):
                t = cal.funcs[0]
                ann = dotted(getattr(t.node, "returns", None)) if getattr(t.node, "returns", None) is not None else None
                if ann and (ann.endswith("Error") or ann.endswith("Exception")):
                    return ann
                rets = [x.value for x in ast.walk(t.node) if isinstance(x, ast.Return) and x.value is not None]
                names = {dotted(r.func) for r in rets if isinstance(r, ast.Call)}
                if rets and len(names) == 1 and None not in names and all(isinstance(r, ast.Call) for r in rets):
                    nm = next(iter(names))
                    if nm and (nm.endswith("Error") or nm.endswith("Exception")):
                        return nm
        return dn

    def _innermost_loop(self) -> int:
        for fr in reversed(self.frames):
            if fr.kind == "loop":
                return fr.uid
        raise AnalysisError(f"break/continue outside loop in {self.fn.qname}")

    def _next_uid(self) -> int:
        self._uid += 1
        return self._uid

    def _back(self, pending: Pending, head: int, st: ast.AST) -> None:
        """Back edges of a loop; a branch's true/false label is preserved through a join node."""
        for s, l in pending:
            if l in ("true", "false"):
                j = self.new("join", None, st)
                self.g.add_edge(s, j, l)
                self.g.add_edge(j, head, "back")
            else:
                self.g.add_edge(s, head, "back")

    def _while(self, st: ast.While, pending: Pending) -> Pending:
        uid = self._next_uid()
        head = self.new("loop_head", st, st)
        self.connect(pending, head)
        after = self.new("join", None, st)
        self._loop_info[uid] = {"head": head, "after": after, "breaks": []}
        t, f = self.cond(st.test, [(head, "norm")], st)
        self.frames.append(Frame("loop", st, "body", None, uid))
        bp = self.stmts(st.body, t)
        self.frames.pop()
        self._back(bp, head, st)
        if st.orelse:
            f = self.stmts(st.orelse, f)
        self.connect(f, after)
        if not self.g.pred[after]:
            return []
        return [(after, "norm")]

    def _generator_target(self, it: ast.AST) -> Optional[FunctionInfo]:
        """The generator function behind `for x in helper(...)`, when helper was introduced after the rules were written,
        yields through at most three plain `yield e` statements and never `return`s."""
        if not isinstance(it, ast.Call):
            return None
        c = self._pre.get(id(it)) or self.prog.resolve_call(it, self.fn)
        if c is None or c.kind != "func" or len(c.funcs) != 1:
            return None
        t = c.funcs[0]
        if self.prog.is_known(t) or isinstance(t.node, ast.Lambda) or t.decorators and any(
                d.split(".")[-1] == "contextmanager" for d in t.decorators):
            return None
        if t.qname in self._inline_stack or len(self._inline_stack) > 3:
            return None
        own = list(ast.walk(t.node))
        ys = [x for x in own if isinstance(x, (ast.Yield, ast.YieldFrom))]
        if not ys or len(ys) > 3 or any(isinstance(y, ast.YieldFrom) for y in ys):
            return None
        if any(isinstance(x, ast.Return) for x in own) or any(isinstance(x, (ast.FunctionDef, ast.Lambda)) and x is not t.node for x in own):
            return None
        if not all(any(isinstance(x, ast.Expr) and x.value is y for x in own) for y in ys):
            return None
        return t

    @staticmethod
    def _toplevel(body: Sequence[ast.stmt], kinds: tuple) -> bool:
        """Does `body` contain a statement of `kinds` that belongs to it (not to a loop / function nested inside it)?"""
        stack: List[ast.AST] = list(body)
        while stack:
            x = stack.pop()
            if isinstance(x, kinds):
                return True
            if isinstance(x, (ast.For, ast.AsyncFor, ast.While, ast.FunctionDef, ast.AsyncFunctionDef, ast.Lambda, ast.ClassDef)):
                continue
            stack.extend(ast.iter_child_nodes(x))
        return False

    def _for(self, st: ast.AST, pending: Pending) -> Pending:
        gt = self._generator_target(st.iter) if not st.orelse else None  # type: ignore[attr-defined]
        if gt is not None and not self._toplevel(st.body, (ast.Break,)):  # type: ignore[attr-defined]
            # `for x in helper(...): BODY` over a generator introduced later: the generator's body runs in place, each
            # `yield e` replaced by `x = e; BODY` (a `continue` in BODY resumes the generator after the yield)
            key = ("gen", id(st))
            cache = self.__dict__.setdefault("_synth", {})
            if key not in cache:
                import copy
                body, binds = self._instantiate(st.iter, gt)  # type: ignore[arg-type]
                pre: List[ast.stmt] = []
                for nm, arg in binds:
                    b = ast.Assign(targets=[ast.Name(id=nm, ctx=ast.Store())], value=arg)
                    ast.copy_location(b, st)
                    ast.fix_missing_locations(b)
                    pre.append(b)
                has_continue = self._toplevel(st.body, (ast.Continue,))  # type: ignore[attr-defined]

                def block(val: Optional[ast.AST], at: ast.AST) -> List[ast.stmt]:
                    a = ast.Assign(targets=[copy.deepcopy(st.target)], value=val if val is not None else ast.Constant(value=None))  # type: ignore[attr-defined]
                    ast.copy_location(a, st)
                    ast.fix_missing_locations(a)
                    inner: List[ast.stmt] = list(st.body)  # type: ignore[attr-defined]
                    if has_continue:
                        once = ast.For(target=ast.Name(id="_once__gen", ctx=ast.Store()),
                                       iter=ast.Tuple(elts=[ast.Constant(value=0)], ctx=ast.Load()), body=inner, orelse=[])
                        ast.copy_location(once, st)
                        ast.fix_missing_locations(once)
                        inner = [once]
                    return [a] + inner

                def subst(stmts: List[ast.stmt]) -> None:
                    i = 0
                    while i < len(stmts):
                        x = stmts[i]
                        if isinstance(x, ast.Expr) and isinstance(x.value, ast.Yield):
                            rep = block(x.value.value, x)
                            stmts[i:i + 1] = rep
                            i += len(rep)
                            continue
                        for fld in ("body", "orelse", "finalbody"):
                            sub = getattr(x, fld, None)
                            if isinstance(sub, list) and sub and isinstance(sub[0], ast.stmt):
                                subst(sub)
                        for h in getattr(x, "handlers", []) or []:
                            subst(h.body)
                        i += 1

                subst(body)
                cache[key] = pre + body
            synth = cache[key]
            for a in st.iter.args:  # type: ignore[attr-defined]
                pending = self.expr(a.value if isinstance(a, ast.Starred) else a, pending, st)
            for kw in st.iter.keywords:  # type: ignore[attr-defined]
                pending = self.expr(kw.value, pending, st)
            cn = self.new("call", st.iter, st)  # type: ignore[attr-defined]
            self.g.nodes[cn].callee = self._pre.get(id(st.iter)) or self.prog.resolve_call(st.iter, self.fn)  # type: ignore[attr-defined]
            self.g.nodes[cn].flags.add("inlined")
            self.connect(pending, cn)
            self.g.inlined_calls[id(st.iter)] = gt  # type: ignore[attr-defined]
            self._inline_stack.append(gt.qname)
            try:
                return self.stmts(synth, [(cn, "norm")])
            finally:
                self._inline_stack.pop()
        uid = self._next_uid()
        pending = self.expr(st.iter, pending, st)  # type: ignore[attr-defined]
        head = self.new("loop", st, st)
        self.connect(pending, head)
        it = st.iter  # type: ignore[attr-defined]
        if not isinstance(it, (ast.List, ast.Tuple, ast.Set, ast.Dict)):
            # iterating an arbitrary iterable may raise (generators, readers)
            self.g.nodes[head].may_raise = True
            t, l = self.route("exc", self.frames)
            self.g.add_edge(head, t, l)
        after = self.new("join", None, st)
        self._loop_info[uid] = {"head": head, "after": after, "breaks": []}
        self.frames.append(Frame("loop", st, "body", None, uid))
        bp = self.stmts(st.body, [(head, "true")])  # type: ignore[attr-defined]
        self.frames.pop()
        self._back(bp, head, st)
        f: Pending = [(head, "false")]
        if st.orelse:  # type: ignore[attr-defined]
            f = self.stmts(st.orelse, f)  # type: ignore[attr-defined]
        self.connect(f, after)
        return [(after, "norm")]

    def _with(self, st: ast.AST, items: List[ast.withitem], pending: Pending) -> Pending:
        if not items:
            return self.stmts(st.body, pending)  # type: ignore[attr-defined]
        it = items[0]
        ce = it.context_expr
        if isinstance(ce, ast.Call) and (dotted(ce.func) or "").split(".")[-1] == "suppress" and ce.args and it.optional_vars is None:
            # `with contextlib.suppress(X, Y): body`  ==  try: body  except (X, Y): pass
            typ: ast.AST = ce.args[0] if len(ce.args) == 1 else ast.Tuple(elts=list(ce.args), ctx=ast.Load())
            h = ast.ExceptHandler(type=typ, name=None, body=[ast.Pass()])
            inner: List[ast.stmt]
            if len(items) > 1:
                w = ast.With(items=items[1:], body=st.body)  # type: ignore[attr-defined]
                ast.copy_location(w, st)
                inner = [w]
            else:
                inner = list(st.body)  # type: ignore[attr-defined]
            tr = ast.Try(body=inner, handlers=[h], orelse=[], finalbody=[])
            ast.copy_location(tr, st)
            ast.copy_location(h, st)
            ast.fix_missing_locations(tr)
            key = ("suppress", id(st), id(it))
            cache = self.__dict__.setdefault("_synth", {})
            tr = cache.setdefault(key, tr)
            return self._try(tr, pending)
        cm = self._contextmanager_target(ce)
        if cm is not None:
            # `with helper(...) [as v]: BODY` for a @contextmanager generator introduced after the rules were written:
            # the helper's body runs in place, its single `yield x` statement replaced by `v = x; BODY` (exceptions of BODY
            # surface at the yield, so the helper's try/finally / try/except wrap BODY exactly as at run time)
            key = ("cm", id(st), id(it))
            cache = self.__dict__.setdefault("_synth", {})
            if key not in cache:
                body, binds = self._instantiate(ce, cm)  # type: ignore[arg-type]
                pre: List[ast.stmt] = []
                for nm, arg in binds:
                    b = ast.Assign(targets=[ast.Name(id=nm, ctx=ast.Store())], value=arg)
                    ast.copy_location(b, ce)
                    ast.fix_missing_locations(b)
                    pre.append(b)
                inner_body: List[ast.stmt]
                if len(items) > 1:
                    w = ast.With(items=items[1:], body=st.body)  # type: ignore[attr-defined]
                    ast.copy_location(w, st)
                    inner_body = [w]
                else:
                    inner_body = list(st.body)  # type: ignore[attr-defined]

                def subst(stmts: List[ast.stmt]) -> bool:
                    for i, x in enumerate(stmts):
                        if isinstance(x, ast.Expr) and isinstance(x.value, ast.Yield):
                            repl: List[ast.stmt] = []
                            if it.optional_vars is not None:
                                val = x.value.value if x.value.value is not None else ast.Constant(value=None)
                                a = ast.Assign(targets=[it.optional_vars], value=val)
                                ast.copy_location(a, st)
                                ast.fix_missing_locations(a)
                                repl.append(a)
                            stmts[i:i + 1] = repl + inner_body
                            return True
                        for fld in ("body", "orelse", "finalbody"):
                            sub = getattr(x, fld, None)
                            if isinstance(sub, list) and sub and isinstance(sub[0], ast.stmt) and subst(sub):
                                return True
                        for h in getattr(x, "handlers", []) or []:
                            if subst(h.body):
                                return True
                    return False

                ok = subst(body)
                cache[key] = (pre + body) if ok else None
            synth = cache[key]
            if synth is not None:
                # the call itself stays visible (call graph / call sites), marked as inlined
                for a in ce.args:  # type: ignore[attr-defined]
                    pending = self.expr(a.value if isinstance(a, ast.Starred) else a, pending, st)
                for kw in ce.keywords:  # type: ignore[attr-defined]
                    pending = self.expr(kw.value, pending, st)
                cn = self.new("call", ce, st)
                self.g.nodes[cn].callee = self._pre.get(id(ce)) or self.prog.resolve_call(ce, self.fn)  # type: ignore[arg-type]
                self.g.nodes[cn].flags.add("inlined")
                self.connect(pending, cn)
                pending = [(cn, "norm")]
                self.g.inlined_calls[id(ce)] = cm
                self._inline_stack.append(cm.qname)
                try:
                    return self.stmts(synth, pending)
                finally:
                    self._inline_stack.pop()
        pending = self.expr(it.context_expr, pending, st)
        enter = self.new("with_enter", it, st)
        self.connect(pending, enter)
        self.g.nodes[enter].may_raise = True
        t, l = self.route("exc", self.frames)
        self.g.add_edge(enter, t, l)
        uid = self._next_uid()
        self.frames.append(Frame("with", it, "body", None, uid))
        bp = self._with(st, items[1:], [(enter, "norm")])
        self.frames.pop()
        if not bp:
            return []
        ex = self.new("with_exit", it, st)
        self.connect(bp, ex)
        return [(ex, "norm")]

    def _try(self, st: ast.Try, pending: Pending) -> Pending:
        uid = self._next_uid()
        fr = Frame("try", st, "body", None, uid)
        outer = list(self.frames)
        self.frames.append(fr)
        body_p = self.stmts(st.body, pending)
        self.frames.pop()
        out: Pending = []
        # else part
        if st.orelse and body_p:
            self.frames.append(Frame("try", st, "else", None, uid))
            body_p = self.stmts(st.orelse, body_p)
            self.frames.pop()
        out += body_p
        # handlers
        if st.handlers:
            d = self.dispatch_node(outer + [fr])
            catches_base = False
            catches_exc = False
            for h in st.handlers:
                hf = Frame("try", st, "handler", h, uid)
                self.frames.append(hf)
                hn = self.new("handler", h, st)
                if not (isinstance(h.type, ast.Tuple) and not h.type.elts):  # `except ():` names no class - it catches nothing
                    self.g.add_edge(d, hn, "exc")
                hp = self.stmts(h.body, [(hn, "norm")])
                self.frames.pop()
                out += hp
                for c in handler_classes(h):
                    if c == "BaseException":
                        catches_base = True
                    if c == "Exception":
                        catches_exc = True
            if not catches_base:
                # what the handlers do not catch continues outward (through our own finally)
                t, _l = self.route("exc", outer + [Frame("try", st, "handler", None, uid)])
                self.g.add_edge(d, t, "exc_base" if catches_exc else "exc")
        # finally on normal completion
        if st.finalbody and out:
            self.frames.append(Frame("try", st, "final", None, uid))
            fe = self.new("finally", st, st)
            self.g.nodes[fe].flags.add("cleanup:norm")
            self.connect(out, fe)
            out = self.stmts(st.finalbody, [(fe, "norm")])
            self.frames.pop()
        return out


def build_cfg(prog: Program, fn: FunctionInfo) -> CFG:
    cache: Dict[str, CFG] = prog.__dict__.setdefault("_cfg_cache", {})
    g = cache.get(fn.qname)
    if g is None:
        g = CFGBuilder(prog, fn).build()
        cache[fn.qname] = g
    return g
