#!/venv/bin/python
"""CLI: python /verif/sa/check.py --property C07 --tier quick|thorough [--repo /repo]

exit 0: every obligation discharged (KNOWN-FINDING lines for listed findings)
exit 1: VIOLATION property=<id> replay=<path>
exit 2: ANALYSIS-ERROR (vanished anchor, unparsable file, engine failure)"""
from __future__ import annotations

import argparse
import json
import os
import sys
import traceback

sys.path.insert(0, os.path.dirname(os.path.dirname(os.path.abspath(__file__))))

from sa.core import Ctx, run_property  # noqa: E402
from sa.model import AnalysisError  # noqa: E402
from sa import rules as registry  # noqa: E402


def main() -> int:
    ap = argparse.ArgumentParser()
    ap.add_argument("--property", "-p")
    ap.add_argument("--tier", default=os.environ.get("VERIF_TIER", "quick"), choices=["quick", "thorough"])
    ap.add_argument("--repo", default=os.environ.get("VERIF_REPO", "/repo"))
    ap.add_argument("--dump", help="dump the CFG of a function (qualified name)")
    ap.add_argument("--replay", help="re-derive the violations recorded in a replay file")
    ap.add_argument("--no-evidence", action="store_true")
    ap.add_argument("--all", action="store_true", help="run every implemented property (no evidence unless given)")
    a = ap.parse_args()
    try:
        if a.dump:
            ctx = Ctx(a.repo)
            print(ctx.cfg(ctx.fn(a.dump)).dump())
            print("escapes:", sorted(ctx.eff.escapes[ctx.fn(a.dump).qname]))
            return 0
        if a.replay:
            with open(a.replay) as fh:
                rp = json.load(fh)
            a.property = rp["property"]
            a.no_evidence = True
        if a.all:
            mods = registry.available()
            ctx = Ctx(a.repo)
            rc = 0
            for pid, mod in mods.items():
                try:
                    code, _v, _c = run_property(pid, a.tier, a.repo, mod.check, mod.EXPLANATION, mod.NOT_DECIDED,
                                                getattr(mod, "ASSUMPTIONS", ()), ctx=ctx,
                                                write_evidence=not a.no_evidence)
                except AnalysisError as e:
                    print(f"ANALYSIS-ERROR property={pid}: {e}")
                    code = 2
                rc = max(rc, code)
            return rc
        if not a.property:
            ap.error("--property required")
        mod = registry.load(a.property)
        if a.tier == "thorough" and hasattr(mod, "thorough"):
            return int(mod.thorough(a))
        if a.tier == "thorough":
            from sa.thorough import run_thorough
            return run_thorough(a.property, mod, a.repo, write_evidence=not a.no_evidence)
        code, _viol, _ctx = run_property(a.property, a.tier, a.repo, mod.check, mod.EXPLANATION, mod.NOT_DECIDED,
                                         getattr(mod, "ASSUMPTIONS", ()), write_evidence=not a.no_evidence)
        return code
    except AnalysisError as e:
        print(f"ANALYSIS-ERROR property={a.property}: {e}")
        return 2
    except Exception:  # any traceback is an engine failure, never a verdict
        print(f"ANALYSIS-ERROR property={a.property}: engine failure")
        traceback.print_exc()
        return 2


if __name__ == "__main__":
    sys.exit(main())
