"""E5 - rule runner: obligations, known findings, evidence, exit codes."""
from __future__ import annotations

import ast
import json
import os
import time
from dataclasses import dataclass, field
from typing import Callable, Dict, Iterable, List, Optional, Sequence, Set, Tuple

from .cfg import CFG, EXC, NORMAL, Node, build_cfg
from .effects import Effects, TRUSTED_PRIMITIVES
from .flow import ALL, ReachingDefs, Slicer, dominators, find_path, path_text
from .model import AnalysisError, FunctionInfo, Program, norm_text

VERIF = os.path.dirname(os.path.dirname(os.path.abspath(__file__)))


@dataclass
class Ob:
    rule: str
    key: str
    ok: bool
    file: str
    line: int
    detail: str
    nontrivial: bool = False
    witness: Optional[List[str]] = None

    def to_json(self) -> Dict[str, object]:
        d: Dict[str, object] = {"rule": self.rule, "construct": self.key, "at": f"{self.file}:{self.line}",
                                "verdict": "holds" if self.ok else "FAILS", "checked": self.detail}
        if self.witness:
            d["witness"] = self.witness
        return d


class _DomDict(dict):
    """dominator sets; a node unreachable under the chosen edge labels is dominated by nothing."""

    def __missing__(self, key: int) -> Set[int]:
        return set()


class Ctx:
    """Everything a rule needs; collects obligations."""

    def __init__(self, repo: str = "/repo") -> None:
        self.repo = repo
        self.prog = Program(repo)
        self.eff = Effects(self.prog)
        self.obs: List[Ob] = []
        self.floors: Dict[str, int] = {}
        self.rule_text: Dict[str, str] = {}
        self._dom: Dict[Tuple[str, str], Dict[int, Set[int]]] = {}
        self._rd: Dict[str, ReachingDefs] = {}
        self.notes: List[str] = []

    # ---- anchors
    def fn(self, q: str) -> FunctionInfo:
        return self.prog.fn(q)

    def cfg(self, f: FunctionInfo) -> CFG:
        return self.eff.cfg(f)

    def dom(self, f: FunctionInfo, labels: Set[str] = ALL) -> Dict[int, Set[int]]:
        k = (f.qname, ",".join(sorted(labels)))
        if k not in self._dom:
            d = _DomDict(dominators(self.cfg(f), labels))
            self._dom[k] = d
        return self._dom[k]

    def rd(self, f: FunctionInfo) -> ReachingDefs:
        if f.qname not in self._rd:
            self._rd[f.qname] = ReachingDefs(self.cfg(f))
        return self._rd[f.qname]

    def slicer(self, f: FunctionInfo) -> Slicer:
        return Slicer(self.cfg(f), self.rd(f))

    # ---- call-node lookups
    def calls(self, f: FunctionInfo, name: Optional[str] = None, prim: Optional[str] = None,
              storage: Optional[str] = None, lock: Optional[str] = None) -> List[Node]:
        out = []
        for n in self.cfg(f).calls():
            c = n.callee
            if c is None:
                continue
            if name is not None and c.kind in ("func", "ctor") and any(t.name == name for t in c.funcs):
                out.append(n)
            elif name is not None and c.kind == "ctor" and c.cls is not None and c.cls.name == name:
                out.append(n)
            elif prim is not None and c.kind == "prim" and (c.name == prim or (prim.endswith("*") and c.name.startswith(prim[:-1]))):
                out.append(n)
            elif storage is not None and self.eff.storage_op(n) == storage:
                out.append(n)
            elif lock is not None and self.eff.lock_op(n) == lock:
                out.append(n)
        return out

    def one_call(self, f: FunctionInfo, **kw: Optional[str]) -> Node:
        ns = self.calls(f, **kw)  # type: ignore[arg-type]
        if not ns:
            raise AnalysisError(f"anchor call vanished in {f.qname}: {kw}")
        return ns[0]

    # ---- obligations
    def rule(self, rid: str, text: str, floor: int = 1) -> None:
        self.rule_text[rid] = text
        self.floors[rid] = floor

    def shared(self, fn, old: str, new: str, why: str = "") -> None:
        """Run a rule function that reports under its home id `old` and re-label its obligations as `new` (a rule that is a
        necessary condition of several properties is implemented once and reported under each property's own id)."""
        n0 = len(self.obs)
        fn(self)
        for o in self.obs[n0:]:
            if o.rule == old:
                o.rule = new
        if old in self.rule_text:
            self.rule_text[new] = self.rule_text.pop(old) + (f" [{why}]" if why else "")
            self.floors[new] = self.floors.pop(old)

    def ob(self, rule: str, f: Optional[FunctionInfo], role: str, node: Optional[Node], ok: bool, detail: str,
           nontrivial: bool = True, witness: Optional[List[str]] = None, text: Optional[str] = None,
           file: Optional[str] = None, line: Optional[int] = None) -> Ob:
        txt = text if text is not None else (node.text if node is not None else "")
        key = f"{f.qname if f else '-'}|{role}|{txt}"
        o = Ob(rule, key, ok, file or (f.file if f else "-"),
               line if line is not None else (node.lineno if node is not None else (f.lineno if f else 0)),
               detail, nontrivial, witness)
        self.obs.append(o)
        return o

    def path_witness(self, f: FunctionInfo, path: Optional[Sequence[int]]) -> Optional[List[str]]:
        if not path:
            return None
        return path_text(self.cfg(f), path)


# --------------------------------------------------------------------------

def load_known() -> Dict[str, object]:
    p = os.path.join(VERIF, "known_findings.json")
    if not os.path.exists(p):
        return {"known": [], "fixed": []}
    with open(p) as f:
        return json.load(f)


def run_property(pid: str, tier: str, repo: str, rules_fn: Callable[[Ctx], None], explanation: str,
                 not_decided: str, extra_assumptions: Sequence[str] = (), ctx: Optional[Ctx] = None,
                 write_evidence: bool = True, quiet: bool = False) -> Tuple[int, List[Ob], Ctx]:
    """Run one property's rules. Returns (exit code, failing obligations not in known findings, ctx)."""
    t0 = time.time()
    ctx = ctx or Ctx(repo)
    before = len(ctx.obs)
    rules_fn(ctx)
    obs = ctx.obs[before:]
    # instance floors: a rule that matches nothing passes vacuously forever
    counts: Dict[str, int] = {}
    for o in obs:
        counts[o.rule] = counts.get(o.rule, 0) + 1
    failing_rules = {o.rule for o in obs if not o.ok}
    known = load_known()
    known_keys = {(k["rule"], k["key"]): k for k in known.get("known", []) if k.get("property") == pid}  # type: ignore[union-attr]
    unlisted_failure = any((not o.ok) and (o.rule, o.key) not in known_keys for o in obs)
    for rid, floor in ctx.floors.items():
        # the floor guards against VACUOUS passes: it matters only when the property would otherwise be reported as holding.
        # When some obligation of the property already fails (a removed fence also removes instances of sibling rules) the
        # violation is the verdict, not an analysis error.
        if rid.startswith(pid + ".") and counts.get(rid, 0) < floor and rid not in failing_rules and not unlisted_failure:
            raise AnalysisError(f"rule {rid} matched {counts.get(rid, 0)} instance(s), fewer than the "
                                f"{floor} confirmed by hand - anchors moved; the rule would pass vacuously")
    failing = [o for o in obs if not o.ok]
    new_viol: List[Ob] = []
    out_lines: List[str] = []
    for o in failing:
        kf = known_keys.get((o.rule, o.key))
        if kf is not None:
            out_lines.append(f"KNOWN-FINDING: property={pid} {o.rule} {kf.get('what', o.detail)} [{o.key}]")
        else:
            new_viol.append(o)
    replay_dir = os.path.join(VERIF, "evidence", "replay")
    replay_paths: List[str] = []
    if new_viol and write_evidence:
        os.makedirs(replay_dir, exist_ok=True)
        by_rule: Dict[str, List[Ob]] = {}
        for o in new_viol:
            by_rule.setdefault(o.rule, []).append(o)
        for rid, lst in by_rule.items():
            rp = os.path.join(replay_dir, f"{pid}-{rid.split('.', 1)[1]}.json")
            with open(rp, "w") as fh:
                json.dump({"property": pid, "rule": rid, "rule_text": ctx.rule_text.get(rid, ""),
                           "repo_digest": ctx.prog.digest,
                           "violations": [o.to_json() for o in lst]}, fh, indent=1)
            replay_paths.append(rp)
            for o in lst:
                out_lines.append(f"  {o.rule} FAILS at {o.file}:{o.line}: {o.detail}\n    construct: {o.key}")
                for w in (o.witness or [])[:14]:
                    out_lines.append(f"      | {w}")
            out_lines.append(f"VIOLATION property={pid} replay={rp}")
    elif new_viol:
        for o in new_viol:
            out_lines.append(f"  {o.rule} FAILS at {o.file}:{o.line}: {o.detail} [{o.key}]")
        out_lines.append(f"VIOLATION property={pid} replay=-")
    wall = time.time() - t0
    if write_evidence:
        write_evidence_file(pid, tier, ctx, obs, new_viol, failing, wall, explanation, not_decided, extra_assumptions)
    if not quiet:
        rules = sorted({o.rule for o in obs}, key=lambda r: (len(r), r))
        g_nodes = sum(len(g.nodes) for g in ctx.eff.cfgs.values())
        print(f"[{pid}] analysed {len(ctx.prog.modules)} modules, {len(ctx.prog.functions)} functions, "
              f"{g_nodes} CFG nodes; {len(obs)} obligation instances over {len(rules)} rules "
              f"({sum(1 for o in obs if o.ok)} hold, {len(failing)} fail, {len(failing) - len(new_viol)} known) "
              f"in {wall:.2f}s")
        for rid in rules:
            lst = [o for o in obs if o.rule == rid]
            print(f"  {rid:9s} {sum(1 for o in lst if o.ok)}/{len(lst)}  {ctx.rule_text.get(rid, '')[:110]}")
        for l in out_lines:
            print(l)
    return (1 if new_viol else 0), new_viol, ctx


def write_evidence_file(pid: str, tier: str, ctx: Ctx, obs: List[Ob], new_viol: List[Ob], failing: List[Ob],
                        wall: float, explanation: str, not_decided: str, extra_assumptions: Sequence[str],
                        extra_cov: Optional[Dict[str, object]] = None) -> None:
    os.makedirs(os.path.join(VERIF, "evidence"), exist_ok=True)
    distinct_nt = len({o.key + "|" + o.rule for o in obs if o.nontrivial})
    samples = [o.to_json() for o in (failing[:4] + [o for o in obs if o.ok and o.nontrivial][:8])][:10]
    unresolved = 0
    total_calls = 0
    for g in ctx.eff.cfgs.values():
        for n in g.calls():
            total_calls += 1
            if n.callee is not None and n.callee.kind == "unknown":
                unresolved += 1
    cov: Dict[str, object] = {
        "explanation": explanation,
        "rule": "obligation instance = one (rule, construct) pair (a sink, handler, call site, path query, "
                "operator x ordering cell) enumerated from /repo's current source; non-trivial = its verdict needed "
                "a graph query (dominance, avoiding path, def-use slice, escape fixpoint) or an abstract-interpreter "
                "cell, not a presence test; distinct = deduplicated by rule + construct key",
        "rules": {r: ctx.rule_text.get(r, "") for r in sorted({o.rule for o in obs})},
        "obligations": len(obs),
        "discharged": sum(1 for o in obs if o.ok),
        "evaluations": len(obs),
        "distinct_nontrivial": distinct_nt,
        "samples": samples,
        "known_findings_reported": len(failing) - len(new_viol),
        "analysed": {
            "repo_digest_sha256": ctx.prog.digest,
            "modules": len(ctx.prog.modules),
            "functions": len(ctx.prog.functions),
            "cfg_nodes": sum(len(g.nodes) for g in ctx.eff.cfgs.values()),
            "call_sites": total_calls,
            "unresolved_calls": unresolved,
        },
        "not_decided": not_decided,
        "trusted_base": TRUSTED_PRIMITIVES,
        "exhaustive": True,
    }
    if extra_cov:
        cov.update(extra_cov)
    ev = {
        "property_id": pid,
        "tier": tier,
        "seed": int(os.environ.get("VERIF_SEED", "0") or 0),
        "level": "other",
        "coverage": cov,
        "assumptions": [
            "trusted base: hand-written raise/effect summaries of os, fcntl, tempfile, json, fastavro, pyarrow, boto3 primitives",
            "no monkey-patching / setattr dispatch / third-party StorageBackend subclasses (the package uses none)",
            "the rules are necessary structural conditions of the property, not the behavioural statement itself",
        ] + list(extra_assumptions) + list(ctx.notes),
        "wall_s": round(wall, 3),
        "violations": len(new_viol),
    }
    with open(os.path.join(VERIF, "evidence", f"{pid}.json"), "w") as fh:
        json.dump(ev, fh, indent=1)
