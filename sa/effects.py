"""E2a/E3 - primitive summaries (the trusted base), call graph with function-value
bindings, exception-escape fixpoint, transitive reachability of effects."""
from __future__ import annotations

import ast
from typing import Callable, Dict, FrozenSet, Iterable, List, Optional, Sequence, Set, Tuple

from .cfg import CFG, Frame, Node, build_cfg, handler_classes
from .model import AnalysisError, Callee, ClassInfo, FunctionInfo, Program, T, dotted, norm_text

ANY = frozenset({"Exception"})
NONE: FrozenSet[str] = frozenset()

# ---------------------------------------------------------------- primitives
PURE_METHODS = {
    "get", "items", "keys", "values", "append", "extend", "add", "update", "startswith", "endswith",
    "lstrip", "rstrip", "strip", "lower", "upper", "split", "rsplit", "replace", "join", "format",
    "hexdigest", "getvalue", "isdigit", "isascii", "isdecimal", "isnumeric", "match", "group", "total_seconds",
    "timestamp", "isoformat", "is_alive", "set", "clear", "wait", "start", "is_set", "copy", "setdefault",
    "union", "intersection", "difference", "insert", "count", "find", "title", "capitalize", "partition",
    "rpartition", "sort", "reverse", "hex", "discard", "issubset", "issuperset", "with_metadata", "tell",
    "is_null", "is_valid", "is_in", "equals", "fullmatch", "search", "groups", "zfill", "ljust", "rjust",
    "setLevel", "setFormatter", "addHandler", "removeHandler", "acquire_lock",
}
TRUSTED_PRIMITIVES = [
    "os.open/close/write/fsync/replace/rename/remove/unlink/makedirs/walk, os.path.getsize/getmtime, open, tempfile.*, shutil.disk_usage: may raise OSError; effect on the path argument",
    "os.path.join/dirname/basename/realpath/isabs/exists/isfile: no raise; commonpath/relpath: ValueError",
    "fcntl.flock / msvcrt.locking: OSError; blocking unless LOCK_NB / LK_NBLCK",
    "json.loads, bytes.decode, int(), float(), fromisoformat: ValueError, TypeError",
    "fastavro.reader/writer and iteration of a reader: ValueError, IndexError, StopIteration, OSError, KeyError, TypeError",
    "pyarrow.*: ArrowException family, OSError, TypeError, ValueError, KeyError",
    "boto3 client methods: ClientError, BotoCoreError; put_object conditional iff IfMatch/IfNoneMatch keyword present",
    "time.sleep / Event.wait(t) / Thread.join(t): bounded block; uuid.uuid4(): fresh value; datetime.now()/time.time(): clock value (not fresh)",
    "logging calls never raise; str/list/dict/set accessor methods never raise",
    "anything unresolved: may raise Exception",
]


def prim_raises(name: str) -> FrozenSet[str]:
    """Exception classes a primitive may raise (class-or-subclass tokens)."""
    n = name
    if n.startswith("logging."):
        return NONE
    if n.startswith("os.path."):
        leaf = n.rsplit(".", 1)[1]
        if leaf in ("commonpath", "relpath"):
            return frozenset({"ValueError"})
        if leaf in ("getsize", "getmtime", "getctime", "samefile"):
            return frozenset({"OSError"})
        return NONE
    if n in ("os.getenv", "os.getpid", "os.cpu_count", "os.environ.get", "os.fspath"):
        return NONE
    if n.startswith("os.") or n.startswith("tempfile.") or n.startswith("shutil.") or n == "builtins.open":
        return frozenset({"OSError"})
    if n.startswith("fcntl.") or n.startswith("msvcrt."):
        return frozenset({"OSError"})
    if n == "json.loads":
        return frozenset({"ValueError", "TypeError"})
    if n == "json.dumps":
        return frozenset({"ValueError", "TypeError"})
    if n in ("builtins.int", "builtins.float"):
        return frozenset({"ValueError", "TypeError"})
    if n == "builtins.next":
        return frozenset({"StopIteration"})
    if n == "builtins.super":
        return NONE
    if n.startswith("builtins."):
        leaf = n.split(".", 1)[1]
        if leaf in ("exec", "eval", "compile", "setattr", "delattr", "getattr", "input"):
            return ANY
        return NONE
    if n.startswith("fastavro."):
        return frozenset({"ValueError", "IndexError", "StopIteration", "OSError", "KeyError", "TypeError"})
    if n.startswith("pyarrow") or n.startswith("pandas"):
        return frozenset({"pa.ArrowException", "OSError", "TypeError", "ValueError", "KeyError"})
    if n.startswith("boto."):
        return frozenset({"ClientError", "BotoCoreError"})
    if n.startswith(("time.", "uuid.", "random.", "threading.", "datetime.", "io.BytesIO", "errno.", "enum.")):
        return NONE
    if n == "hashlib.new":
        return frozenset({"ValueError"})
    if n.startswith("hashlib."):
        return NONE
    if n.startswith("copy."):
        return ANY
    if n.startswith(("importlib.", "boto3.")):
        return ANY
    if n.startswith(("re.",)):
        return NONE
    if n.startswith("concurrent.futures."):
        return NONE
    if n.startswith(("io.",)):
        return frozenset({"OSError", "ValueError"})
    for pre in ("str.", "bytes.", "list.", "dict.", "set.", "tuple.", "int.", "float.", "bool.", "method.", "exc.", "object."):
        if n.startswith(pre):
            leaf = n[len(pre):]
            if leaf == "decode":
                return frozenset({"UnicodeDecodeError"})
            if leaf == "encode":
                return frozenset({"UnicodeEncodeError"})
            if leaf == "fromisoformat":
                return frozenset({"ValueError"})
            if leaf in ("pop", "remove", "index"):
                return frozenset({"LookupError", "ValueError"})
            if leaf in PURE_METHODS:
                return NONE
            if pre in ("str.", "bytes.", "list.", "dict.", "set.", "tuple.", "int.", "float.", "bool.", "exc.", "object."):
                return NONE
            return ANY
    if n.startswith("datashard."):
        # class attribute / enum member access used as a call (e.g. FileFormat(x)): ValueError
        return frozenset({"ValueError"})
    return ANY


STORAGE_API = {
    "read_file", "open_file", "open_seekable", "write_file", "read_json", "write_json", "exists", "list_files",
    "delete_file", "makedirs", "get_size", "get_modified_time", "create_lock", "read_file_with_etag",
    "write_file_cas",
}
STORAGE_READS = {"read_file", "open_file", "open_seekable", "read_json", "exists", "list_files", "get_size",
                 "get_modified_time", "read_file_with_etag"}
STORAGE_WRITES = {"write_file", "write_json", "write_file_cas"}
LOCK_API = {"acquire", "release", "is_held"}
# storage-API method names that no other class of the package or of the standard library defines: a call of one of them on a
# receiver whose type cannot be resolved is still counted as a storage operation (duck typing)
DUCK_STORAGE_API = {"read_file", "write_file", "read_json", "write_json", "list_files", "delete_file", "get_modified_time",
                    "read_file_with_etag", "write_file_cas", "open_seekable"}


class Effects:
    def __init__(self, prog: Program) -> None:
        self.prog = prog
        self.cfgs: Dict[str, CFG] = {}
        for f in prog.functions.values():
            self.cfgs[f.qname] = build_cfg(prog, f)
        self.storage_base = prog.cls("storage_backend.StorageBackend")
        self.lock_base = prog.cls("lock_provider.LockProvider")
        self._storage_classes = {self.storage_base.qname} | {c.qname for c in prog.all_subclasses(self.storage_base)}
        self._lock_classes = {self.lock_base.qname} | {c.qname for c in prog.all_subclasses(self.lock_base)}
        self.call_sites: Dict[str, List[Tuple[FunctionInfo, Node]]] = {}
        self._index_call_sites()
        self._param_cache: Dict[Tuple[str, str], List[FunctionInfo]] = {}
        self.escapes: Dict[str, FrozenSet[str]] = {}
        self.into_handler: Dict[Tuple[str, int], Set[str]] = {}
        self._compute_escapes()

    def cfg(self, f: FunctionInfo) -> CFG:
        return self.cfgs[f.qname]

    # ----------------------------------------------------------- call graph
    def _index_call_sites(self) -> None:
        for f in self.prog.functions.values():
            for n in self.cfgs[f.qname].calls():
                c = n.callee
                if c is not None and c.kind in ("func", "ctor"):
                    for t in c.funcs:
                        self.call_sites.setdefault(t.qname, []).append((f, n))

    def function_values(self, e: ast.AST, fn: FunctionInfo, depth: int = 0) -> List[FunctionInfo]:
        """FunctionInfos an expression used as a function VALUE may denote."""
        if isinstance(e, ast.Lambda):
            for l in self._all_lambdas(fn):
                if l.node is e:
                    return [l]
            return []
        if isinstance(e, ast.Name):
            g: Optional[FunctionInfo] = fn
            while g is not None:
                if e.id in g.nested:
                    return [g.nested[e.id]]
                g = g.parent
            # a parameter forwarded as a function value
            g = fn
            while g is not None:
                if any(p.name == e.id for p in g.params):
                    return self.param_callees(g, e.id, depth + 1)
                g = g.parent
            q = self.prog.resolve_name(e.id, fn.module, fn)
            fi = self.prog.lookup_function(q) if q else None
            if fi:
                return [fi]
            # local variable: follow simple assignments
            out: List[FunctionInfo] = []
            for n in Program._walk_own(fn.node):
                if isinstance(n, ast.Assign) and len(n.targets) == 1 and isinstance(n.targets[0], ast.Name) \
                        and n.targets[0].id == e.id and depth < 12:
                    out += self.function_values(n.value, fn, depth + 1)
            return out
        if isinstance(e, ast.IfExp):
            return self.function_values(e.body, fn, depth + 1) + self.function_values(e.orelse, fn, depth + 1)
        if isinstance(e, ast.Attribute):
            env = self.prog.local_env(fn)
            bt = self.prog._static_type(e.value, fn.module, fn, env)
            if bt is not None:
                ci = self.prog.lookup_class(bt.name)
                if ci:
                    return self.prog.dispatch(ci, e.attr)
        if isinstance(e, ast.Call):
            # a call returning a function (factory): the nested functions it returns
            cal = self.prog.resolve_call(e, fn)
            out = []
            if cal.kind == "func":
                for f in cal.funcs:
                    for n in Program._walk_own(f.node):
                        if isinstance(n, ast.Return) and n.value is not None and depth < 12:
                            out += self.function_values(n.value, f, depth + 1)
            return out
        if isinstance(e, ast.Constant) and e.value is None:
            return []
        return []

    def _all_lambdas(self, fn: FunctionInfo) -> List[FunctionInfo]:
        out = list(fn.lambdas)
        for n in fn.nested.values():
            out += self._all_lambdas(n)
        for l in fn.lambdas:
            out += self._all_lambdas(l)
        return out

    def bind_arg(self, call: ast.Call, callee: FunctionInfo, pname: str, is_method_call: bool) -> Optional[ast.AST]:
        """The argument expression bound to parameter `pname` of `callee` at `call` (None if defaulted)."""
        params = [p for p in callee.params if p.kind == "pos"]
        if callee.cls is not None and not callee.is_static and params:
            if is_method_call or callee.name == "__init__":
                params = params[1:]
        for k in call.keywords:
            if k.arg == pname:
                return k.value
        for i, a in enumerate(call.args):
            if isinstance(a, ast.Starred):
                break
            if i < len(params) and params[i].name == pname:
                return a
        return None

    def param_callees(self, f: FunctionInfo, pname: str, depth: int = 0) -> List[FunctionInfo]:
        """Functions the callable parameter `pname` of `f` may be bound to at package call sites."""
        key = (f.qname, pname)
        if key in self._param_cache:
            return self._param_cache[key]
        self._param_cache[key] = []
        out: List[FunctionInfo] = []
        if depth > 12:
            return out
        for caller, n in self.call_sites.get(f.qname, []):
            call = n.ast
            assert isinstance(call, ast.Call)
            arg = self.bind_arg(call, f, pname, isinstance(call.func, ast.Attribute))
            if arg is None:
                continue
            for v in self.function_values(arg, caller, depth + 1):
                if v not in out:
                    out.append(v)
        self._param_cache[key] = out
        return out

    def callees(self, fn: FunctionInfo, n: Node) -> List[FunctionInfo]:
        """Package functions call node n may invoke (including callable params / locals bound one level)."""
        c = n.callee
        if c is None:
            return []
        if "inlined" in n.flags:
            return []  # a later-introduced helper analysed in place: its statements follow this marker node in fn's own CFG
        if c.kind in ("func", "ctor"):
            return list(c.funcs)
        if c.kind == "param":
            g: Optional[FunctionInfo] = fn
            while g is not None:
                if any(p.name == c.name for p in g.params):
                    return self.param_callees(g, c.name)
                g = g.parent
            # local variable holding a function value
            assert isinstance(n.ast, ast.Call)
            return self.function_values(n.ast.func, fn)
        if c.kind == "prim":
            # function values handed to a primitive that calls them synchronously (executor.map(f, xs))
            assert isinstance(n.ast, ast.Call)
            if c.name.endswith((".map", ".submit")):
                if n.ast.args:
                    return self.function_values(n.ast.args[0], fn)
        return []

    # -------------------------------------------------------- classification
    def storage_op(self, n: Node) -> Optional[str]:
        """Name of the StorageBackend API method a call node invokes, else None."""
        c = n.callee
        if c is not None and c.kind == "prim" and c.name.startswith("method.") and c.name[7:] in DUCK_STORAGE_API:
            return c.name[7:]  # receiver of unknown type (`storage: Any`): the method name is specific to the storage API
        if c is None or c.kind != "func" or not c.funcs:
            return None
        f0 = c.funcs[0]
        if f0.cls is not None and f0.cls.qname in self._storage_classes and f0.name in STORAGE_API:
            return f0.name
        return None

    def lock_op(self, n: Node) -> Optional[str]:
        c = n.callee
        if c is None or c.kind != "func" or not c.funcs:
            return None
        f0 = c.funcs[0]
        if f0.cls is not None and f0.cls.qname in self._lock_classes and f0.name in LOCK_API:
            return f0.name
        return None

    def is_storage_class(self, ci: Optional[ClassInfo]) -> bool:
        return ci is not None and ci.qname in self._storage_classes

    # ------------------------------------------------------ exception escape
    def raises_at(self, fn: FunctionInfo, n: Node) -> FrozenSet[str]:
        """Classes node n itself may raise (before any handler)."""
        if not n.may_raise:
            return NONE
        if n.kind == "raise":
            if n.raised == "reraise":
                h = self._enclosing_handler(n)
                if h is not None:
                    return frozenset(self.into_handler.get((fn.qname, id(h)), set()))
                return ANY
            if n.raised:
                return frozenset({n.raised.split(".")[-1] if not n.raised.startswith("pa.") else n.raised})
            return ANY
        if n.kind == "call":
            c = n.callee
            assert c is not None
            targets = self.callees(fn, n)
            if c.kind in ("func", "ctor"):
                out: Set[str] = set()
                for t in targets:
                    out |= self.escapes.get(t.qname, NONE)
                if c.kind == "ctor" and not targets:
                    return NONE
                return frozenset(out)
            if c.kind == "param":
                if targets:
                    out = set()
                    for t in targets:
                        out |= self.escapes.get(t.qname, NONE)
                    return frozenset(out)
                return ANY
            if c.kind == "prim":
                if isinstance(n.ast, ast.Call) and dotted(n.ast.func) == "dict.fromkeys" and len(n.ast.args) == 2 and isinstance(n.ast.args[1], ast.Constant) \
                        and self._const_str_tuple(fn, n.ast.args[0]) is not None:
                    return NONE  # dict.fromkeys(<constant tuple of strings>, <constant>)
                if c.name == "builtins.getattr" and isinstance(n.ast, ast.Call) and len(n.ast.args) == 3 and not n.ast.keywords \
                        and isinstance(n.ast.args[1], ast.Constant) and isinstance(n.ast.args[1].value, str):
                    return NONE  # getattr(obj, "<name>", default): a missing attribute yields the default
                out = set(prim_raises(c.name))
                for t in targets:
                    out |= self.escapes.get(t.qname, NONE)
                return frozenset(out)
            return ANY
        if n.kind == "loop":
            a = n.ast
            if isinstance(a, (ast.For, ast.AsyncFor)):
                env = self.prog.local_env(fn)
                t = self.prog._static_type(a.iter, fn.module, fn, env)
                if t is not None and t.name in ("list", "dict", "set", "tuple", "str"):
                    return NONE
                if isinstance(a.iter, ast.Call):
                    dn = dotted(a.iter.func) or ""
                    if dn in ("range", "enumerate", "zip", "sorted", "reversed", "list") or dn.endswith((".items", ".keys", ".values")):
                        return NONE
            return ANY
        if n.kind == "with_enter":
            a = n.ast
            if isinstance(a, ast.withitem):
                env = self.prog.local_env(fn)
                t = self.prog._static_type(a.context_expr, fn.module, fn, env)
                dn = dotted(a.context_expr) or ""
                if dn.endswith(("_lock", "_state_lock")):
                    return NONE  # threading.(R)Lock.__enter__
                if t is not None:
                    ci = self.prog.lookup_class(t.name)
                    if ci is not None:
                        ent = self.prog.find_method(ci, "__enter__")
                        if ent is not None:
                            return self.escapes.get(ent.qname, NONE)
            return NONE  # file objects / streams: __enter__ returns self
        if n.kind in ("stmt", "return", "branch"):
            a = n.ast
            if isinstance(a, (ast.Import, ast.ImportFrom)):
                return frozenset({"ImportError"})
            if n.kind == "stmt" and self._telemetry_safe(fn, a, n):
                return NONE
            if self._only_str_concat(fn, a):
                return NONE  # `"v" + text + SUFFIX` with every operand provably a str: concatenation cannot raise
            return frozenset({"LookupError", "TypeError", "ValueError", "ArithmeticError"})
        return ANY

    # ------------------------------------------------- string concatenation of provable strings
    STR_RESULT_METHODS = {"decode", "strip", "lstrip", "rstrip", "lower", "upper", "replace", "format", "join", "hex", "casefold", "title",
                          "removeprefix", "removesuffix", "zfill", "ljust", "rjust", "center", "capitalize", "swapcase", "expandtabs"}

    def _provably_str(self, fn: FunctionInfo, e: Optional[ast.AST], depth: int = 0) -> bool:
        if e is None or depth > 5:
            return False
        if isinstance(e, ast.Constant):
            return isinstance(e.value, str)
        if isinstance(e, ast.JoinedStr):
            return True
        if isinstance(e, ast.BinOp) and isinstance(e.op, ast.Add):
            return self._provably_str(fn, e.left, depth + 1) and self._provably_str(fn, e.right, depth + 1)
        if isinstance(e, ast.Call):
            if isinstance(e.func, ast.Attribute) and e.func.attr in self.STR_RESULT_METHODS:
                return True
            return isinstance(e.func, ast.Name) and e.func.id in ("str", "repr", "format", "chr")
        if isinstance(e, ast.Name):
            top = fn
            while top.parent is not None:
                top = top.parent
            for p_ in fn.params:
                if p_.name == e.id:
                    return p_.ann is not None and (dotted(p_.ann) or "") == "str"
            defs = [x for x in ast.walk(fn.node) if isinstance(x, (ast.Assign, ast.AugAssign, ast.For, ast.With, ast.NamedExpr))
                    and any(isinstance(t, ast.Name) and t.id == e.id for t in ast.walk(x) if isinstance(t, ast.Name) and isinstance(t.ctx, ast.Store))]
            if defs:
                return all(isinstance(d, ast.Assign) and len(d.targets) == 1 and isinstance(d.targets[0], ast.Name)
                           and self._provably_str(fn, d.value, depth + 1) for d in defs)
            c = fn.module.consts.get(e.id)
            return c is not None and self._provably_str(fn, c, depth + 1)
        if isinstance(e, ast.Attribute) and isinstance(e.value, ast.Name) and e.value.id in ("self", "cls"):
            ci = fn.cls if fn.cls is not None else (fn.parent.cls if fn.parent is not None else None)
            c = ci.consts.get(e.attr) if ci is not None else None
            return c is not None and self._provably_str(fn, c, depth + 1)
        return False

    def _only_str_concat(self, fn: FunctionInfo, a: Optional[ast.AST]) -> bool:
        """The non-call part of statement / expression `a` can raise only through `+`, and every `+` joins provable strings."""
        if a is None:
            return False
        roots = [c for c in ast.iter_child_nodes(a) if isinstance(c, ast.expr)] if isinstance(a, ast.stmt) else [a]
        seen_add = False
        for r in roots:
            stack = [r]
            while stack:
                x = stack.pop()
                if isinstance(x, ast.Lambda):
                    continue
                if isinstance(x, ast.BinOp):
                    if isinstance(x.op, ast.Add) and self._provably_str(fn, x):
                        seen_add = True
                        # operands are judged as a whole; their calls are separate (fallible) call nodes
                        stack.extend(c for c in ast.walk(x) if isinstance(c, ast.Call))
                        continue
                    if not (isinstance(x.left, ast.Constant) and isinstance(x.right, ast.Constant)):
                        return False
                if isinstance(x, ast.Subscript) and isinstance(x.ctx, ast.Load):
                    return False
                if isinstance(x, ast.Compare) and any(isinstance(o, (ast.Lt, ast.LtE, ast.Gt, ast.GtE)) for o in x.ops):
                    return False
                if isinstance(x, (ast.Await, ast.Yield, ast.YieldFrom, ast.ListComp, ast.SetComp, ast.DictComp, ast.GeneratorExp)):
                    return False
                if isinstance(x, ast.UnaryOp) and isinstance(x.op, (ast.USub, ast.Invert)) and not isinstance(x.operand, ast.Constant):
                    return False
                stack.extend(ast.iter_child_nodes(x))
        return seen_add

    # ------------------------------------------------- provably non-raising bookkeeping (counters, timers, log lines)
    CLOCKS = {"time.time", "time.monotonic", "time.perf_counter", "time.process_time", "time.monotonic_ns", "time.time_ns",
              "time.perf_counter_ns"}

    def _const_str_tuple(self, fn: FunctionInfo, e: ast.AST) -> Optional[List[str]]:
        ci = fn.cls if fn.cls is not None else (fn.parent.cls if fn.parent is not None else None)
        if isinstance(e, ast.Attribute) and isinstance(e.value, ast.Name) and ci is not None and e.value.id in ("self", "cls", ci.name):
            e = ci.consts.get(e.attr)  # type: ignore[assignment]
        elif isinstance(e, ast.Name):
            e = fn.module.consts.get(e.id)  # type: ignore[assignment]
        if isinstance(e, (ast.Tuple, ast.List)) and all(isinstance(x, ast.Constant) and isinstance(x.value, str) for x in e.elts):
            return [x.value for x in e.elts]  # type: ignore[attr-defined]
        return None

    def _counter_dict_keys(self, ci: Optional[ClassInfo], attr: str, allow_none: bool = False) -> Optional[Dict[str, bool]]:
        """Keys of `self.<attr>` when EVERY store to it in the class is a dict of string-constant keys and numeric constants
        (a display, `{k: 0 for k in <constant tuple>}` or `dict.fromkeys(<constant tuple>, 0)`) and nothing removes entries;
        None when that cannot be shown."""
        if ci is None:
            return None
        cache = self.__dict__.setdefault("_counter_dicts", {})
        key = (ci.qname, attr, allow_none)
        if key in cache:
            return cache[key]
        cache[key] = None  # (re-entrancy guard: a value mentioning the dict itself is not a number we can vouch for)

        def const_tuple(e: ast.AST) -> Optional[List[str]]:
            if isinstance(e, ast.Attribute) and isinstance(e.value, ast.Name) and e.value.id in ("self", "cls", ci.name):
                e = ci.consts.get(e.attr)  # type: ignore[assignment]
            elif isinstance(e, ast.Name):
                e = ci.module.consts.get(e.id)  # type: ignore[assignment]
            if isinstance(e, (ast.Tuple, ast.List)) and all(isinstance(x, ast.Constant) and isinstance(x.value, str) for x in e.elts):
                return [x.value for x in e.elts]  # type: ignore[attr-defined]
            return None

        def num_const(e: ast.AST) -> bool:
            return isinstance(e, ast.Constant) and isinstance(e.value, (int, float)) and not isinstance(e.value, bool)

        def dict_shape(val: Optional[ast.AST], depth: int = 0) -> Optional[Dict[str, bool]]:
            """key -> 'its initial value is a number' for a constant-keyed dict expression"""
            if isinstance(val, ast.Dict) and all(isinstance(k, ast.Constant) and isinstance(k.value, str) for k in val.keys) \
                    and all(isinstance(v, ast.Constant) for v in val.values):
                return {k.value: num_const(v) for k, v in zip(val.keys, val.values)}  # type: ignore[union-attr]
            if isinstance(val, ast.DictComp) and len(val.generators) == 1 and not val.generators[0].ifs \
                    and isinstance(val.key, ast.Name) and isinstance(val.generators[0].target, ast.Name) \
                    and val.key.id == val.generators[0].target.id and isinstance(val.value, ast.Constant):
                ks_ = const_tuple(val.generators[0].iter)
                return None if ks_ is None else {k: num_const(val.value) for k in ks_}
            if isinstance(val, ast.Call) and dotted(val.func) == "dict.fromkeys" and len(val.args) == 2 and isinstance(val.args[1], ast.Constant):
                ks_ = const_tuple(val.args[0])
                return None if ks_ is None else {k: num_const(val.args[1]) for k in ks_}
            if isinstance(val, ast.Call) and not val.args and not val.keywords and depth < 2 and isinstance(val.func, ast.Attribute) \
                    and isinstance(val.func.value, ast.Name) and val.func.value.id in ("self", "cls", ci.name) and val.func.attr in ci.methods:
                rets = [r for r in ast.walk(ci.methods[val.func.attr].node) if isinstance(r, ast.Return)]
                shapes = [dict_shape(r.value, depth + 1) for r in rets]
                if shapes and all(sh is not None for sh in shapes):
                    out_: Dict[str, bool] = dict(shapes[0])  # type: ignore[arg-type]
                    for sh in shapes[1:]:
                        out_ = {k: v and sh[k] for k, v in out_.items() if k in sh}  # type: ignore[index]
                    return out_
            return None

        keys: Optional[Dict[str, bool]] = None
        ok = True
        n_stores = 0
        for m in ci.methods.values():
            for x in ast.walk(m.node):
                tgt = None
                val = None
                if isinstance(x, ast.Assign) and len(x.targets) == 1:
                    tgt, val = x.targets[0], x.value
                elif isinstance(x, ast.AnnAssign):
                    tgt, val = x.target, x.value
                if isinstance(tgt, ast.Attribute) and tgt.attr == attr and isinstance(tgt.value, ast.Name) and tgt.value.id == "self":
                    n_stores += 1
                    if allow_none and isinstance(val, ast.Constant) and val.value is None:
                        continue
                    sh = dict_shape(val)
                    if sh is None:
                        ok = False
                    else:
                        keys = dict(sh) if keys is None else {k: v and sh[k] for k, v in keys.items() if k in sh}
                if isinstance(x, ast.Delete) and any(attr in norm_text(t) for t in x.targets):
                    ok = False
                if isinstance(x, ast.Call) and isinstance(x.func, ast.Attribute) and x.func.attr in ("pop", "clear", "popitem") \
                        and isinstance(x.func.value, ast.Attribute) and x.func.value.attr == attr:
                    ok = False
                # a non-numeric value stored under a key later makes `+=` on it fallible
                if isinstance(x, ast.Assign) and len(x.targets) == 1 and isinstance(x.targets[0], ast.Subscript) \
                        and isinstance(x.targets[0].value, ast.Attribute) and x.targets[0].value.attr == attr \
                        and isinstance(x.targets[0].slice, ast.Constant) and keys is not None and x.targets[0].slice.value in keys \
                        and not self._num(m, x.value):
                    keys[x.targets[0].slice.value] = False
        if attr in ci.consts and not (allow_none and isinstance(ci.consts[attr], ast.Constant) and ci.consts[attr].value is None):
            ok = False  # a class-level default of another shape
        res = keys if ok and n_stores > 0 else None
        cache[key] = res
        return res

    def _num(self, fn: FunctionInfo, e: Optional[ast.AST], depth: int = 0) -> bool:
        """e evaluates, without raising, to an int / float: constants, clock reads, +,-,* of such, locals all of whose
        assignments are such, parameters annotated int / float, entries of a counter dict."""
        if e is None or depth > 6:
            return False
        if isinstance(e, ast.Constant):
            return isinstance(e.value, (int, float)) and not isinstance(e.value, bool)
        if isinstance(e, ast.Call):
            d_ = dotted(e.func) or ""
            if d_ in self.CLOCKS and not e.args and not e.keywords:
                return True
            if d_ == "len" and len(e.args) == 1 and isinstance(e.args[0], ast.Name):
                for p in fn.params:
                    if p.name == e.args[0].id and p.ann is not None:
                        return norm_text(p.ann).split("[")[0] in ("bytes", "str", "list", "dict", "tuple", "List", "Dict", "Tuple", "Sequence", "bytearray")
                return False
            # self.<counter dict>.get(<const key>, <number>)
            if isinstance(e.func, ast.Attribute) and e.func.attr == "get" and len(e.args) == 2 and isinstance(e.args[0], ast.Constant) \
                    and self._num(fn, e.args[1], depth + 1) and isinstance(e.func.value, ast.Attribute) \
                    and isinstance(e.func.value.value, ast.Name) and e.func.value.value.id == "self":
                ci_ = fn.cls if fn.cls is not None else (fn.parent.cls if fn.parent is not None else None)
                ks_ = self._counter_dict_keys(ci_, e.func.value.attr, allow_none=True)
                return ks_ is not None and ks_.get(e.args[0].value, True) is True
            return False
        if isinstance(e, ast.BinOp) and isinstance(e.op, (ast.Add, ast.Sub, ast.Mult)):
            return self._num(fn, e.left, depth + 1) and self._num(fn, e.right, depth + 1)
        if isinstance(e, ast.Name):
            top = fn
            for p in top.params:
                if p.name == e.id:
                    return isinstance(p.ann, ast.Name) and p.ann.id in ("int", "float")
            # every binding of the name in the function (statements of helpers analysed in place included: the CFG holds them)
            stmts = {id(n_.ast): n_.ast for n_ in self.cfgs[top.qname].nodes if n_.ast is not None and n_.kind in ("stmt", "loop", "with_enter")}
            defs = []
            for x in stmts.values():
                tg: List[ast.AST] = []
                if isinstance(x, ast.Assign):
                    tg = list(x.targets)
                elif isinstance(x, (ast.AugAssign, ast.AnnAssign, ast.For, ast.AsyncFor)):
                    tg = [x.target]
                elif isinstance(x, ast.withitem) and x.optional_vars is not None:
                    tg = [x.optional_vars]
                if any(isinstance(t, ast.Name) and t.id == e.id for t_ in tg for t in ast.walk(t_)):
                    defs.append(x)
            return bool(defs) and all(isinstance(d, ast.Assign) and len(d.targets) == 1 and isinstance(d.targets[0], ast.Name)
                                      and self._num(fn, d.value, depth + 1) for d in defs)
        if isinstance(e, ast.Subscript) and isinstance(e.slice, ast.Constant) and isinstance(e.value, ast.Attribute) \
                and isinstance(e.value.value, ast.Name) and e.value.value.id == "self":
            ks = self._counter_dict_keys(fn.cls if fn.cls is not None else (fn.parent.cls if fn.parent is not None else None), e.value.attr)
            return ks is not None and ks.get(e.slice.value) is True
        return False

    def _lazily_initialised_here(self, fn: FunctionInfo, n: Optional[Node], attr: str, ci: Optional[ClassInfo]) -> bool:
        """Every normal way into node n comes from `self.<attr> = <counter dict>` or from the false edge of
        `if self.<attr> is None:` - the `if x is None: x = {...}` idiom placed right before the statement."""
        if n is None:
            return False
        g = self.cfgs[fn.qname]
        preds: List[Tuple[int, str]] = []
        work = [n.id]
        seen_: Set[int] = set()
        while work:
            x = work.pop()
            if x in seen_:
                continue
            seen_.add(x)
            for p, l in g.pred[x]:
                if l not in ("norm", "true", "false", "next"):
                    continue
                if g.nodes[p].kind == "call" and g.nodes[p].stmt is n.stmt:
                    work.append(p)  # a call evaluated as part of this very statement
                else:
                    preds.append((p, l))
        if not preds:
            return False
        for p, l in preds:
            pn = g.nodes[p]
            a_ = pn.ast
            if pn.kind == "stmt" and isinstance(a_, ast.Assign) and len(a_.targets) == 1 and isinstance(a_.targets[0], ast.Attribute) \
                    and a_.targets[0].attr == attr and not (isinstance(a_.value, ast.Constant) and a_.value.value is None):
                continue
            if pn.kind == "branch" and isinstance(a_, ast.Compare) and len(a_.ops) == 1 and isinstance(a_.ops[0], ast.Is) \
                    and isinstance(a_.left, ast.Attribute) and a_.left.attr == attr and isinstance(a_.comparators[0], ast.Constant) \
                    and a_.comparators[0].value is None and l == "false":
                continue
            return False
        return True

    def _telemetry_safe(self, fn: FunctionInfo, a: Optional[ast.AST], n: Optional[Node] = None) -> bool:
        """Statements of pure bookkeeping that cannot raise: `self.n = <num>`, `x = <num>`, `self.d['k'] = <num>` /
        `self.d['k'] += <num>` on a counter dict, `logger.debug(f"... {<num or plain name>} ...")`."""
        ci = fn.cls if fn.cls is not None else (fn.parent.cls if fn.parent is not None else None)
        if isinstance(a, ast.Assign) and len(a.targets) == 1:
            t = a.targets[0]
            if isinstance(t, ast.Name) or (isinstance(t, ast.Attribute) and isinstance(t.value, ast.Name) and t.value.id == "self"):
                return self._num(fn, a.value)
            if isinstance(t, ast.Subscript) and isinstance(t.slice, ast.Constant) and isinstance(t.slice.value, str) \
                    and isinstance(t.value, ast.Attribute) and isinstance(t.value.value, ast.Name) and t.value.value.id == "self":
                if self._counter_dict_keys(ci, t.value.attr) is not None:
                    return self._num(fn, a.value)
                return self._counter_dict_keys(ci, t.value.attr, allow_none=True) is not None \
                    and self._lazily_initialised_here(fn, n, t.value.attr, ci) and self._num(fn, a.value)
            return False
        if isinstance(a, ast.AugAssign) and isinstance(a.op, (ast.Add, ast.Sub)):
            t = a.target
            if isinstance(t, ast.Subscript) and isinstance(t.slice, ast.Constant) and isinstance(t.value, ast.Attribute) \
                    and isinstance(t.value.value, ast.Name) and t.value.value.id == "self":
                ks = self._counter_dict_keys(ci, t.value.attr)
                return ks is not None and ks.get(t.slice.value) is True and self._num(fn, a.value)
            return False
        if isinstance(a, ast.Expr) and isinstance(a.value, ast.Call) and (dotted(a.value.func) or "").split(".")[0] in ("logger", "logging"):
            for arg in list(a.value.args) + [k.value for k in a.value.keywords]:
                parts = [v.value for v in arg.values if isinstance(v, ast.FormattedValue)] if isinstance(arg, ast.JoinedStr) else [arg]
                for p_ in parts:
                    if isinstance(p_, (ast.Constant, ast.Name)) or (isinstance(p_, ast.Attribute) and dotted(p_)) or self._num(fn, p_):
                        continue
                    return False
            return True
        return False

    @staticmethod
    def _enclosing_handler(n: Node) -> Optional[ast.ExceptHandler]:
        for fr in reversed(n.frames):
            if fr.kind == "try" and fr.part == "handler" and fr.handler is not None:
                return fr.handler
        return None

    def propagate(self, fn: FunctionInfo, classes: Iterable[str], frames: Sequence[Frame],
                  record: bool = True) -> Tuple[FrozenSet[str], List[Tuple[ast.ExceptHandler, str]]]:
        """Send exception classes outward through `frames`. Returns (escaping classes,
        [(handler, class)] for every handler that may catch something)."""
        live = set(classes)
        caught: List[Tuple[ast.ExceptHandler, str]] = []
        for fr in reversed(frames):
            if not live:
                break
            if fr.kind != "try" or fr.part != "body":
                continue
            for h in fr.node.handlers:  # type: ignore[attr-defined]
                hcs = handler_classes(h)
                for c in list(live):
                    full = any(self.prog.exc_is_subclass(c, hc) for hc in hcs)
                    partial = (not full) and any(self.prog.exc_is_subclass(hc, c) for hc in hcs)
                    if full or partial:
                        caught.append((h, c if full else next(hc for hc in hcs if self.prog.exc_is_subclass(hc, c))))
                        if record:
                            self.into_handler.setdefault((fn.qname, id(h)), set()).add(caught[-1][1].split(".")[-1])
                    if full:
                        live.discard(c)
        return frozenset(live), caught

    def _compute_escapes(self) -> None:
        fns = list(self.prog.functions.values())
        for f in fns:
            self.escapes[f.qname] = NONE
        for _round in range(12):
            changed = False
            for f in fns:
                g = self.cfgs[f.qname]
                reach = g.reachable()
                out: Set[str] = set()
                for n in g.nodes:
                    if n.id not in reach or not n.may_raise:
                        continue
                    rs = self.raises_at(f, n)
                    if not rs:
                        continue
                    esc, _ = self.propagate(f, rs, n.frames)
                    out |= esc
                fo = frozenset(self._minimise(out))
                if fo != self.escapes[f.qname]:
                    self.escapes[f.qname] = fo
                    changed = True
            if not changed:
                break

    def _minimise(self, cs: Set[str]) -> Set[str]:
        out = set(cs)
        for c in list(cs):
            for d in cs:
                if c != d and self.prog.exc_is_subclass(c, d):
                    out.discard(c)
        return out

    # ------------------------------------------------------ transitive reach
    def transitive_calls(self, fn: FunctionInfo, max_depth: int = 12,
                         stop: Optional[Callable[[FunctionInfo], bool]] = None
                         ) -> List[Tuple[FunctionInfo, Node, Tuple[str, ...]]]:
        """Every call node reachable from fn through resolved callees: (function, node, call chain)."""
        out: List[Tuple[FunctionInfo, Node, Tuple[str, ...]]] = []
        seen: Set[str] = set()
        stack: List[Tuple[FunctionInfo, Tuple[str, ...]]] = [(fn, (fn.qname,))]
        while stack:
            f, chain = stack.pop()
            if f.qname in seen:
                continue
            seen.add(f.qname)
            for n in self.cfgs[f.qname].calls():
                out.append((f, n, chain))
                if len(chain) >= max_depth:
                    continue
                for t in self.callees(f, n):
                    if t.qname not in seen and not (stop and stop(t)):
                        stack.append((t, chain + (t.qname,)))
        return out

    def prims_reached(self, fn: FunctionInfo, n: Optional[Node] = None) -> Set[str]:
        """Primitive names (transitively) invoked by fn, or by the callees of call node n of fn."""
        out: Set[str] = set()
        starts = self.callees(fn, n) if n is not None else [fn]
        if n is not None and n.callee is not None and n.callee.kind == "prim":
            out.add(n.callee.name)
        for st in starts:
            for f, m, _c in self.transitive_calls(st):
                if m.callee is not None and m.callee.kind == "prim":
                    out.add(m.callee.name)
        return out

    def reaches_function(self, fn: FunctionInfo, target_qnames: Set[str], n: Optional[Node] = None) -> bool:
        """Does (call node n of fn | any call of fn) transitively invoke one of target functions?"""
        starts: List[FunctionInfo] = []
        if n is not None:
            starts = self.callees(fn, n)
            if any(t.qname in target_qnames for t in starts):
                return True
        else:
            starts = [fn]
        for s in starts:
            if s.qname in target_qnames:
                return True
            for _f, m, _c in self.transitive_calls(s):
                for t in self.callees(_f, m):
                    if t.qname in target_qnames:
                        return True
        return False
