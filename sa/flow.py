"""E3 - graph analyses over a CFG: dominators, post-dominators, avoiding-path
queries with witnesses, reaching definitions and value provenance."""
from __future__ import annotations

import ast
from typing import Callable, Dict, FrozenSet, Iterable, List, Optional, Sequence, Set, Tuple

from .cfg import CFG, EXC, NORMAL, Node
from .model import dotted

ALL = NORMAL | EXC


def _succ(g: CFG, n: int, labels: Set[str]) -> List[int]:
    return [d for d, l in g.succ[n] if l in labels]


def _pred(g: CFG, n: int, labels: Set[str]) -> List[int]:
    return [s for s, l in g.pred[n] if l in labels]


def dominators(g: CFG, labels: Set[str] = ALL, entry: Optional[int] = None) -> Dict[int, Set[int]]:
    """dom[n] = set of nodes that dominate n (on paths using `labels` edges), for reachable n."""
    entry = g.entry if entry is None else entry
    reach = _reach_from(g, entry, labels, set())
    order = _rpo(g, entry, labels)
    dom: Dict[int, Set[int]] = {n: set(reach) for n in reach}
    dom[entry] = {entry}
    changed = True
    while changed:
        changed = False
        for n in order:
            if n == entry:
                continue
            ps = [p for p in _pred(g, n, labels) if p in reach]
            if not ps:
                continue
            new = set.intersection(*(dom[p] for p in ps)) | {n}
            if new != dom[n]:
                dom[n] = new
                changed = True
    return dom


def _rpo(g: CFG, entry: int, labels: Set[str]) -> List[int]:
    seen: Set[int] = set()
    out: List[int] = []
    stack: List[Tuple[int, int]] = [(entry, 0)]
    seen.add(entry)
    while stack:
        n, i = stack[-1]
        ss = _succ(g, n, labels)
        if i < len(ss):
            stack[-1] = (n, i + 1)
            d = ss[i]
            if d not in seen:
                seen.add(d)
                stack.append((d, 0))
        else:
            out.append(n)
            stack.pop()
    out.reverse()
    return out


def _reach_from(g: CFG, src: int, labels: Set[str], avoid: Set[int]) -> Set[int]:
    seen = {src}
    st = [src]
    while st:
        n = st.pop()
        for d in _succ(g, n, labels):
            if d in avoid or d in seen:
                continue
            seen.add(d)
            st.append(d)
    return seen


def find_path(g: CFG, src: int, dst: Iterable[int], avoid: Iterable[int] = (), labels: Set[str] = ALL,
              first_labels: Optional[Set[str]] = None,
              edge_ok: Optional[Callable[[int, int, str], bool]] = None) -> Optional[List[int]]:
    """A path src -> (any of dst) that avoids every node in `avoid` (src itself may be in avoid);
    None if there is none.  `first_labels` restricts the labels of the first edge."""
    dsts = set(dst)
    av = set(avoid)
    prev: Dict[int, int] = {}
    seen = {src}
    queue = [src]
    first = True
    while queue:
        nxt: List[int] = []
        for n in queue:
            labs = first_labels if (first and first_labels is not None) else labels
            for d, l in g.succ[n]:
                if l not in labs or d in seen:
                    continue
                if edge_ok is not None and not edge_ok(n, d, l):
                    continue
                if d in av and d not in dsts:
                    continue
                seen.add(d)
                prev[d] = n
                if d in dsts:
                    path = [d]
                    while path[-1] != src:
                        path.append(prev[path[-1]])
                    return list(reversed(path))
                nxt.append(d)
            first = False
        queue = nxt
    return None


def must_pass(g: CFG, src: int, dst: Iterable[int], through: Iterable[int], labels: Set[str] = ALL) -> Optional[List[int]]:
    """None if every path src->dst passes a node of `through`; otherwise a witness path avoiding them."""
    return find_path(g, src, dst, avoid=through, labels=labels)


def dominates(dom: Dict[int, Set[int]], a: int, b: int) -> bool:
    return b in dom and a in dom[b]


def path_text(g: CFG, path: Sequence[int]) -> List[str]:
    out = []
    for n in path:
        nd = g.nodes[n]
        if nd.kind in ("join", "entry"):
            continue
        out.append(f"{g.fn.file}:{nd.lineno} {nd.kind} {nd.text[:90]}")
    return out


# --------------------------------------------------------------------------
# reaching definitions (variables: local names and `self.attr` pseudo-variables)
# --------------------------------------------------------------------------

def _targets(t: ast.AST) -> List[str]:
    if isinstance(t, ast.Name):
        return [t.id]
    if isinstance(t, (ast.Tuple, ast.List)):
        out: List[str] = []
        for e in t.elts:
            out += _targets(e.value if isinstance(e, ast.Starred) else e)
        return out
    if isinstance(t, ast.Attribute):
        dn = dotted(t)
        return [dn] if dn else []
    if isinstance(t, ast.Subscript):
        dn = dotted(t.value)
        return ["~" + dn] if dn else []  # weak update of a container
    return []


def node_defs(n: Node) -> List[str]:
    """Variables (strongly) defined by CFG node n; '~x' marks a weak update of x."""
    a = n.ast
    if n.kind in ("stmt", "return"):
        if isinstance(a, ast.Assign):
            out: List[str] = []
            for t in a.targets:
                out += _targets(t)
            return out
        if isinstance(a, (ast.AnnAssign, ast.AugAssign)):
            return _targets(a.target) if getattr(a, "value", None) is not None or isinstance(a, ast.AugAssign) else []
        if isinstance(a, (ast.FunctionDef, ast.AsyncFunctionDef, ast.ClassDef)):
            return [a.name]
        if isinstance(a, (ast.Import, ast.ImportFrom)):
            return [(al.asname or al.name.split(".")[0]) for al in a.names]
    if n.kind == "loop" and isinstance(a, (ast.For, ast.AsyncFor)):
        return _targets(a.target)
    if n.kind == "with_enter" and isinstance(a, ast.withitem) and a.optional_vars is not None:
        return _targets(a.optional_vars)
    if n.kind == "handler" and isinstance(a, ast.ExceptHandler) and a.name:
        return [a.name]
    if n.kind == "call" and n.callee is not None and isinstance(a, ast.Call) and isinstance(a.func, ast.Attribute):
        # mutating container methods are weak updates of the receiver
        if a.func.attr in ("append", "extend", "add", "update", "insert", "setdefault", "pop", "remove", "clear"):
            dn = dotted(a.func.value)
            if dn:
                return ["~" + dn]
    return []


class ReachingDefs:
    """Classic forward may-analysis; IN[n] = set of (var, defining node id)."""

    def __init__(self, g: CFG, labels: Set[str] = ALL) -> None:
        self.g = g
        reach = g.reachable()
        self.defs: Dict[int, List[str]] = {n.id: node_defs(n) for n in g.nodes if n.id in reach}
        self.IN: Dict[int, Set[Tuple[str, int]]] = {n: set() for n in reach}
        OUT: Dict[int, Set[Tuple[str, int]]] = {n: set() for n in reach}
        # parameters are defined at entry
        params = {p.name for p in g.fn.params}
        f = g.fn.parent
        OUT[g.entry] = {(p, g.entry) for p in params}
        order = _rpo(g, g.entry, labels)
        changed = True
        while changed:
            changed = False
            for n in order:
                if n != g.entry:
                    inn: Set[Tuple[str, int]] = set()
                    for p in _pred(g, n, labels):
                        if p in OUT:
                            inn |= OUT[p]
                    self.IN[n] = inn
                else:
                    inn = set()
                ds = self.defs.get(n, [])
                strong = {d for d in ds if not d.startswith("~")}
                weak = {d[1:] for d in ds if d.startswith("~")}
                out = {(v, k) for (v, k) in inn if v not in strong}
                out |= {(v, n) for v in strong}
                out |= {(v, n) for v in weak}
                if n == g.entry:
                    out |= OUT[g.entry]
                if out != OUT[n]:
                    OUT[n] = out
                    changed = True
        self.OUT = OUT

    def reaching(self, at: int, var: str) -> List[int]:
        return sorted(k for (v, k) in self.IN.get(at, ()) if v == var)


def names_in(e: Optional[ast.AST]) -> Set[str]:
    """Variable names (and dotted self.attr chains) read in an expression (not descending into lambdas)."""
    out: Set[str] = set()
    if e is None:
        return out
    stack = [e]
    while stack:
        n = stack.pop()
        if isinstance(n, ast.Lambda):
            continue
        if isinstance(n, ast.Attribute):
            dn = dotted(n)
            if dn:
                out.add(dn)
                out.add(dn.split(".")[0])
                continue
        if isinstance(n, ast.Name):
            out.add(n.id)
        stack.extend(ast.iter_child_nodes(n))
    return out


def rhs_of(n: Node, var: Optional[str] = None) -> Optional[ast.AST]:
    """Expression whose value node n assigns (to `var` if given: tuple-unpacking element)."""
    a = n.ast
    if n.kind in ("stmt", "return"):
        if isinstance(a, ast.Assign):
            if var is not None and len(a.targets) == 1 and isinstance(a.targets[0], (ast.Tuple, ast.List)) \
                    and isinstance(a.value, (ast.Tuple, ast.List)) and len(a.value.elts) == len(a.targets[0].elts):
                for t, v in zip(a.targets[0].elts, a.value.elts):
                    if var in _targets(t):
                        return v
            return a.value
        if isinstance(a, (ast.AnnAssign, ast.AugAssign)):
            return a.value
        if isinstance(a, ast.Return):
            return a.value
    if n.kind == "loop" and isinstance(a, (ast.For, ast.AsyncFor)):
        return a.iter
    if n.kind == "with_enter" and isinstance(a, ast.withitem):
        return a.context_expr
    if n.kind == "call":
        return a
    return None


class Slicer:
    """Backward data slice inside one function: which CFG nodes / calls / parameters
    a value at a program point may derive from."""

    def __init__(self, g: CFG, rd: Optional[ReachingDefs] = None) -> None:
        self.g = g
        self.rd = rd or ReachingDefs(g)

    def origins(self, e: Optional[ast.AST], at: int, max_nodes: int = 400) -> Dict[str, Set]:
        """Returns {'nodes': def node ids, 'calls': ast.Call set, 'params': names, 'consts': values,
        'names': every variable name on the slice, 'exprs': rhs expressions visited}."""
        res: Dict[str, Set] = {"nodes": set(), "calls": set(), "params": set(), "consts": set(),
                               "names": set(), "exprs": set(), "free": set()}
        work: List[Tuple[Optional[ast.AST], int]] = [(e, at)]
        seen: Set[Tuple[int, int]] = set()
        while work and len(res["nodes"]) < max_nodes:
            ex, pt = work.pop()
            if ex is None:
                continue
            key = (id(ex), pt)
            if key in seen:
                continue
            seen.add(key)
            res["exprs"].add(ex)
            for sub in _walk_expr(ex):
                if isinstance(sub, ast.Call):
                    res["calls"].add(sub)
                    for rexpr, rnode in getattr(self.g, "inline_returns", {}).get(id(sub), []):
                        if rexpr is not None:
                            work.append((rexpr, rnode))
                elif isinstance(sub, ast.Constant):
                    res["consts"].add(sub.value if isinstance(sub.value, (str, int, float, bool, bytes, type(None))) else repr(sub.value))
            for nm in names_in(ex):
                res["names"].add(nm)
                dnodes = self.rd.reaching(pt, nm)
                if not dnodes and "." not in nm:
                    res["free"].add(nm)
                for dn in dnodes:
                    if dn == self.g.entry:
                        res["params"].add(nm)
                        continue
                    res["nodes"].add(dn)
                    node = self.g.nodes[dn]
                    work.append((rhs_of(node, nm), dn))
        return res


def _walk_expr(e: ast.AST) -> Iterable[ast.AST]:
    stack = [e]
    while stack:
        n = stack.pop()
        yield n
        if isinstance(n, ast.Lambda):
            continue
        stack.extend(ast.iter_child_nodes(n))
