"""E0/E1 - program model of /repo/src/datashard: modules, classes, functions,
annotation-driven types and call resolution.  stdlib `ast` only; nothing from
the analysed package is imported or executed."""
from __future__ import annotations

import ast
import hashlib
import os
from dataclasses import dataclass, field
from typing import Dict, Iterator, List, Optional, Tuple

PKG = "datashard"


class AnalysisError(Exception):
    """Anchor vanished / file unparsable / engine cannot decide: exit 2."""


# --------------------------------------------------------------------------
# small helpers
# --------------------------------------------------------------------------

def dotted(node: ast.AST) -> Optional[str]:
    """`a.b.c` -> 'a.b.c' for Name/Attribute chains, else None."""
    parts: List[str] = []
    while isinstance(node, ast.Attribute):
        parts.append(node.attr)
        node = node.value
    if isinstance(node, ast.Name):
        parts.append(node.id)
        return ".".join(reversed(parts))
    return None


def norm_text(node: ast.AST) -> str:
    """Normalised statement text: stable under reformatting (ast.unparse)."""
    try:
        s = ast.unparse(node)
    except Exception:  # pragma: no cover
        s = ast.dump(node)
    s = " ".join(s.split())
    return s if len(s) <= 160 else s[:157] + "..."


# module-level names bound to a tuple of exception classes (filled while indexing; read by cfg.handler_classes)
EXC_ALIASES: Dict[str, List[str]] = {}


def _plain_local_assignments(tree: ast.AST) -> None:
    """Inside function bodies `x: T = v` becomes the plain assignment `x = v` (the annotation is kept on the node as `_ann`):
    adding or removing a local type annotation must not change what any rule sees.  `return a if c else b` becomes an
    if/else of two returns.  `for name in ("a", "b"): ... getattr(o, name) ...` (a short loop over constant attribute names,
    no break / continue / closure) is unrolled into one copy of the body per name with `getattr(o, "a")` read as `o.a`."""
    import copy

    def _unrollable(node: ast.For) -> bool:
        if node.orelse or not isinstance(node.target, ast.Name) or not isinstance(node.iter, (ast.Tuple, ast.List)):
            return False
        elts = node.iter.elts
        if not (1 <= len(elts) <= 6) or not all(isinstance(x, ast.Constant) and isinstance(x.value, str) and x.value.isidentifier() for x in elts):
            return False
        tid = node.target.id
        uses_getattr = False
        for st in node.body:
            for x in ast.walk(st):
                if isinstance(x, (ast.Break, ast.Continue, ast.Lambda, ast.FunctionDef, ast.AsyncFunctionDef, ast.ClassDef, ast.Yield,
                                  ast.YieldFrom, ast.NamedExpr)):
                    return False
                if isinstance(x, ast.Name) and x.id == tid and not isinstance(x.ctx, ast.Load):
                    return False
                if isinstance(x, ast.Call) and isinstance(x.func, ast.Name) and x.func.id == "getattr" and len(x.args) == 2 \
                        and isinstance(x.args[1], ast.Name) and x.args[1].id == tid:
                    uses_getattr = True
        return uses_getattr

    class _Subst(ast.NodeTransformer):
        def __init__(self, name: str, value: str) -> None:
            self.name, self.value = name, value

        def visit_Name(self, node):  # type: ignore[no-untyped-def]
            if node.id == self.name and isinstance(node.ctx, ast.Load):
                return ast.copy_location(ast.Constant(value=self.value), node)
            return node

        def visit_Call(self, node):  # type: ignore[no-untyped-def]
            self.generic_visit(node)
            if isinstance(node.func, ast.Name) and node.func.id == "getattr" and len(node.args) == 2 and not node.keywords \
                    and isinstance(node.args[1], ast.Constant) and node.args[1].value == self.value:
                return ast.copy_location(ast.Attribute(value=node.args[0], attr=self.value, ctx=ast.Load()), node)
            return node

    class _T(ast.NodeTransformer):
        depth = 0

        def visit_For(self, node):  # type: ignore[no-untyped-def]
            self.generic_visit(node)
            if not self.depth or not _unrollable(node):
                return node
            out = []
            for c in node.iter.elts:
                bind = ast.Assign(targets=[ast.Name(id=node.target.id, ctx=ast.Store())], value=ast.Constant(value=c.value))
                ast.copy_location(bind, node)
                ast.copy_location(bind.targets[0], node.target)
                ast.copy_location(bind.value, c)
                out.append(bind)
                for st in node.body:
                    out.append(_Subst(node.target.id, c.value).visit(copy.deepcopy(st)))
            for x in out:
                ast.fix_missing_locations(x)
            return out

        def visit_FunctionDef(self, node):  # type: ignore[no-untyped-def]
            self.depth += 1
            self.generic_visit(node)
            self.depth -= 1
            return node

        visit_AsyncFunctionDef = visit_FunctionDef

        def visit_AnnAssign(self, node):  # type: ignore[no-untyped-def]
            if self.depth and node.value is not None and isinstance(node.target, (ast.Name, ast.Attribute)):
                new = ast.Assign(targets=[node.target], value=node.value)
                ast.copy_location(new, node)
                new._ann = node.annotation  # type: ignore[attr-defined]
                return self.visit_Assign(new) if isinstance(node.target, ast.Name) else new
            return node

        def visit_Assign(self, node):  # type: ignore[no-untyped-def]
            # `x = f(..) if c else d` is `if c: x = f(..)` / `else: x = d` (same evaluation order) when an arm makes a call:
            # path rules see which side of the test the call runs on
            self.generic_visit(node)
            v = node.value
            if self.depth and isinstance(v, ast.IfExp) and len(node.targets) == 1 and isinstance(node.targets[0], ast.Name) \
                    and any(isinstance(x, ast.Call) for arm in (v.body, v.orelse) for x in ast.walk(arm)):
                a = ast.copy_location(ast.Assign(targets=[copy.deepcopy(node.targets[0])], value=v.body), node)
                b = ast.copy_location(ast.Assign(targets=[copy.deepcopy(node.targets[0])], value=v.orelse), node)
                for x in (a, b):
                    if hasattr(node, "_ann"):
                        x._ann = node._ann  # type: ignore[attr-defined]
                return ast.copy_location(ast.If(test=v.test, body=[self.visit_Assign(a)], orelse=[self.visit_Assign(b)]), node)
            return node

        def visit_Return(self, node):  # type: ignore[no-untyped-def]
            # `return a if c else b` is `if c: return a` / `else: return b` (same evaluation order): path rules see the branch
            if self.depth and isinstance(node.value, ast.IfExp):
                e = node.value
                a = ast.copy_location(ast.Return(value=e.body), node)
                b = ast.copy_location(ast.Return(value=e.orelse), node)
                new = ast.copy_location(ast.If(test=e.test, body=[self.visit_Return(a)], orelse=[self.visit_Return(b)]), node)
                return new
            return node

    _T().visit(tree)


def _literal_tables(tree: ast.Module) -> None:
    """Spellings of a literal table are read as the dict display they build - nothing is decided here:
      * `dict(zip(KEYS, VALUES[, strict=..]))` over two equally long tuple / list displays,
      * `dict([(k, v), ...])` / `dict(((k, v), ...))`,
      * `{k: v for row in ROWS for x in row[1] ...}`: a dict comprehension (no conditions) whose generators run over tuple /
        list displays, unrolled in iteration order,
    where a display may stand behind a name bound exactly once in the same scope.  `a, b = x, y` (names only, no target read
    on the right) becomes `a = x; b = y`."""
    import copy
    PURE = (ast.Constant, ast.Name, ast.Attribute)

    def pure(e: ast.AST) -> bool:
        if isinstance(e, (ast.Tuple, ast.List)):
            return all(pure(x) for x in e.elts)
        if isinstance(e, ast.Attribute):
            return pure(e.value)
        return isinstance(e, PURE)

    def scope_nodes(body):  # nodes of this scope, not of nested functions / classes
        stack = list(body)
        while stack:
            n = stack.pop()
            yield n
            for c in ast.iter_child_nodes(n):
                if isinstance(c, (ast.FunctionDef, ast.AsyncFunctionDef, ast.ClassDef, ast.Lambda)):
                    continue
                stack.append(c)

    def displays(body, params=()):
        stores: Dict[str, int] = {}
        val: Dict[str, ast.AST] = {}
        for pn in params:
            stores[pn] = 2
        for n in scope_nodes(body):
            if isinstance(n, ast.Name) and not isinstance(n.ctx, ast.Load):
                stores[n.id] = stores.get(n.id, 0) + 1
            if isinstance(n, (ast.Global, ast.Nonlocal)):
                for nm in n.names:
                    stores[nm] = 2
            if isinstance(n, ast.Assign) and len(n.targets) == 1 and isinstance(n.targets[0], ast.Name) and isinstance(n.value, (ast.Tuple, ast.List)):
                val[n.targets[0].id] = n.value
            if isinstance(n, ast.AnnAssign) and isinstance(n.target, ast.Name) and isinstance(n.value, (ast.Tuple, ast.List)):
                val[n.target.id] = n.value  # `_TABLE: Tuple[...] = (...)`
        out = {}
        for nm, v in val.items():
            if stores.get(nm) != 1:
                continue
            if isinstance(v, ast.List):
                # a list is mutable: only when every read is an iteration position
                loads = [x for x in scope_nodes(body) if isinstance(x, ast.Name) and x.id == nm and isinstance(x.ctx, ast.Load)]
                iters = set()
                for x in scope_nodes(body):
                    if isinstance(x, ast.comprehension) and isinstance(x.iter, ast.Name):
                        iters.add(id(x.iter))
                    if isinstance(x, ast.Call) and isinstance(x.func, ast.Name) and x.func.id == "zip":
                        iters.update(id(a) for a in x.args)
                if not all(id(l) in iters for l in loads):
                    continue
            out[nm] = v
        return out

    def disp(e: Optional[ast.AST], env: Dict[str, ast.AST]) -> Optional[ast.AST]:
        if isinstance(e, ast.Name) and e.id in env:
            e = env[e.id]
        return e if isinstance(e, (ast.Tuple, ast.List)) and not any(isinstance(x, ast.Starred) for x in e.elts) else None

    class _Sub(ast.NodeTransformer):
        def __init__(self, env): self.env = env
        def visit_Name(self, node):  # type: ignore[no-untyped-def]
            if isinstance(node.ctx, ast.Load) and node.id in self.env:
                return copy.deepcopy(self.env[node.id])
            return node

    def uses(e: ast.AST, nm: str) -> int:
        return sum(1 for x in ast.walk(e) if isinstance(x, ast.Name) and x.id == nm)

    def unroll(node: ast.DictComp, env: Dict[str, ast.AST]) -> Optional[ast.Dict]:
        rows: List[Tuple[ast.AST, ast.AST]] = []

        def go(i: int, bound: Dict[str, ast.AST]) -> bool:
            if len(rows) > 256:
                return False
            if i == len(node.generators):
                rows.append((_Sub(bound).visit(copy.deepcopy(node.key)), _Sub(bound).visit(copy.deepcopy(node.value))))
                return True
            gen = node.generators[i]
            if gen.ifs or gen.is_async:
                return False
            it = gen.iter
            if isinstance(it, ast.Name) and it.id in bound:
                it = bound[it.id]
            it = disp(it, env)
            if it is None:
                return False
            for el in it.elts:
                b2 = dict(bound)
                if isinstance(gen.target, ast.Name):
                    b2[gen.target.id] = el
                elif isinstance(gen.target, (ast.Tuple, ast.List)) and all(isinstance(t, ast.Name) for t in gen.target.elts) \
                        and isinstance(el, (ast.Tuple, ast.List)) and len(el.elts) == len(gen.target.elts):
                    for t, x in zip(gen.target.elts, el.elts):
                        b2[t.id] = x  # type: ignore[attr-defined]
                else:
                    return False
                if not go(i + 1, b2):
                    return False
            return True

        # substituted elements are evaluated once per use: only side-effect-free atoms may be duplicated
        if not go(0, {}):
            return None
        tnames = set()
        for gen in node.generators:
            tnames |= {x.id for x in ast.walk(gen.target) if isinstance(x, ast.Name)}
        inner = len(node.generators) > 1
        for gen in node.generators:
            it = gen.iter
            d = disp(it, env)
            if d is None:
                continue
            for el in d.elts:
                parts = el.elts if isinstance(el, (ast.Tuple, ast.List)) and isinstance(gen.target, (ast.Tuple, ast.List)) else [el]
                tgts = gen.target.elts if isinstance(gen.target, (ast.Tuple, ast.List)) else [gen.target]
                for t, x in zip(tgts, parts):
                    if pure(x):
                        continue
                    n_use = uses(node.key, t.id) + uses(node.value, t.id)  # type: ignore[attr-defined]
                    if n_use == 0:
                        continue  # the element is not used at all (`for _, tag, _, fn in TABLE`)
                    if inner or n_use != 1:
                        return None
        if not rows:
            return None
        return ast.Dict(keys=[k for k, _v in rows], values=[v for _k, v in rows])

    class _T(ast.NodeTransformer):
        def __init__(self) -> None:
            self.envs: List[Dict[str, ast.AST]] = []

        def _scope(self, node, body, params=()):  # type: ignore[no-untyped-def]
            self.envs.append(displays(body, params))
            self.generic_visit(node)
            self.envs.pop()
            return node

        def visit_Module(self, node):  # type: ignore[no-untyped-def]
            return self._scope(node, node.body)

        def visit_ClassDef(self, node):  # type: ignore[no-untyped-def]
            return self._scope(node, node.body)

        def visit_FunctionDef(self, node):  # type: ignore[no-untyped-def]
            a = node.args
            params = [x.arg for x in a.posonlyargs + a.args + a.kwonlyargs] + ([a.vararg.arg] if a.vararg else []) + ([a.kwarg.arg] if a.kwarg else [])
            return self._scope(node, node.body, params)

        visit_AsyncFunctionDef = visit_FunctionDef

        def visit_Assign(self, node):  # type: ignore[no-untyped-def]
            self.generic_visit(node)
            if len(self.envs) > 1 and len(node.targets) == 1 and isinstance(node.targets[0], ast.Tuple) and isinstance(node.value, ast.Tuple) \
                    and len(node.targets[0].elts) == len(node.value.elts) and len(node.value.elts) >= 2 \
                    and all(isinstance(t, ast.Name) for t in node.targets[0].elts) \
                    and not any(isinstance(x, ast.Starred) for x in node.value.elts):
                tn = {t.id for t in node.targets[0].elts}  # type: ignore[attr-defined]
                if len(tn) == len(node.targets[0].elts) and not any(isinstance(x, ast.Name) and x.id in tn for v in node.value.elts for x in ast.walk(v)) \
                        and not any(isinstance(x, (ast.NamedExpr, ast.Lambda)) for v in node.value.elts for x in ast.walk(v)):
                    out = []
                    for t, v in zip(node.targets[0].elts, node.value.elts):
                        a = ast.Assign(targets=[t], value=v)
                        ast.copy_location(a, node)
                        out.append(a)
                    return out
            return node

        def visit_Call(self, node):  # type: ignore[no-untyped-def]
            self.generic_visit(node)
            env = self.envs[-1] if self.envs else {}
            if isinstance(node.func, ast.Name) and node.func.id == "dict" and len(node.args) == 1 \
                    and all(k.arg is not None for k in node.keywords) and not node.keywords:
                a = node.args[0]
                if isinstance(a, ast.Call) and isinstance(a.func, ast.Name) and a.func.id == "zip" and len(a.args) == 2 \
                        and all(k.arg == "strict" for k in a.keywords):
                    ks, vs = disp(a.args[0], env), disp(a.args[1], env)
                    if ks is not None and vs is not None and len(ks.elts) == len(vs.elts) and ks.elts:
                        return ast.copy_location(ast.Dict(keys=[copy.deepcopy(x) for x in ks.elts], values=[copy.deepcopy(x) for x in vs.elts]), node)
                d = disp(a, env)
                if d is not None and d.elts and all(isinstance(x, (ast.Tuple, ast.List)) and len(x.elts) == 2 for x in d.elts):
                    return ast.copy_location(ast.Dict(keys=[copy.deepcopy(x.elts[0]) for x in d.elts],  # type: ignore[attr-defined]
                                                      values=[copy.deepcopy(x.elts[1]) for x in d.elts]), node)  # type: ignore[attr-defined]
            return node

        def visit_DictComp(self, node):  # type: ignore[no-untyped-def]
            self.generic_visit(node)
            d = unroll(node, self.envs[-1] if self.envs else {})
            if d is None:
                return node
            ast.copy_location(d, node)
            for x in ast.walk(d):
                if not hasattr(x, "lineno"):
                    ast.copy_location(x, node)
            return d

    _T().visit(tree)
    ast.fix_missing_locations(tree)


_FOREIGN_ATTRS = {"path", "name", "value", "args", "filename", "errno", "strerror", "response", "parts", "parent", "stem", "suffix",
                  "days", "seconds", "microseconds", "schema", "columns", "num_rows", "num_columns", "metadata", "fields", "type",
                  "size", "start", "stop", "step", "hex", "int", "bytes", "mode", "closed", "names", "types", "nbytes", "key",
                  "msg", "code", "st_mtime", "st_size", "pattern", "string", "year", "month", "day", "hour", "minute", "second"}
BASELINE_PROPERTIES = {"row_count", "supports_cas", "atomic_write_failures"}  # the @property names of the audited tree


def _name_tokens(n: str) -> set:
    return {(t[:-1] if len(t) > 3 and t.endswith("s") and not t.endswith("ss") else t) for t in n.lower().split("_") if t}  # (files ~ file)


def _undo_renames(parsed: List[Tuple[str, ast.Module]], known: Optional[set]) -> None:
    """A function the rules are anchored on may simply have been RENAMED (`_load_inflight_protection` ->
    `_iter_inflight_protection`).  When exactly one audited function of a class / module is gone, and exactly one function that
    the audited tree did not have appeared in the same scope sharing at least half of its name's words - and neither name is
    used for anything else in the package - the new name is read as the old one (definition and every reference).  Anything
    less clear-cut is left alone: the anchor lookup then fails as analysis-broken."""
    if known is None:
        return
    defs_by_name: Dict[str, int] = {}
    scopes: List[Tuple[str, List[ast.FunctionDef]]] = []
    for fn, tree in parsed:
        modname = f"{PKG}.{fn[:-3]}" if fn != "__init__.py" else PKG
        scopes.append((modname, [st for st in tree.body if isinstance(st, ast.FunctionDef)]))
        for c in tree.body:
            if isinstance(c, ast.ClassDef):
                scopes.append((f"{modname}.{c.name}", [st for st in c.body if isinstance(st, ast.FunctionDef)]))
        for x in ast.walk(tree):
            if isinstance(x, (ast.FunctionDef, ast.AsyncFunctionDef)):
                defs_by_name[x.name] = defs_by_name.get(x.name, 0) + 1
    attrs_stored = {x.attr for _fn, t in parsed for x in ast.walk(t) if isinstance(x, ast.Attribute) and isinstance(x.ctx, ast.Store)}
    renames: Dict[str, str] = {}
    for scope, fdefs in scopes:
        kn = {q.rsplit(".", 1)[1] for q in known if q.rsplit(".", 1)[0] == scope}
        if not kn:
            continue
        present = {fd.name for fd in fdefs}
        gone = sorted(v for v in kn - present if v not in defs_by_name and not v.startswith("__"))
        fresh = sorted(n for n in present - kn if defs_by_name.get(n) == 1 and not n.startswith("__") and n not in attrs_stored
                       and not any(q.rsplit(".", 1)[1] == n for q in known))
        if len(gone) != 1 or not fresh:
            continue
        v = gone[0]
        scored = sorted(((len(_name_tokens(v) & _name_tokens(n)) / max(1, len(_name_tokens(v) | _name_tokens(n))), n) for n in fresh), reverse=True)
        best = [n for sc, n in scored if sc == scored[0][0]]
        if scored[0][0] >= 0.5 and len(best) > 1:
            # a tie between the halves of a function that was SPLIT: the successor is the half that calls the other(s)
            fd_by = {fd.name: fd for fd in fdefs}
            callers = [n for n in best if all(any(isinstance(x, ast.Attribute) and x.attr == o or isinstance(x, ast.Name) and x.id == o
                                                  for x in ast.walk(fd_by[n])) for o in best if o != n)]
            if len(callers) == 1:
                best = callers
        if scored[0][0] >= 0.5 and len(best) == 1 and best[0] not in renames:
            renames[best[0]] = v
    if not renames:
        return
    for _fn, tree in parsed:
        for x in ast.walk(tree):
            if isinstance(x, (ast.FunctionDef, ast.AsyncFunctionDef)) and x.name in renames:
                x.name = renames[x.name]
            elif isinstance(x, ast.Attribute) and x.attr in renames:
                x.attr = renames[x.attr]
            elif isinstance(x, ast.Name) and x.id in renames:
                x.id = renames[x.id]
            elif isinstance(x, ast.alias) and x.name in renames:
                x.name = renames[x.name]


BASELINE_GENERATORS = {"read_batches", "read_batches_pandas", "file_lock", "scan_batches", "_iter_file_batches", "iter_records",
                       "iter_pandas"}  # the generator functions of the audited tree (streaming by design)
_CONSUMERS = {"set", "list", "tuple", "sorted", "frozenset", "any", "all", "sum", "max", "min", "dict"}


def _own_nodes(fd: ast.AST) -> Iterator[ast.AST]:
    """Nodes of a function body, not descending into nested function / class definitions."""
    stack = list(ast.iter_child_nodes(fd))
    while stack:
        x = stack.pop()
        yield x
        if isinstance(x, (ast.FunctionDef, ast.AsyncFunctionDef, ast.Lambda, ast.ClassDef)):
            continue
        stack.extend(ast.iter_child_nodes(x))


def _eager_generators_as_collectors(parsed: List[Tuple[str, ast.Module]], known: Optional[set]) -> None:
    """A function that the audited tree did not have as a generator and that is CONSUMED ON THE SPOT at every reference
    (`set(self._iter_x(..))`, `for p in _iter_x(..)`, a comprehension over it) computes the same values, in the same order and
    at the same moment, as the collecting form `acc = []; ...; acc.append(v); ...; return acc` - it is read as that, so that
    the rules see the familiar shape (what is added where, under which handler).  A generator object that is stored and
    consumed later is NOT rewritten: its body runs at the consumption site, which is exactly what an ordering rule must see."""
    if known is None:
        return
    cands: Dict[str, List[ast.FunctionDef]] = {}
    for _fn, tree in parsed:
        for fd in ast.walk(tree):
            if not isinstance(fd, ast.FunctionDef) or fd.name in BASELINE_GENERATORS or fd.name.startswith("__"):
                continue
            ys = [x for x in _own_nodes(fd) if isinstance(x, (ast.Yield, ast.YieldFrom))]
            if not ys:
                continue
            if any(not (isinstance(d, ast.Name) and d.id in ("staticmethod", "classmethod")) for d in fd.decorator_list):
                cands.setdefault(fd.name, []).append(None)  # type: ignore[arg-type]  # a decorated generator (context manager): hands off
                continue
            stmts_ok = all(isinstance(st, ast.Expr) and isinstance(st.value, (ast.Yield, ast.YieldFrom)) and st.value.value is not None
                           for st in _own_nodes(fd) if isinstance(st, ast.Expr) and isinstance(st.value, (ast.Yield, ast.YieldFrom)))
            as_stmt = {id(st.value) for st in _own_nodes(fd) if isinstance(st, ast.Expr) and isinstance(st.value, (ast.Yield, ast.YieldFrom))}
            rets_ok = all(r.value is None for r in _own_nodes(fd) if isinstance(r, ast.Return))
            # a yield GUARDED by a handler (inside the body of a try that has handlers) is left alone: whether a failure part-way
            # through keeps what was already yielded is exactly what the read-path rules judge on the generator itself
            guarded = any(isinstance(t, ast.Try) and t.handlers and any(isinstance(y, (ast.Yield, ast.YieldFrom)) for b in t.body for y in ast.walk(b))
                          for t in _own_nodes(fd))
            if stmts_ok and rets_ok and not guarded and all(id(y) in as_stmt for y in ys):
                cands.setdefault(fd.name, []).append(fd)
            else:
                cands.setdefault(fd.name, []).append(None)  # type: ignore[arg-type]
    names = {n for n, fds in cands.items() if len(fds) == 1 and fds[0] is not None}
    if not names:
        return
    # every reference is a call consumed on the spot
    for _fn, tree in parsed:
        parents: Dict[int, ast.AST] = {}
        for p_ in ast.walk(tree):
            for c_ in ast.iter_child_nodes(p_):
                parents[id(c_)] = p_
        for x in ast.walk(tree):
            nm = x.attr if isinstance(x, ast.Attribute) else (x.id if isinstance(x, ast.Name) and isinstance(x.ctx, ast.Load) else None)
            if nm not in names:
                continue
            call = parents.get(id(x))
            ok = isinstance(call, ast.Call) and call.func is x
            if ok:
                up = parents.get(id(call))
                ok = (isinstance(up, ast.Call) and isinstance(up.func, ast.Name) and up.func.id in _CONSUMERS and up.args and up.args[0] is call) \
                    or (isinstance(up, (ast.For, ast.comprehension)) and up.iter is call) \
                    or (isinstance(up, ast.YieldFrom) and up.value is call) or isinstance(up, ast.Starred) \
                    or (isinstance(up, ast.Call) and isinstance(up.func, ast.Attribute) and up.func.attr in ("join", "extend", "update") and up.args and up.args[0] is call)
            if not ok:
                names.discard(nm)
    for n in sorted(names):
        fd = cands[n][0]
        acc = f"{n.strip('_')}_yielded"

        class _Rw(ast.NodeTransformer):
            def visit_FunctionDef(self, node: ast.FunctionDef) -> ast.AST:
                return node if node is not fd else self.generic_visit(node)

            def visit_Lambda(self, node: ast.Lambda) -> ast.AST:
                return node

            def visit_Expr(self, node: ast.Expr) -> ast.AST:
                v = node.value
                if isinstance(v, ast.Yield):
                    new = ast.Expr(value=ast.Call(func=ast.Attribute(value=ast.Name(id=acc, ctx=ast.Load()), attr="append", ctx=ast.Load()),
                                                  args=[v.value], keywords=[]))
                    return ast.copy_location(new, node)
                if isinstance(v, ast.YieldFrom):
                    new = ast.Expr(value=ast.Call(func=ast.Attribute(value=ast.Name(id=acc, ctx=ast.Load()), attr="extend", ctx=ast.Load()),
                                                  args=[v.value], keywords=[]))
                    return ast.copy_location(new, node)
                return node

            def visit_Return(self, node: ast.Return) -> ast.AST:
                return ast.copy_location(ast.Return(value=ast.Name(id=acc, ctx=ast.Load())), node)

        body = [_Rw().visit(st) for st in fd.body]
        first = body[0] if body else fd
        init = ast.copy_location(ast.Assign(targets=[ast.Name(id=acc, ctx=ast.Store())], value=ast.List(elts=[], ctx=ast.Load())), first)
        doc = body[:1] if body and isinstance(body[0], ast.Expr) and isinstance(getattr(body[0], "value", None), ast.Constant) else []
        last = body[-1] if body else fd
        fin = ast.Return(value=ast.Name(id=acc, ctx=ast.Load()))
        fin.lineno = getattr(last, "end_lineno", None) or getattr(last, "lineno", fd.lineno)
        fin.col_offset = fd.col_offset + 4
        fd.body = doc + [init] + body[len(doc):] + [fin]
        fd.returns = None
        ast.fix_missing_locations(fd)


def _new_properties_as_methods(parsed: List[Tuple[str, ast.Module]], known: Optional[set]) -> None:
    """A read-only @property that today's tree does not have (not in known_functions.txt) is a parameterless helper wearing
    attribute syntax: `self.real_base_path` for `self._real_base_path()`.  It is turned back into a plain method and every read
    of the attribute into a call, so that the CFG builder analyses it in place like any other later-introduced helper.  Only
    names that are nowhere assigned as an attribute / declared as a field (no collision with a plain attribute of that name)."""
    if known is None:
        return
    cands: Dict[str, List[ast.FunctionDef]] = {}
    taken: set = set()
    for fn, tree in parsed:
        modname = f"{PKG}.{fn[:-3]}" if fn != "__init__.py" else PKG
        for c in [x for x in ast.walk(tree) if isinstance(x, ast.ClassDef)]:
            for st in c.body:
                if isinstance(st, ast.AnnAssign) and isinstance(st.target, ast.Name):
                    taken.add(st.target.id)
                if isinstance(st, ast.Assign):
                    taken.update(t.id for t in st.targets if isinstance(t, ast.Name))
                if isinstance(st, ast.FunctionDef):
                    decs = [d for d in st.decorator_list]
                    if any(isinstance(d, ast.Attribute) and d.attr in ("setter", "deleter") for d in decs):
                        taken.add(st.name)
                    elif len(decs) == 1 and isinstance(decs[0], ast.Name) and decs[0].id == "property" \
                            and st.name not in BASELINE_PROPERTIES and not st.name.startswith("__") \
                            and not any(isinstance(x, (ast.Yield, ast.YieldFrom, ast.Await)) for x in ast.walk(st)):
                        cands.setdefault(st.name, []).append(st)
        for x in ast.walk(tree):
            if isinstance(x, ast.Attribute) and isinstance(x.ctx, (ast.Store, ast.Del)):
                taken.add(x.attr)
            if isinstance(x, ast.Call) and isinstance(x.func, ast.Name) and x.func.id in ("getattr", "setattr", "hasattr") and len(x.args) >= 2 \
                    and isinstance(x.args[1], ast.Constant) and isinstance(x.args[1].value, str):
                taken.add(x.args[1].value)
    # attribute names that objects of the standard library / pyarrow / botocore carry: `entry.path`, `exc.args`, `delta.days` ...
    # a new property of such a name keeps attribute syntax (its reads cannot be told from reads of those objects here)
    names = {n for n in cands if n not in taken and n not in _FOREIGN_ATTRS}
    if not names:
        return
    for n in names:
        for fd in cands[n]:
            fd.decorator_list = []

    class _Rw(ast.NodeTransformer):
        def visit_Call(self, node: ast.Call) -> ast.AST:
            f_ = node.func
            if isinstance(f_, ast.Attribute):
                f_.value = self.visit(f_.value)  # the callee attribute itself is not a property read
            else:
                node.func = self.visit(f_)
            node.args = [self.visit(a) for a in node.args]
            for k in node.keywords:
                k.value = self.visit(k.value)
            return node

        def visit_Attribute(self, node: ast.Attribute) -> ast.AST:
            self.generic_visit(node)
            if isinstance(node.ctx, ast.Load) and node.attr in names:
                return ast.copy_location(ast.Call(func=node, args=[], keywords=[]), node)
            return node

    for _fn, tree in parsed:
        _Rw().visit(tree)
        ast.fix_missing_locations(tree)


def _record_names(trees: List[ast.Module]) -> set:
    """Names of the package's plain record classes (@dataclass / NamedTuple)."""
    out = set()
    for t in trees:
        for c in ast.walk(t):
            if not isinstance(c, ast.ClassDef):
                continue
            decs = [dotted(d.func if isinstance(d, ast.Call) else d) or "" for d in c.decorator_list]
            bases = [dotted(b) or "" for b in c.bases]
            if any(d.split(".")[-1] == "dataclass" for d in decs) or any(b.split(".")[-1] == "NamedTuple" for b in bases):
                out.add(c.name)
    return out


def _record_field_aliases(tree: ast.Module, records: set) -> None:
    """`op = expr.op` - ONE read of a field of a record-typed parameter into a local that is never re-bound, in a function that
    never stores to that field or re-binds the parameter - is read as the field itself: every later `op` is `expr.op`.  Whether
    a maintainer reads the field once or at each use changes nothing a rule should see."""
    import copy

    def own_nodes(fn):  # type: ignore[no-untyped-def]
        stack = list(fn.body)
        while stack:
            n = stack.pop()
            yield n
            for c in ast.iter_child_nodes(n):
                if isinstance(c, (ast.FunctionDef, ast.AsyncFunctionDef, ast.ClassDef, ast.Lambda)):
                    continue
                stack.append(c)

    for fn in [x for x in ast.walk(tree) if isinstance(x, (ast.FunctionDef, ast.AsyncFunctionDef))]:
        a = fn.args
        rec_params = {}
        for arg in a.posonlyargs + a.args + a.kwonlyargs:
            ann = arg.annotation
            if isinstance(ann, ast.Constant) and isinstance(ann.value, str):
                nm = ann.value.strip().split(".")[-1]
            else:
                nm = (dotted(ann) or "").split(".")[-1] if ann is not None else ""
            if nm in records:
                rec_params[arg.arg] = nm
        # `for expr in expressions:` over a parameter annotated List[Record] / Sequence[Record] / Iterable[Record]
        coll_params = {}
        for arg in a.posonlyargs + a.args + a.kwonlyargs:
            ann = arg.annotation
            if isinstance(ann, ast.Subscript) and (dotted(ann.value) or "").split(".")[-1] in ("List", "list", "Sequence", "Iterable", "Tuple", "tuple", "Collection"):
                inner = ann.slice
                if isinstance(inner, ast.Tuple) and len(inner.elts) == 2 and isinstance(inner.elts[1], ast.Constant) and inner.elts[1].value is Ellipsis:
                    inner = inner.elts[0]
                nm = inner.value.strip() if isinstance(inner, ast.Constant) and isinstance(inner.value, str) else (dotted(inner) or "")
                if nm.split(".")[-1] in records:
                    coll_params[arg.arg] = nm.split(".")[-1]
        loop_of: Dict[str, ast.For] = {}
        if coll_params:
            for n in own_nodes(fn):
                if isinstance(n, ast.For) and isinstance(n.target, ast.Name) and isinstance(n.iter, ast.Name) and n.iter.id in coll_params:
                    loop_of[n.target.id] = n
        if not rec_params and not loop_of:
            continue
        all_params = {x.arg for x in a.posonlyargs + a.args + a.kwonlyargs} | ({a.vararg.arg} if a.vararg else set()) | ({a.kwarg.arg} if a.kwarg else set())
        stores: Dict[str, int] = {}
        for n in own_nodes(fn):
            if isinstance(n, ast.Name) and not isinstance(n.ctx, ast.Load):
                stores[n.id] = stores.get(n.id, 0) + 1
            elif isinstance(n, (ast.Global, ast.Nonlocal)):
                for nm in n.names:
                    stores[nm] = 9
        nested_bound = set()
        field_stores = set()
        for n in ast.walk(fn):
            if isinstance(n, ast.Attribute) and not isinstance(n.ctx, ast.Load) and isinstance(n.value, ast.Name):
                field_stores.add((n.value.id, n.attr))
            if isinstance(n, (ast.Lambda, ast.FunctionDef, ast.AsyncFunctionDef)) and n is not fn:
                aa = n.args
                nested_bound |= {x.arg for x in aa.posonlyargs + aa.args + aa.kwonlyargs}
                if not isinstance(n, ast.Lambda):
                    nested_bound |= {x.id for x in ast.walk(n) if isinstance(x, ast.Name) and not isinstance(x.ctx, ast.Load)}
            if isinstance(n, ast.Call) and isinstance(n.func, ast.Name) and n.func.id in ("setattr", "delattr") and n.args \
                    and isinstance(n.args[0], ast.Name):
                field_stores.add((n.args[0].id, "*"))
        alias: Dict[str, ast.Attribute] = {}
        for n in own_nodes(fn):
            if isinstance(n, ast.Assign) and len(n.targets) == 1 and isinstance(n.targets[0], ast.Name) \
                    and isinstance(n.value, ast.Attribute) and isinstance(n.value.value, ast.Name):
                x, pn, at = n.targets[0].id, n.value.value.id, n.value.attr
                if pn in rec_params and stores.get(pn, 0) == 0 and stores.get(x) == 1 and x not in all_params and x not in nested_bound \
                        and (pn, at) not in field_stores and (pn, "*") not in field_stores:
                    alias[x] = n.value
                elif pn in loop_of and stores.get(pn) == 1 and stores.get(loop_of[pn].iter.id, 0) == 0 and stores.get(x) == 1 \
                        and x not in all_params and x not in nested_bound and (pn, at) not in field_stores and (pn, "*") not in field_stores:
                    inside = {id(y) for st in loop_of[pn].body for y in ast.walk(st)}
                    if id(n) in inside and all(id(y) in inside for y in ast.walk(fn) if isinstance(y, ast.Name) and y.id == x):
                        alias[x] = n.value
        if not alias:
            continue

        class _S(ast.NodeTransformer):
            def visit_Name(self, node):  # type: ignore[no-untyped-def]
                if isinstance(node.ctx, ast.Load) and node.id in alias:
                    return ast.copy_location(copy.deepcopy(alias[node.id]), node)
                return node

        fn.body = [_S().visit(st) for st in fn.body]
        ast.fix_missing_locations(fn)


def _desugar_match(tree: ast.Module) -> None:
    """`match subject:` over value patterns (constants / dotted names, `a | b`, None / True / False, guards, a final `case _`)
    is the if / elif chain of `subject == value` tests the language defines it to be.  Structural patterns (class, sequence,
    mapping, captures) are left alone: the CFG builder reports them as not modelled."""
    import copy
    counter = [0]

    def test_of(pat: ast.AST, subj: ast.AST) -> Optional[ast.AST]:
        if isinstance(pat, ast.MatchValue):
            return ast.Compare(left=copy.deepcopy(subj), ops=[ast.Eq()], comparators=[pat.value])
        if isinstance(pat, ast.MatchSingleton):
            return ast.Compare(left=copy.deepcopy(subj), ops=[ast.Is()], comparators=[ast.Constant(value=pat.value)])
        if isinstance(pat, ast.MatchOr):
            parts = [test_of(p_, subj) for p_ in pat.patterns]
            if any(x is None for x in parts):
                return None
            return ast.BoolOp(op=ast.Or(), values=parts)
        return None

    class _T(ast.NodeTransformer):
        def visit_Match(self, node):  # type: ignore[no-untyped-def]
            self.generic_visit(node)
            pre: List[ast.stmt] = []
            subj = node.subject
            if not (isinstance(subj, ast.Name) or (isinstance(subj, ast.Attribute) and dotted(subj))):
                counter[0] += 1
                tmp = f"__match_subject_{counter[0]}"
                a = ast.Assign(targets=[ast.Name(id=tmp, ctx=ast.Store())], value=subj)
                ast.copy_location(a, node)
                pre.append(a)
                subj = ast.Name(id=tmp, ctx=ast.Load())
            arms: List[Tuple[Optional[ast.AST], List[ast.stmt]]] = []
            for i, c in enumerate(node.cases):
                wild = isinstance(c.pattern, ast.MatchAs) and c.pattern.pattern is None and c.pattern.name is None
                if wild:
                    t = None
                    if c.guard is None and i != len(node.cases) - 1:
                        return node
                else:
                    t = test_of(c.pattern, subj)
                    if t is None:
                        return node
                if c.guard is not None:
                    t = c.guard if t is None else ast.BoolOp(op=ast.And(), values=[t, c.guard])
                arms.append((t, c.body))
            chain: List[ast.stmt] = []
            for t, body in reversed(arms):
                if t is None:
                    chain = list(body)
                else:
                    chain = [ast.copy_location(ast.If(test=t, body=list(body), orelse=chain), body[0])]
            out = pre + chain
            for x in out:
                ast.copy_location(x, node) if not hasattr(x, "lineno") else None
                ast.fix_missing_locations(x)
            return out

    if hasattr(ast, "Match"):
        _T().visit(tree)


def _unroll_table_loops(tree: ast.Module) -> None:
    """`for cls, tag, enc, _ in TABLE: if isinstance(value, cls): return f(tag, enc(value))` over a module- / class-level table
    of literal rows (<= 16 rows of equal width, no break / continue / else, targets never re-bound) is read as the if-chain it
    runs: one copy of the body per row with the row's elements substituted, and a lambda element applied to a plain argument
    is beta-reduced (`(lambda v: v.isoformat())(value)` -> `value.isoformat()`).  Nothing is decided here."""
    import copy
    tables: Dict[str, ast.AST] = {}
    scopes = [tree.body] + [c.body for c in tree.body if isinstance(c, ast.ClassDef)]
    counts: Dict[str, int] = {}
    for body in scopes:
        for st in body:
            tg = None
            if isinstance(st, ast.Assign) and len(st.targets) == 1 and isinstance(st.targets[0], ast.Name):
                tg, val = st.targets[0].id, st.value
            elif isinstance(st, ast.AnnAssign) and isinstance(st.target, ast.Name) and st.value is not None:
                tg, val = st.target.id, st.value
            if tg is None:
                continue
            counts[tg] = counts.get(tg, 0) + 1
            if isinstance(val, (ast.Tuple, ast.List)) and 1 <= len(val.elts) <= 16 and all(
                    isinstance(r, ast.Tuple) and len(r.elts) == len(val.elts[0].elts) for r in val.elts if isinstance(val.elts[0], ast.Tuple)) \
                    and all(isinstance(r, ast.Tuple) for r in val.elts):
                tables[tg] = val
    tables = {k: v for k, v in tables.items() if counts.get(k) == 1}

    def atom(e: ast.AST) -> bool:
        return isinstance(e, (ast.Constant, ast.Name)) or (isinstance(e, ast.Attribute) and atom(e.value))

    class _Beta(ast.NodeTransformer):
        def visit_Call(self, node):  # type: ignore[no-untyped-def]
            self.generic_visit(node)
            f_ = node.func
            if isinstance(f_, ast.Lambda) and not node.keywords and not f_.args.vararg and not f_.args.kwarg and not f_.args.kwonlyargs \
                    and not f_.args.defaults and len(f_.args.args) == len(node.args) and all(atom(a) for a in node.args):
                env = {p.arg: a for p, a in zip(f_.args.args, node.args)}

                class _S(ast.NodeTransformer):
                    def visit_Name(s_, x):  # type: ignore[no-untyped-def]  # noqa: N805
                        if isinstance(x.ctx, ast.Load) and x.id in env:
                            return ast.copy_location(copy.deepcopy(env[x.id]), x)
                        return x

                    def visit_Lambda(s_, x):  # type: ignore[no-untyped-def]  # noqa: N805
                        return x  # no capture games
                return ast.copy_location(_S().visit(copy.deepcopy(f_.body)), node)
            return node

    class _T(ast.NodeTransformer):
        depth = 0
        local_stores: List[set] = []
        methods: List[set] = []

        def visit_ClassDef(self, node):  # type: ignore[no-untyped-def]
            self.methods.append({x.name for x in node.body if isinstance(x, (ast.FunctionDef, ast.AsyncFunctionDef))})
            self.generic_visit(node)
            self.methods.pop()
            return node

        local_tables: List[Dict[str, ast.AST]] = []

        def visit_FunctionDef(self, node):  # type: ignore[no-untyped-def]
            stores = {x.id for x in ast.walk(node) if isinstance(x, ast.Name) and not isinstance(x.ctx, ast.Load)}
            stores |= {a.arg for a in node.args.posonlyargs + node.args.args + node.args.kwonlyargs}
            self.local_stores.append(stores)
            # locals bound ONCE to a display of rows whose only use is being iterated by one for loop
            lt: Dict[str, ast.AST] = {}
            n_store: Dict[str, int] = {}
            for x in ast.walk(node):
                if isinstance(x, ast.Name) and not isinstance(x.ctx, ast.Load):
                    n_store[x.id] = n_store.get(x.id, 0) + 1
            for x in ast.walk(node):
                if isinstance(x, ast.Assign) and len(x.targets) == 1 and isinstance(x.targets[0], ast.Name) and isinstance(x.value, (ast.Tuple, ast.List)) \
                        and n_store.get(x.targets[0].id) == 1:
                    nm_ = x.targets[0].id
                    loads = [y for y in ast.walk(node) if isinstance(y, ast.Name) and y.id == nm_ and isinstance(y.ctx, ast.Load)]
                    fors = [y for y in ast.walk(node) if isinstance(y, ast.For) and isinstance(y.iter, ast.Name) and y.iter.id == nm_]
                    if len(loads) == 1 and len(fors) == 1:
                        lt[nm_] = x.value
            self.local_tables.append(lt)
            self.depth += 1
            self.generic_visit(node)
            self.depth -= 1
            self.local_stores.pop()
            self.local_tables.pop()
            return node

        visit_AsyncFunctionDef = visit_FunctionDef

        def visit_For(self, node):  # type: ignore[no-untyped-def]
            self.generic_visit(node)
            if not self.depth or node.orelse:
                return node
            it = node.iter
            nm = it.id if isinstance(it, ast.Name) else (it.attr if isinstance(it, ast.Attribute) and isinstance(it.value, ast.Name)
                                                         and it.value.id in ("self", "cls") else None)
            tbl = None
            if isinstance(it, (ast.Tuple, ast.List)):
                tbl = it  # `for key, prefix, keep in ((..), (..)):`
            elif isinstance(it, ast.Name) and it.id in self.local_tables[-1]:
                tbl = self.local_tables[-1][it.id]  # a local bound once to a display of rows and used for this loop only
            if tbl is not None:
                def calm(e_: ast.AST) -> bool:
                    return all(isinstance(x, (ast.Name, ast.Attribute, ast.Constant, ast.BinOp, ast.BitOr, ast.BitAnd, ast.Add, ast.Sub,
                                              ast.Load, ast.Tuple, ast.operator)) for x in ast.walk(e_))
                body_stores = {x.id for st in node.body for x in ast.walk(st) if isinstance(x, ast.Name) and not isinstance(x.ctx, ast.Load)}
                if not (1 <= len(tbl.elts) <= 16 and all(isinstance(r, ast.Tuple) for r in tbl.elts) and len({len(r.elts) for r in tbl.elts}) == 1
                        and all(calm(el) for r in tbl.elts for el in r.elts)
                        and not any(isinstance(x, ast.Name) and x.id in body_stores for r in tbl.elts for el in r.elts for x in ast.walk(el))):
                    return node
            elif nm is None or nm not in tables or (isinstance(it, ast.Name) and nm in self.local_stores[-1]):
                return node
            else:
                tbl = tables[nm]
            tg = node.target
            if not (isinstance(tg, ast.Tuple) and all(isinstance(t, ast.Name) for t in tg.elts) and len(tg.elts) == len(tbl.elts[0].elts)):
                return node
            tnames = [t.id for t in tg.elts]
            for st in node.body:
                for x in ast.walk(st):
                    if isinstance(x, (ast.Break, ast.Continue, ast.FunctionDef, ast.AsyncFunctionDef, ast.ClassDef, ast.Yield, ast.YieldFrom, ast.NamedExpr)):
                        return node
                    if isinstance(x, ast.Name) and x.id in tnames and not isinstance(x.ctx, ast.Load):
                        return node
                    if isinstance(x, ast.Lambda) and any(a.arg in tnames for a in x.args.args):
                        return node
            out = []
            for row in tbl.elts:
                env = dict(zip(tnames, row.elts))

                class _S(ast.NodeTransformer):
                    def visit_Name(s_, x):  # type: ignore[no-untyped-def]  # noqa: N805
                        if isinstance(x.ctx, ast.Load) and x.id in env and x.id != "_":
                            return ast.copy_location(copy.deepcopy(env[x.id]), x)
                        return x
                meths = self.methods[-1] if self.methods else set()

                class _M(ast.NodeTransformer):
                    # a row element that is a plain function of the class body, applied to self: `make(self)` is `self.make()`
                    def visit_Call(s_, x):  # type: ignore[no-untyped-def]  # noqa: N805
                        s_.generic_visit(x)
                        if isinstance(x.func, ast.Name) and x.func.id in meths and x.args and isinstance(x.args[0], ast.Name) and x.args[0].id == "self":
                            return ast.copy_location(ast.Call(func=ast.Attribute(value=ast.Name(id="self", ctx=ast.Load()), attr=x.func.id, ctx=ast.Load()),
                                                              args=x.args[1:], keywords=x.keywords), x)
                        return x
                for st in node.body:
                    new = _M().visit(_Beta().visit(_S().visit(copy.deepcopy(st))))
                    ast.copy_location(new, st)
                    out.append(new)
            for x in out:
                ast.fix_missing_locations(x)
            return out

    _T().visit(tree)


def _split_isinstance_handlers(tree: ast.Module) -> None:
    """`except BaseException as e: if isinstance(e, A): X elif isinstance(e, B): Y else: Z; TAIL` is read as the handler list it
    emulates - `except A as e: X; TAIL`, `except B as e: Y; TAIL`, `except BaseException as e: Z; TAIL` (first match wins in both
    spellings).  Also `v = next(ELT for row in TABLE if isinstance(e, row[0]))` over a module-level table of literal rows is read
    as the if / elif chain of assignments it computes.  Nothing is decided here."""
    import copy
    tables: Dict[str, ast.AST] = {}
    counts: Dict[str, int] = {}
    for st in tree.body:
        tg, val = None, None
        if isinstance(st, ast.Assign) and len(st.targets) == 1 and isinstance(st.targets[0], ast.Name):
            tg, val = st.targets[0].id, st.value
        elif isinstance(st, ast.AnnAssign) and isinstance(st.target, ast.Name) and st.value is not None:
            tg, val = st.target.id, st.value
        if tg is None:
            continue
        counts[tg] = counts.get(tg, 0) + 1
        if isinstance(val, (ast.Tuple, ast.List)) and 1 <= len(val.elts) <= 16 and all(isinstance(r, ast.Tuple) for r in val.elts) \
                and len({len(r.elts) for r in val.elts}) == 1:
            tables[tg] = val
    tables = {k: v for k, v in tables.items() if counts.get(k) == 1}

    def subst(node: ast.AST, env: Dict[str, ast.AST]) -> ast.AST:
        class _S(ast.NodeTransformer):
            def visit_Name(s_, x):  # type: ignore[no-untyped-def]  # noqa: N805
                if isinstance(x.ctx, ast.Load) and x.id in env:
                    return ast.copy_location(copy.deepcopy(env[x.id]), x)
                return x
        return _S().visit(copy.deepcopy(node))

    class _N(ast.NodeTransformer):
        # first-match lookups over a literal table
        def visit_Assign(self, node):  # type: ignore[no-untyped-def]
            self.generic_visit(node)
            v = node.value
            if not (len(node.targets) == 1 and isinstance(node.targets[0], ast.Name) and isinstance(v, ast.Call) and isinstance(v.func, ast.Name)
                    and v.func.id == "next" and 1 <= len(v.args) <= 2 and not v.keywords and isinstance(v.args[0], ast.GeneratorExp)):
                return node
            ge = v.args[0]
            if len(ge.generators) != 1 or len(ge.generators[0].ifs) != 1 or ge.generators[0].is_async:
                return node
            gen = ge.generators[0]
            tbl = tables.get(gen.iter.id) if isinstance(gen.iter, ast.Name) else None
            if tbl is None or not (isinstance(gen.target, ast.Tuple) and all(isinstance(t, ast.Name) for t in gen.target.elts)
                                   and len(gen.target.elts) == len(tbl.elts[0].elts)):
                return node
            tnames = [t.id for t in gen.target.elts]
            chain: List[ast.stmt] = []
            if len(v.args) == 2:
                chain = [ast.copy_location(ast.Assign(targets=[copy.deepcopy(node.targets[0])], value=v.args[1]), node)]
            else:
                chain = [ast.copy_location(ast.Raise(exc=ast.Call(func=ast.Name(id="StopIteration", ctx=ast.Load()), args=[], keywords=[]), cause=None), node)]
            for row in reversed(tbl.elts):
                env = dict(zip(tnames, row.elts))
                test = subst(gen.ifs[0], env)
                body = [ast.copy_location(ast.Assign(targets=[copy.deepcopy(node.targets[0])], value=subst(ge.elt, env)), node)]
                chain = [ast.copy_location(ast.If(test=test, body=body, orelse=chain), node)]
            for x in chain:
                ast.fix_missing_locations(x)
            return chain

    _N().visit(tree)

    class _H(ast.NodeTransformer):
        def visit_Try(self, node):  # type: ignore[no-untyped-def]
            self.generic_visit(node)
            new_handlers = []
            for h in node.handlers:
                first = h.body[0] if h.body else None
                if not (h.name and isinstance(first, ast.If)):
                    new_handlers.append(h)
                    continue
                arms = []
                cur = first
                ok = True
                while True:
                    t = cur.test
                    if not (isinstance(t, ast.Call) and isinstance(t.func, ast.Name) and t.func.id == "isinstance" and len(t.args) == 2
                            and isinstance(t.args[0], ast.Name) and t.args[0].id == h.name and not t.keywords):
                        ok = False
                        break
                    arms.append((t.args[1], cur.body))
                    if len(cur.orelse) == 1 and isinstance(cur.orelse[0], ast.If):
                        cur = cur.orelse[0]
                        continue
                    tail_else = cur.orelse
                    break
                if not ok or any(isinstance(x, ast.Name) and x.id == h.name and not isinstance(x.ctx, ast.Load) for st in h.body for x in ast.walk(st)):
                    new_handlers.append(h)
                    continue
                tail = h.body[1:]
                for typ, body in arms:
                    nh = ast.ExceptHandler(type=copy.deepcopy(typ), name=h.name, body=[copy.deepcopy(x) for x in body] + [copy.deepcopy(x) for x in tail])
                    new_handlers.append(ast.copy_location(nh, h))
                rest = [copy.deepcopy(x) for x in tail_else] + [copy.deepcopy(x) for x in tail]
                if not rest:
                    rest = [ast.copy_location(ast.Pass(), h)]
                new_handlers.append(ast.copy_location(ast.ExceptHandler(type=h.type, name=h.name, body=rest), h))
            node.handlers = new_handlers
            ast.fix_missing_locations(node)
            return node

    _H().visit(tree)


def _expand_dict_dispatch(tree: ast.Module) -> None:
    """`if KEY in TABLE: ... TABLE[KEY](a, b) ...` with TABLE a module-level dict display keyed by enum members / constants
    (<= 12 entries) is read as the if / elif chain over its keys that it abbreviates: one copy of the body per key with
    `TABLE[KEY]` replaced by that key's value, lambda values beta-reduced.  Nothing is decided here."""
    import copy
    tables: Dict[str, ast.Dict] = {}
    counts: Dict[str, int] = {}
    for st in tree.body:
        tg, val = None, None
        if isinstance(st, ast.Assign) and len(st.targets) == 1 and isinstance(st.targets[0], ast.Name):
            tg, val = st.targets[0].id, st.value
        elif isinstance(st, ast.AnnAssign) and isinstance(st.target, ast.Name) and st.value is not None:
            tg, val = st.target.id, st.value
        if tg is None:
            continue
        counts[tg] = counts.get(tg, 0) + 1
        if isinstance(val, ast.Dict) and 1 <= len(val.keys) <= 12 and all(
                k is not None and (isinstance(k, ast.Constant) or (isinstance(k, ast.Attribute) and dotted(k))) for k in val.keys):
            tables[tg] = val
    tables = {k: v for k, v in tables.items() if counts.get(k) == 1}
    if not tables:
        return

    def atom(e: ast.AST) -> bool:
        return isinstance(e, (ast.Constant, ast.Name)) or (isinstance(e, ast.Attribute) and atom(e.value))

    class _Beta(ast.NodeTransformer):
        def visit_Call(self, node):  # type: ignore[no-untyped-def]
            self.generic_visit(node)
            f_ = node.func
            if isinstance(f_, ast.Lambda) and not node.keywords and not f_.args.vararg and not f_.args.kwarg and not f_.args.kwonlyargs \
                    and not f_.args.defaults and len(f_.args.args) == len(node.args) and all(atom(a) for a in node.args):
                env = {p.arg: a for p, a in zip(f_.args.args, node.args)}

                class _S(ast.NodeTransformer):
                    def visit_Name(s_, x):  # type: ignore[no-untyped-def]  # noqa: N805
                        if isinstance(x.ctx, ast.Load) and x.id in env:
                            return ast.copy_location(copy.deepcopy(env[x.id]), x)
                        return x

                    def visit_Lambda(s_, x):  # type: ignore[no-untyped-def]  # noqa: N805
                        return x
                return ast.copy_location(_S().visit(copy.deepcopy(f_.body)), node)
            return node

    _OPS = {"lt": ast.Lt, "le": ast.LtE, "gt": ast.Gt, "ge": ast.GtE, "eq": ast.Eq, "ne": ast.NotEq}

    def _simplify_arm(stmts: List[ast.stmt]) -> List[ast.stmt]:
        """after a table entry was put in place: `a, b = (X, Y)` is split, names bound once to a constant / dotted name at the top
        of the arm are propagated, `P if True else Q` is folded, `operator.le(x, y)` is `x <= y`"""
        out: List[ast.stmt] = []
        for st in stmts:
            if isinstance(st, ast.Assign) and len(st.targets) == 1 and isinstance(st.targets[0], ast.Tuple) and isinstance(st.value, ast.Tuple) \
                    and len(st.targets[0].elts) == len(st.value.elts) and all(isinstance(t, ast.Name) for t in st.targets[0].elts):
                for t, v in zip(st.targets[0].elts, st.value.elts):
                    out.append(ast.copy_location(ast.Assign(targets=[t], value=v), st))
            else:
                out.append(st)
        stores: Dict[str, int] = {}
        for st in out:
            for x in ast.walk(st):
                if isinstance(x, ast.Name) and not isinstance(x.ctx, ast.Load):
                    stores[x.id] = stores.get(x.id, 0) + 1
        env: Dict[str, ast.AST] = {}
        rest: List[ast.stmt] = []
        prefix = True
        for st in out:
            if prefix and isinstance(st, ast.Assign) and len(st.targets) == 1 and isinstance(st.targets[0], ast.Name) \
                    and stores.get(st.targets[0].id) == 1 and atom(st.value) and not (isinstance(st.value, ast.Name) and st.value.id in stores):
                env[st.targets[0].id] = st.value
                rest.append(st)
                continue
            prefix = False
            rest.append(st)

        class _P(ast.NodeTransformer):
            def visit_Name(s_, x):  # type: ignore[no-untyped-def]  # noqa: N805
                if isinstance(x.ctx, ast.Load) and x.id in env:
                    return ast.copy_location(copy.deepcopy(env[x.id]), x)
                return x

            def visit_IfExp(s_, x):  # type: ignore[no-untyped-def]  # noqa: N805
                s_.generic_visit(x)
                if isinstance(x.test, ast.Constant) and isinstance(x.test.value, bool):
                    return x.body if x.test.value else x.orelse
                return x

            def visit_Call(s_, x):  # type: ignore[no-untyped-def]  # noqa: N805
                s_.generic_visit(x)
                d = dotted(x.func) or ""
                if d.startswith("operator.") and d.split(".")[1] in _OPS and len(x.args) == 2 and not x.keywords:
                    return ast.copy_location(ast.Compare(left=x.args[0], ops=[_OPS[d.split(".")[1]]()], comparators=[x.args[1]]), x)
                return x
        res = []
        for st in rest:
            if isinstance(st, ast.Assign) and len(st.targets) == 1 and isinstance(st.targets[0], ast.Name) and st.targets[0].id in env:
                continue  # propagated into every use below: the binding itself is dead
            res.append(_P().visit(st))
        return res or [ast.Pass()]

    class _T(ast.NodeTransformer):
        depth = 0

        def visit_FunctionDef(self, node):  # type: ignore[no-untyped-def]
            self.depth += 1
            self.generic_visit(node)
            self.depth -= 1
            return node

        visit_AsyncFunctionDef = visit_FunctionDef

        def visit_If(self, node):  # type: ignore[no-untyped-def]
            self.generic_visit(node)
            t = node.test
            if not (self.depth and isinstance(t, ast.Compare) and len(t.ops) == 1 and isinstance(t.ops[0], ast.In)
                    and isinstance(t.comparators[0], ast.Name) and t.comparators[0].id in tables and atom(t.left)):
                return node
            tname, key = t.comparators[0].id, t.left
            ktxt = ast.dump(key)
            tbl = tables[tname]
            # inside the body the table is only ever used as TABLE[KEY]
            uses = [x for st in node.body for x in ast.walk(st) if isinstance(x, ast.Name) and x.id == tname]
            subs = [x for st in node.body for x in ast.walk(st) if isinstance(x, ast.Subscript) and isinstance(x.value, ast.Name)
                    and x.value.id == tname and ast.dump(x.slice) == ktxt and isinstance(x.ctx, ast.Load)]
            if not subs or len(uses) != len(subs):
                return node
            if any(isinstance(x, ast.Name) and not isinstance(x.ctx, ast.Load) and x.id in {y.id for y in ast.walk(key) if isinstance(y, ast.Name)}
                   for st in node.body for x in ast.walk(st)):
                return node
            chain = list(node.orelse)
            for k, v in reversed(list(zip(tbl.keys, tbl.values))):
                class _S(ast.NodeTransformer):
                    def visit_Subscript(s_, x):  # type: ignore[no-untyped-def]  # noqa: N805
                        if isinstance(x.value, ast.Name) and x.value.id == tname and ast.dump(x.slice) == ktxt and isinstance(x.ctx, ast.Load):
                            return ast.copy_location(copy.deepcopy(v), x)
                        s_.generic_visit(x)
                        return x
                body = _simplify_arm([_Beta().visit(_S().visit(copy.deepcopy(st))) for st in node.body])
                test = ast.Compare(left=copy.deepcopy(key), ops=[ast.Eq()], comparators=[copy.deepcopy(k)])
                chain = [ast.copy_location(ast.If(test=test, body=body, orelse=chain), node)]
            for x in chain:
                ast.fix_missing_locations(x)
            return chain[0] if len(chain) == 1 else chain

    _T().visit(tree)


def _specialise_constant_dispatch(tree: ast.Module, modname: str, known: Optional[set]) -> None:
    """A private helper introduced after the rules were written that DISPATCHES on a string parameter -
    `getattr(client, request)(...)`, `TABLE[request]` - and is only ever called with string literals for it
    (`self._lookup("get_object", key, ...)`) is replaced by one copy per literal, with the parameter substituted
    (`client.get_object(...)`, the table's entry), and every call is redirected to its copy.  What the rules then see is
    the code a maintainer would have written by hand for each request; nothing is decided here."""
    import copy
    if known is None:
        return
    tables: Dict[str, ast.Dict] = {}
    for st in tree.body:
        if isinstance(st, ast.Assign) and len(st.targets) == 1 and isinstance(st.targets[0], ast.Name) and isinstance(st.value, ast.Dict) \
                and st.value.keys and all(isinstance(k, ast.Constant) and isinstance(k.value, str) for k in st.value.keys) \
                and all(isinstance(v, ast.Constant) for v in st.value.values):
            tables[st.targets[0].id] = st.value
    owners: List[Tuple[List[ast.stmt], Optional[str]]] = [(tree.body, None)]
    owners += [(c.body, c.name) for c in tree.body if isinstance(c, ast.ClassDef)]
    all_defs = [x.name for x in ast.walk(tree) if isinstance(x, (ast.FunctionDef, ast.AsyncFunctionDef))]
    for body, cname in owners:
        for f in list(body):
            if not isinstance(f, ast.FunctionDef) or not f.name.startswith("_") or f.name.startswith("__") or f.decorator_list:
                continue
            q = f"{modname}.{cname}.{f.name}" if cname else f"{modname}.{f.name}"
            if q in known or all_defs.count(f.name) != 1 or f.args.vararg or f.args.kwarg or f.args.posonlyargs or f.args.kwonlyargs:
                continue
            params = [a.arg for a in f.args.args]
            if cname:
                if not params or params[0] != "self":
                    continue
                params = params[1:]
            # the dispatch parameter: used as getattr(x, p) / TABLE[p] and never re-bound
            disp = None
            for pn in params:
                uses = [x for x in ast.walk(f) if (isinstance(x, ast.Call) and isinstance(x.func, ast.Name) and x.func.id == "getattr"
                                                   and len(x.args) == 2 and isinstance(x.args[1], ast.Name) and x.args[1].id == pn)
                        or (isinstance(x, ast.Subscript) and isinstance(x.value, ast.Name) and x.value.id in tables
                            and isinstance(x.slice, ast.Name) and x.slice.id == pn)]
                rebound = any((isinstance(x, ast.Name) and x.id == pn and not isinstance(x.ctx, ast.Load))
                              or (isinstance(x, ast.arg) and x.arg == pn and x not in f.args.args) for x in ast.walk(f))
                if uses and not rebound:
                    disp = pn
                    break
            if disp is None:
                continue
            idx = params.index(disp)
            refs = [x for x in ast.walk(tree) if (isinstance(x, ast.Attribute) and x.attr == f.name) or (isinstance(x, ast.Name) and x.id == f.name)]
            calls = [x for x in ast.walk(tree) if isinstance(x, ast.Call) and any(x.func is r for r in refs)]
            if not calls or len(calls) != len(refs):
                continue  # also handed on as a value: leave it alone
            values: List[Tuple[ast.Call, str]] = []
            for c in calls:
                if any(isinstance(a, ast.Starred) for a in c.args) or any(k.arg is None for k in c.keywords):
                    values = []
                    break
                arg = c.args[idx] if idx < len(c.args) else next((k.value for k in c.keywords if k.arg == disp), None)
                if not (isinstance(arg, ast.Constant) and isinstance(arg.value, str) and arg.value.isidentifier()):
                    values = []
                    break
                values.append((c, arg.value))
            distinct = sorted({v for _c, v in values})
            if not values or len(distinct) > 6 or any(isinstance(x, ast.Subscript) and isinstance(x.value, ast.Name) and x.value.id in tables
                                                      and isinstance(x.slice, ast.Name) and x.slice.id == disp
                                                      and not all(v in [k.value for k in tables[x.value.id].keys] for v in distinct)  # type: ignore[union-attr]
                                                      for x in ast.walk(f)):
                continue

            class _S(ast.NodeTransformer):
                def __init__(self, value: str) -> None:
                    self.value = value

                def visit_Name(self, node):  # type: ignore[no-untyped-def]
                    if node.id == disp and isinstance(node.ctx, ast.Load):
                        return ast.copy_location(ast.Constant(value=self.value), node)
                    return node

                def visit_Call(self, node):  # type: ignore[no-untyped-def]
                    self.generic_visit(node)
                    if isinstance(node.func, ast.Name) and node.func.id == "getattr" and len(node.args) == 2 and not node.keywords \
                            and isinstance(node.args[1], ast.Constant) and node.args[1].value == self.value:
                        return ast.copy_location(ast.Attribute(value=node.args[0], attr=self.value, ctx=ast.Load()), node)
                    return node

                def visit_Subscript(self, node):  # type: ignore[no-untyped-def]
                    self.generic_visit(node)
                    if isinstance(node.value, ast.Name) and node.value.id in tables and isinstance(node.slice, ast.Constant) \
                            and node.slice.value == self.value and isinstance(node.ctx, ast.Load):
                        t = tables[node.value.id]
                        for k, v in zip(t.keys, t.values):
                            if isinstance(k, ast.Constant) and k.value == self.value:
                                return ast.copy_location(copy.deepcopy(v), node)
                    return node

            clones = []
            for v in distinct:
                cl = copy.deepcopy(f)
                cl.name = f"{f.name}__{v}"
                pos = idx + (1 if cname else 0)
                nargs = len(cl.args.args)
                del cl.args.args[pos]
                dpos = pos - (nargs - len(cl.args.defaults))
                if 0 <= dpos < len(cl.args.defaults):
                    del cl.args.defaults[dpos]
                cl.body = [_S(v).visit(st) for st in cl.body]
                ast.fix_missing_locations(cl)
                clones.append(cl)
            at = body.index(f)
            body[at:at + 1] = clones
            for c, v in values:
                if isinstance(c.func, ast.Attribute):
                    c.func.attr = f"{f.name}__{v}"
                elif isinstance(c.func, ast.Name):
                    c.func.id = f"{f.name}__{v}"
                if idx < len(c.args):
                    del c.args[idx]
                else:
                    c.keywords = [k for k in c.keywords if k.arg != disp]


def _fold_constant_tests(body: List[ast.stmt]) -> List[ast.stmt]:
    """`if <constant test>:` keeps the arm that runs; `<a> if <constant> else <b>` the value that is chosen; `x and True` -> x."""
    def truth(e: ast.AST) -> Optional[bool]:
        if isinstance(e, ast.Constant):
            return bool(e.value)
        if isinstance(e, ast.UnaryOp) and isinstance(e.op, ast.Not):
            t = truth(e.operand)
            return None if t is None else not t
        if isinstance(e, ast.Compare) and len(e.ops) == 1 and isinstance(e.left, ast.Constant) and isinstance(e.comparators[0], ast.Constant):
            a, b = e.left.value, e.comparators[0].value
            if isinstance(e.ops[0], ast.Is):
                return a is b
            if isinstance(e.ops[0], ast.IsNot):
                return a is not b
            if isinstance(e.ops[0], ast.Eq) and type(a) is type(b):
                return a == b
            if isinstance(e.ops[0], ast.NotEq) and type(a) is type(b):
                return a != b
        if isinstance(e, ast.BoolOp):
            ts = [truth(v) for v in e.values]
            if isinstance(e.op, ast.And):
                if any(t is False for t in ts):
                    return False
                return True if all(t is True for t in ts) else None
            if any(t is True for t in ts):
                return True
            return False if all(t is False for t in ts) else None
        return None

    class _F(ast.NodeTransformer):
        def visit_FunctionDef(self, node):  # type: ignore[no-untyped-def]
            return node

        def visit_Lambda(self, node):  # type: ignore[no-untyped-def]
            return node

        def visit_BoolOp(self, node):  # type: ignore[no-untyped-def]
            self.generic_visit(node)
            keep = []
            for v in node.values:
                t = truth(v)
                if isinstance(node.op, ast.And) and t is True and isinstance(v, ast.Constant):
                    continue  # `x and True`
                if isinstance(node.op, ast.Or) and t is False and isinstance(v, ast.Constant):
                    continue  # `x or False`
                keep.append(v)
            if not keep:
                return ast.copy_location(ast.Constant(value=isinstance(node.op, ast.And)), node)
            if len(keep) == 1:
                return keep[0]
            node.values = keep
            return node

        def visit_IfExp(self, node):  # type: ignore[no-untyped-def]
            self.generic_visit(node)
            t = truth(node.test)
            return node if t is None else (node.body if t else node.orelse)

        def visit_If(self, node):  # type: ignore[no-untyped-def]
            node.test = self.visit(node.test)
            node.body = fold(node.body)
            node.orelse = fold(node.orelse)
            return node

    def fold(stmts: List[ast.stmt]) -> List[ast.stmt]:
        out: List[ast.stmt] = []
        for st in stmts:
            st = _F().visit(st)
            if isinstance(st, ast.If):
                t = truth(st.test)
                if t is True:
                    out += st.body
                    continue
                if t is False:
                    out += st.orelse
                    continue
            elif isinstance(st, (ast.For, ast.While, ast.With, ast.Try)):
                for fld in ("body", "orelse", "finalbody"):
                    if getattr(st, fld, None):
                        setattr(st, fld, fold(getattr(st, fld)) or [ast.copy_location(ast.Pass(), st)])
                for h in getattr(st, "handlers", []) or []:
                    h.body = fold(h.body) or [ast.copy_location(ast.Pass(), h)]
            out.append(st)
        return out

    return fold(body)


def _specialise_constant_flags(tree: ast.Module, modname: str, known: Optional[set]) -> None:
    """A private helper (or nested function) introduced after the rules were written that takes a FLAG (`missing_ok=False`,
    `retry=True`, `on_error=None`, `negate`) which every call site gives as a literal (or leaves at its literal default) - also
    through `functools.partial(helper, <literal>)` - and which the helper never re-binds is two or three functions sharing a
    body: one copy per distinct literal combination, the flag substituted and the tests on it folded away.  What the rules
    then see per call site is the code path that call site can take."""
    import copy
    if known is None:
        return
    owners: List[Tuple[List[ast.stmt], Optional[str], str]] = [(tree.body, None, "module")]
    owners += [(c.body, c.name, "class") for c in tree.body if isinstance(c, ast.ClassDef)]
    for fd_ in [x for x in ast.walk(tree) if isinstance(x, ast.FunctionDef)]:
        if any(isinstance(st, ast.FunctionDef) for st in fd_.body):
            owners.append((fd_.body, None, "nested"))
    all_defs = [x.name for x in ast.walk(tree) if isinstance(x, (ast.FunctionDef, ast.AsyncFunctionDef))]

    def literal(e: Optional[ast.AST]) -> bool:
        return isinstance(e, ast.Constant) and (e.value is None or isinstance(e.value, (bool,)))

    replace_expr: Dict[int, ast.AST] = {}
    for body, cname, okind in owners:
        for f in list(body):
            if not isinstance(f, ast.FunctionDef) or not f.name.startswith("_") or f.name.startswith("__"):
                continue
            if any(not (isinstance(d, ast.Name) and d.id in ("staticmethod", "classmethod")) for d in f.decorator_list):
                continue
            q = f"{modname}.{cname}.{f.name}" if cname else f"{modname}.{f.name}"
            if (okind != "nested" and q in known) or all_defs.count(f.name) != 1 or f.args.vararg or f.args.kwarg or f.args.posonlyargs or f.args.kwonlyargs:
                continue
            if okind == "nested" and any(k.endswith(".<locals>." + f.name) for k in known):
                continue
            is_static = any(isinstance(d, ast.Name) and d.id == "staticmethod" for d in f.decorator_list)
            params = [a.arg for a in f.args.args]
            off = 1 if (cname and not is_static) else 0
            params = params[off:]
            nargs = len(f.args.args)
            defaults = {}
            for i_, a in enumerate(f.args.args):
                dpos = i_ - (nargs - len(f.args.defaults))
                if 0 <= dpos < len(f.args.defaults):
                    defaults[a.arg] = f.args.defaults[dpos]
            refs = [x for x in ast.walk(tree) if (isinstance(x, ast.Attribute) and x.attr == f.name) or (isinstance(x, ast.Name) and x.id == f.name and isinstance(x.ctx, ast.Load))]
            calls = [x for x in ast.walk(tree) if isinstance(x, ast.Call) and any(x.func is r for r in refs)]
            parts = [x for x in ast.walk(tree) if isinstance(x, ast.Call) and (dotted(x.func) or "").split(".")[-1] == "partial"
                     and x.args and any(x.args[0] is r for r in refs)]
            if not (calls or parts) or len(calls) + len(parts) != len(refs):
                continue
            if any(any(isinstance(a, ast.Starred) for a in c.args) or any(k.arg is None for k in c.keywords) for c in calls + parts):
                continue

            def arg_of(site: ast.Call, pn: str) -> Optional[ast.AST]:
                idx = params.index(pn)
                pos = site.args[1:] if site in parts else site.args
                if idx < len(pos):
                    return pos[idx]
                kw = next((k.value for k in site.keywords if k.arg == pn), None)
                if kw is not None:
                    return kw
                return defaults.get(pn) if site not in parts else None  # a partial that leaves the flag open is not a literal site

            flags = []
            for pn in params:
                uses = [x for x in ast.walk(f) if isinstance(x, ast.Name) and x.id == pn]
                if not uses or any(not isinstance(x.ctx, ast.Load) for x in uses):
                    continue
                vals = [arg_of(c, pn) for c in calls + parts]
                if all(literal(v) for v in vals):
                    flags.append(pn)
            if not flags:
                continue
            combos: Dict[Tuple, List[ast.Call]] = {}
            for c in calls + parts:
                combos.setdefault(tuple(arg_of(c, pn).value for pn in flags), []).append(c)  # type: ignore[union-attr]
            if len(combos) > 4:
                continue

            class _S(ast.NodeTransformer):
                def __init__(self, env: Dict[str, object]) -> None:
                    self.env = env

                def visit_Name(self, node):  # type: ignore[no-untyped-def]
                    if node.id in self.env and isinstance(node.ctx, ast.Load):
                        return ast.copy_location(ast.Constant(value=self.env[node.id]), node)
                    return node

            clones = []
            names = {}
            for key in sorted(combos, key=repr):
                env = dict(zip(flags, key))
                cl = copy.deepcopy(f)
                tag = "_".join(f"{pn}_{str(v)}" for pn, v in env.items())
                cl.name = f"{f.name}__{tag}"
                names[key] = cl.name
                keep_args, keep_defaults = [], []
                for j_, a in enumerate(cl.args.args):
                    if a.arg in env:
                        continue
                    keep_args.append(a)
                    dpos = j_ - (nargs - len(f.args.defaults))
                    if 0 <= dpos < len(cl.args.defaults):
                        keep_defaults.append(cl.args.defaults[dpos])
                cl.args.args, cl.args.defaults = keep_args, keep_defaults
                cl.body = [_S(env).visit(st) for st in cl.body]
                cl.body = _fold_constant_tests(cl.body) or [ast.Pass()]
                ast.fix_missing_locations(cl)
                clones.append(cl)
            at = body.index(f)
            body[at:at + 1] = clones
            for key, cs in combos.items():
                for c in cs:
                    target = c.args[0] if c in parts else c.func
                    if isinstance(target, ast.Attribute):
                        target.attr = names[key]
                    elif isinstance(target, ast.Name):
                        target.id = names[key]
                    drop = sorted((params.index(pn) for pn in flags), reverse=True)
                    shift = 1 if c in parts else 0
                    for idx in drop:
                        if idx + shift < len(c.args):
                            del c.args[idx + shift]
                    c.keywords = [kw for kw in c.keywords if kw.arg not in flags]
                    if c in parts and len(c.args) == 1 and not c.keywords:
                        replace_expr[id(c)] = c.args[0]  # partial(clone) with nothing left to bind IS the clone
    if replace_expr:
        class _R(ast.NodeTransformer):
            def visit_Call(self, node):  # type: ignore[no-untyped-def]
                self.generic_visit(node)
                return replace_expr.get(id(node), node)
        _R().visit(tree)
        ast.fix_missing_locations(tree)


def _specialise_handler_class_params(tree: ast.Module, modname: str, known: Optional[set]) -> None:
    """A private helper (plain or @contextmanager) introduced after the rules were written whose parameters are the tuples of
    exception classes it handles (`def _fsync_path(path, ignore=None): ... except ignore: pass`; `except keep_on: raise / except
    discard_on: <cleanup>; raise`), called only with literal tuples / None / the defaults: one copy per distinct argument
    combination, each parameter substituted by the tuple it denotes there - after the helper's own default resolution, for the
    spellings `if p is None: p = E`, `p = p or E` (an EMPTY tuple is falsy), `p = E if p is None else p` at the top of its body.
    The rules then see `except (OSError, AttributeError):` resp. `except ():` per call site."""
    import copy
    if known is None:
        return
    consts = {st.targets[0].id: st.value for st in tree.body if isinstance(st, ast.Assign) and len(st.targets) == 1
              and isinstance(st.targets[0], ast.Name) and isinstance(st.value, ast.Tuple)}
    consts.update({st.target.id: st.value for st in tree.body if isinstance(st, ast.AnnAssign) and isinstance(st.target, ast.Name)
                   and isinstance(st.value, ast.Tuple)})
    owners: List[Tuple[List[ast.stmt], Optional[str]]] = [(tree.body, None)]
    owners += [(c.body, c.name) for c in tree.body if isinstance(c, ast.ClassDef)]
    all_defs = [x.name for x in ast.walk(tree) if isinstance(x, (ast.FunctionDef, ast.AsyncFunctionDef))]

    def classes_tuple(e: Optional[ast.AST]) -> Optional[ast.Tuple]:
        if isinstance(e, ast.Tuple) and all(isinstance(x, (ast.Name, ast.Attribute)) for x in e.elts):
            return e
        if isinstance(e, ast.Name) and e.id in consts:
            return classes_tuple(consts[e.id])
        return None

    for body, cname in owners:
        for f in list(body):
            if not isinstance(f, ast.FunctionDef) or not f.name.startswith("_") or f.name.startswith("__"):
                continue
            if any((dotted(d) or "").split(".")[-1] not in ("contextmanager", "staticmethod") for d in f.decorator_list):
                continue
            q = f"{modname}.{cname}.{f.name}" if cname else f"{modname}.{f.name}"
            if q in known or all_defs.count(f.name) != 1 or f.args.vararg or f.args.kwarg or f.args.posonlyargs or f.args.kwonlyargs:
                continue
            is_static = any(isinstance(d, ast.Name) and d.id == "staticmethod" for d in f.decorator_list)
            params = [a.arg for a in f.args.args]
            off = 1 if (cname and not is_static) else 0
            if off and (not params or params[0] != "self"):
                continue
            params = params[off:]
            disps = [pn for pn in params if any(isinstance(h, ast.ExceptHandler) and isinstance(h.type, ast.Name) and h.type.id == pn
                                                for h in ast.walk(f))]
            if not disps:
                continue
            # the helper's own default resolution: at most one re-binding per parameter, a top-level statement of a known spelling
            resolvers: Dict[str, Tuple[ast.stmt, str, ast.AST]] = {}
            bad = False
            for disp in disps:
                rebinds = [x for x in ast.walk(f) if isinstance(x, ast.Name) and x.id == disp and isinstance(x.ctx, ast.Store)]
                resolver = None
                for st in f.body:
                    if isinstance(st, ast.If) and not st.orelse and len(st.body) == 1 and isinstance(st.test, ast.Compare) and len(st.test.ops) == 1 \
                            and isinstance(st.test.ops[0], ast.Is) and isinstance(st.test.left, ast.Name) and st.test.left.id == disp \
                            and isinstance(st.test.comparators[0], ast.Constant) and st.test.comparators[0].value is None \
                            and isinstance(st.body[0], ast.Assign) and len(st.body[0].targets) == 1 and isinstance(st.body[0].targets[0], ast.Name) \
                            and st.body[0].targets[0].id == disp:
                        resolver = (st, "none", st.body[0].value)
                    elif isinstance(st, ast.Assign) and len(st.targets) == 1 and isinstance(st.targets[0], ast.Name) and st.targets[0].id == disp:
                        v = st.value
                        if isinstance(v, ast.BoolOp) and isinstance(v.op, ast.Or) and len(v.values) == 2 and isinstance(v.values[0], ast.Name) \
                                and v.values[0].id == disp:
                            resolver = (st, "falsy", v.values[1])
                        elif isinstance(v, ast.IfExp) and isinstance(v.test, ast.Compare) and len(v.test.ops) == 1 and isinstance(v.test.left, ast.Name) \
                                and v.test.left.id == disp and isinstance(v.test.comparators[0], ast.Constant) and v.test.comparators[0].value is None:
                            if isinstance(v.test.ops[0], ast.Is) and isinstance(v.orelse, ast.Name) and v.orelse.id == disp:
                                resolver = (st, "none", v.body)
                            elif isinstance(v.test.ops[0], ast.IsNot) and isinstance(v.body, ast.Name) and v.body.id == disp:
                                resolver = (st, "none", v.orelse)
                    if resolver is not None:
                        break
                if len(rebinds) != (1 if resolver is not None else 0) or (resolver is not None and classes_tuple(resolver[2]) is None):
                    bad = True
                    break
                if resolver is not None:
                    resolvers[disp] = resolver
            if bad:
                continue
            refs = [x for x in ast.walk(tree) if (isinstance(x, ast.Attribute) and x.attr == f.name) or (isinstance(x, ast.Name) and x.id == f.name)]
            calls = [x for x in ast.walk(tree) if isinstance(x, ast.Call) and any(x.func is r for r in refs)]
            if not calls or len(calls) != len(refs):
                continue
            nargs = len(f.args.args)

            def default_of(pn: str) -> Optional[ast.AST]:
                pos = params.index(pn) + off
                dpos = pos - (nargs - len(f.args.defaults))
                return f.args.defaults[dpos] if 0 <= dpos < len(f.args.defaults) else None

            values: List[Tuple[ast.Call, Tuple[str, ...], Dict[str, ast.Tuple]]] = []
            for c in calls:
                if any(isinstance(a, ast.Starred) for a in c.args) or any(k.arg is None for k in c.keywords):
                    values = []
                    break
                env: Dict[str, ast.Tuple] = {}
                for disp in disps:
                    idx = params.index(disp)
                    arg = c.args[idx] if idx < len(c.args) else next((k.value for k in c.keywords if k.arg == disp), default_of(disp))
                    if arg is None:
                        env = {}
                        break
                    is_none = isinstance(arg, ast.Constant) and arg.value is None
                    tup = classes_tuple(arg)
                    if not is_none and tup is None:
                        env = {}
                        break
                    rs = resolvers.get(disp)
                    if rs is not None and (is_none or (rs[1] == "falsy" and tup is not None and not tup.elts)):
                        tup = classes_tuple(rs[2])
                    if tup is None:
                        env = {}
                        break
                    env[disp] = tup
                if len(env) != len(disps):
                    values = []
                    break
                values.append((c, tuple(ast.dump(env[d]) for d in disps), env))
            if not values:
                continue
            distinct = sorted({k for _c, k, _e in values})
            if len(distinct) > 4:
                continue
            tags = {k: f"h{i}" for i, k in enumerate(distinct)}

            class _S(ast.NodeTransformer):
                def __init__(self, env: Dict[str, ast.Tuple]) -> None:
                    self.env = env

                def visit_Name(self, node):  # type: ignore[no-untyped-def]
                    if node.id in self.env and isinstance(node.ctx, ast.Load):
                        return ast.copy_location(copy.deepcopy(self.env[node.id]), node)
                    return node

            clones = []
            for k in distinct:
                env = next(e for _c, kk, e in values if kk == k)
                cl = copy.deepcopy(f)
                cl.name = f"{f.name}__{tags[k]}"
                keep_args, keep_defaults = [], []
                for j_, a in enumerate(cl.args.args):
                    if a.arg in env:
                        continue
                    keep_args.append(a)
                    dpos = j_ - (nargs - len(f.args.defaults))
                    if 0 <= dpos < len(cl.args.defaults):
                        keep_defaults.append(cl.args.defaults[dpos])
                cl.args.args, cl.args.defaults = keep_args, keep_defaults
                drop_idx = sorted((f.body.index(rs[0]) for rs in resolvers.values()), reverse=True)
                for ri in drop_idx:
                    del cl.body[ri]
                cl.body = [_S(env).visit(st) for st in cl.body] or [ast.Pass()]
                ast.fix_missing_locations(cl)
                clones.append(cl)
            at = body.index(f)
            body[at:at + 1] = clones
            for c, k, _e in values:
                if isinstance(c.func, ast.Attribute):
                    c.func.attr = f"{f.name}__{tags[k]}"
                elif isinstance(c.func, ast.Name):
                    c.func.id = f"{f.name}__{tags[k]}"
                for idx in sorted((params.index(d) for d in disps), reverse=True):
                    if idx < len(c.args):
                        del c.args[idx]
                c.keywords = [kw for kw in c.keywords if kw.arg not in disps]


@dataclass
class T:
    """A (very) small type: class qualified name + type arguments."""
    name: str
    args: Tuple["T", ...] = ()

    def __repr__(self) -> str:
        return self.name + (f"[{', '.join(map(repr, self.args))}]" if self.args else "")


@dataclass
class Param:
    name: str
    ann: Optional[ast.AST]
    default: Optional[ast.AST]
    kind: str  # 'pos' | 'kwonly' | 'vararg' | 'kwarg'


@dataclass
class FunctionInfo:
    qname: str
    name: str
    module: "Module"
    node: ast.AST  # FunctionDef | AsyncFunctionDef | Lambda
    cls: Optional["ClassInfo"] = None
    parent: Optional["FunctionInfo"] = None
    params: List[Param] = field(default_factory=list)
    decorators: List[str] = field(default_factory=list)
    nested: Dict[str, "FunctionInfo"] = field(default_factory=dict)
    local_imports: Dict[str, str] = field(default_factory=dict)
    lambdas: List["FunctionInfo"] = field(default_factory=list)

    @property
    def is_static(self) -> bool:
        return "staticmethod" in self.decorators

    @property
    def is_classmethod(self) -> bool:
        return "classmethod" in self.decorators

    @property
    def is_property(self) -> bool:
        return "property" in self.decorators

    @property
    def is_abstract(self) -> bool:
        return "abstractmethod" in self.decorators

    @property
    def lineno(self) -> int:
        return getattr(self.node, "lineno", 0)

    @property
    def file(self) -> str:
        return self.module.relpath

    def body(self) -> List[ast.stmt]:
        if isinstance(self.node, ast.Lambda):
            r = ast.Return(value=self.node.body)
            ast.copy_location(r, self.node.body)
            return [r]
        return list(self.node.body)  # type: ignore[attr-defined]

    def self_name(self) -> Optional[str]:
        if self.cls is not None and not self.is_static and self.params:
            return self.params[0].name
        if self.parent is not None:
            return self.parent.self_name()
        return None

    def owner_class(self) -> Optional["ClassInfo"]:
        f: Optional[FunctionInfo] = self
        while f is not None:
            if f.cls is not None:
                return f.cls
            f = f.parent
        return None

    def __repr__(self) -> str:
        return f"<fn {self.qname}>"

    def __hash__(self) -> int:
        return hash(self.qname)

    def __eq__(self, other: object) -> bool:
        return isinstance(other, FunctionInfo) and other.qname == self.qname


@dataclass
class ClassInfo:
    qname: str
    name: str
    module: "Module"
    node: ast.ClassDef
    base_names: List[str] = field(default_factory=list)  # resolved qualified
    methods: Dict[str, FunctionInfo] = field(default_factory=dict)
    attr_types: Dict[str, T] = field(default_factory=dict)
    consts: Dict[str, ast.AST] = field(default_factory=dict)
    fields: Dict[str, Optional[ast.AST]] = field(default_factory=dict)  # dataclass fields -> annotation
    is_dataclass: bool = False

    def __repr__(self) -> str:
        return f"<class {self.qname}>"

    def __hash__(self) -> int:
        return hash(self.qname)

    def __eq__(self, other: object) -> bool:
        return isinstance(other, ClassInfo) and other.qname == self.qname


@dataclass
class Module:
    name: str  # 'datashard.transaction'
    path: str
    relpath: str  # 'src/datashard/transaction.py'
    src: str
    tree: ast.Module
    imports: Dict[str, str] = field(default_factory=dict)
    consts: Dict[str, ast.AST] = field(default_factory=dict)
    functions: Dict[str, FunctionInfo] = field(default_factory=dict)
    classes: Dict[str, ClassInfo] = field(default_factory=dict)

    @property
    def short(self) -> str:
        return self.name.split(".", 1)[1] if "." in self.name else self.name


@dataclass
class Callee:
    kind: str  # 'func' | 'ctor' | 'prim' | 'param' | 'unknown'
    funcs: List[FunctionInfo] = field(default_factory=list)
    name: str = ""  # primitive dotted name / param name / source text
    cls: Optional[ClassInfo] = None
    recv_type: Optional[T] = None

    def __repr__(self) -> str:
        if self.kind in ("func", "ctor"):
            return f"{self.kind}:{','.join(f.qname for f in self.funcs) or (self.cls.qname if self.cls else '?')}"
        return f"{self.kind}:{self.name}"


BUILTIN_FUNCS = {
    "len", "int", "float", "str", "bool", "bytes", "list", "dict", "set", "tuple", "frozenset",
    "isinstance", "issubclass", "hasattr", "getattr", "setattr", "min", "max", "sum", "any", "all",
    "sorted", "reversed", "enumerate", "range", "zip", "map", "filter", "iter", "next", "id", "type",
    "open", "print", "repr", "abs", "round", "super", "hash", "callable", "vars", "format", "ord", "chr",
    "divmod", "object", "property", "staticmethod", "classmethod", "bytearray", "memoryview", "slice",
    "exec", "eval", "compile", "globals", "locals", "delattr", "input", "pow",
}

BUILTIN_EXC = {
    "BaseException": None, "Exception": "BaseException", "KeyboardInterrupt": "BaseException",
    "SystemExit": "BaseException", "GeneratorExit": "BaseException",
    "ArithmeticError": "Exception", "ZeroDivisionError": "ArithmeticError", "OverflowError": "ArithmeticError",
    "AssertionError": "Exception", "AttributeError": "Exception", "EOFError": "Exception",
    "ImportError": "Exception", "ModuleNotFoundError": "ImportError", "LookupError": "Exception",
    "IndexError": "LookupError", "KeyError": "LookupError", "MemoryError": "Exception",
    "NameError": "Exception", "OSError": "Exception", "IOError": "Exception", "EnvironmentError": "Exception",
    "FileNotFoundError": "OSError", "FileExistsError": "OSError", "PermissionError": "OSError",
    "TimeoutError": "OSError", "IsADirectoryError": "OSError", "NotADirectoryError": "OSError",
    "InterruptedError": "OSError", "BlockingIOError": "OSError", "ConnectionError": "OSError",
    "RuntimeError": "Exception", "NotImplementedError": "RuntimeError", "RecursionError": "RuntimeError",
    "StopIteration": "Exception", "StopAsyncIteration": "Exception", "TypeError": "Exception",
    "ValueError": "Exception", "UnicodeError": "ValueError", "UnicodeDecodeError": "UnicodeError",
    "UnicodeEncodeError": "UnicodeError", "Warning": "Exception",
    "JSONDecodeError": "ValueError", "json.JSONDecodeError": "ValueError", "json.decoder.JSONDecodeError": "ValueError",
    # third party, as used by the package
    "ClientError": "Exception", "BotoCoreError": "Exception",
    "botocore.exceptions.ClientError": "Exception", "botocore.exceptions.BotoCoreError": "Exception",
    "pa.ArrowException": "Exception", "pa.ArrowInvalid": "ValueError", "pa.ArrowTypeError": "TypeError",
    "pa.ArrowNotImplementedError": "NotImplementedError", "PackageNotFoundError": "ImportError",
}
# IOError / EnvironmentError are aliases of OSError
EXC_ALIAS = {"IOError": "OSError", "EnvironmentError": "OSError",
             "botocore.exceptions.ClientError": "ClientError",
             "botocore.exceptions.BotoCoreError": "BotoCoreError"}


class Program:
    """The whole package, parsed."""

    def __init__(self, repo_root: str = "/repo") -> None:
        self.repo_root = repo_root
        self.pkg_dir = os.path.join(repo_root, "src", PKG)
        if not os.path.isdir(self.pkg_dir):
            raise AnalysisError(f"package directory not found: {self.pkg_dir}")
        self.modules: Dict[str, Module] = {}
        self.functions: Dict[str, FunctionInfo] = {}
        self.classes: Dict[str, ClassInfo] = {}
        self.subclasses: Dict[str, List[ClassInfo]] = {}
        self.digest = ""
        self.known: Optional[set] = None
        kf = os.path.join(os.path.dirname(os.path.abspath(__file__)), "known_functions.txt")
        if os.path.exists(kf):
            with open(kf) as fh:
                self.known = {l.strip() for l in fh if l.strip()}
        self._load()
        self._link()

    # ------------------------------------------------------------------ load
    def _load(self) -> None:
        h = hashlib.sha256()
        parsed = []
        for fn in sorted(os.listdir(self.pkg_dir)):
            if not fn.endswith(".py"):
                continue
            path = os.path.join(self.pkg_dir, fn)
            with open(path, "r", encoding="utf-8") as f:
                src = f.read()
            h.update(fn.encode() + b"\0" + src.encode() + b"\0")
            try:
                tree = ast.parse(src, filename=path)
            except SyntaxError as e:
                raise AnalysisError(f"cannot parse {path}: {e}") from e
            parsed.append((fn, path, src, tree))
        records = _record_names([t for _f, _p, _s, t in parsed])
        _undo_renames([(fn, t) for fn, _p, _s, t in parsed], self.known)
        _new_properties_as_methods([(fn, t) for fn, _p, _s, t in parsed], self.known)
        _eager_generators_as_collectors([(fn, t) for fn, _p, _s, t in parsed], self.known)
        for fn, path, src, tree in parsed:
            _desugar_match(tree)
            _plain_local_assignments(tree)
            _unroll_table_loops(tree)
            _expand_dict_dispatch(tree)
            _split_isinstance_handlers(tree)
            _literal_tables(tree)
            _record_field_aliases(tree, records)
            modname = f"{PKG}.{fn[:-3]}" if fn != "__init__.py" else PKG
            _specialise_constant_dispatch(tree, modname, self.known)
            _specialise_handler_class_params(tree, modname, self.known)
            _specialise_constant_flags(tree, modname, self.known)
            m = Module(modname, path, os.path.relpath(path, self.repo_root), src, tree)
            self.modules[modname] = m
            self._index_module(m)
        self.digest = h.hexdigest()
        if len(self.modules) < 10:
            raise AnalysisError(f"only {len(self.modules)} modules found under {self.pkg_dir}")

    def _resolve_import_from(self, m: Module, node: ast.ImportFrom) -> str:
        if node.level:
            base = m.name.split(".")
            # a module 'datashard.x' at level 1 -> 'datashard'
            if m.name != PKG:
                base = base[:-1]
            base = base[: len(base) - (node.level - 1)] if node.level > 1 else base
            mod = ".".join(base + ([node.module] if node.module else []))
        else:
            mod = node.module or ""
        return mod

    def _collect_imports(self, m: Module, stmts: List[ast.stmt], into: Dict[str, str], deep: bool) -> None:
        for st in stmts:
            if isinstance(st, ast.Import):
                for a in st.names:
                    into[a.asname or a.name.split(".")[0]] = a.name if a.asname else a.name.split(".")[0]
                    if a.asname:
                        into[a.asname] = a.name
            elif isinstance(st, ast.ImportFrom):
                mod = self._resolve_import_from(m, st)
                for a in st.names:
                    into[a.asname or a.name] = f"{mod}.{a.name}" if mod else a.name
            elif deep and isinstance(st, (ast.If, ast.Try, ast.With, ast.For, ast.While)):
                for fld in ("body", "orelse", "finalbody"):
                    self._collect_imports(m, getattr(st, fld, []) or [], into, deep)
                for h in getattr(st, "handlers", []) or []:
                    self._collect_imports(m, h.body, into, deep)

    def _index_module(self, m: Module) -> None:
        self._collect_imports(m, m.tree.body, m.imports, deep=True)
        for st in m.tree.body:
            if isinstance(st, ast.Assign) and len(st.targets) == 1 and isinstance(st.targets[0], ast.Name):
                m.consts[st.targets[0].id] = st.value
                # NAME = (ExcA, ExcB): a named tuple of exception classes usable in `except NAME:`
                v = st.value
                elts = v.elts if isinstance(v, ast.Tuple) else [v]
                names = [dotted(e) for e in elts]
                if names and all(n and n.split(".")[-1][:1].isupper() and
                                 (n.endswith("Error") or n.endswith("Exception") or n.endswith("Iteration") or n.endswith("Interrupt"))
                                 for n in names):
                    EXC_ALIASES[st.targets[0].id] = [n for n in names if n]
            elif isinstance(st, ast.AnnAssign) and isinstance(st.target, ast.Name) and st.value is not None:
                m.consts[st.target.id] = st.value
            elif isinstance(st, (ast.FunctionDef, ast.AsyncFunctionDef)):
                fi = self._index_function(m, st, None, None, m.name)
                m.functions[st.name] = fi
            elif isinstance(st, ast.ClassDef):
                self._index_class(m, st)
            elif isinstance(st, ast.Try):
                # `try: import x; FLAG = True except ImportError: FLAG = False`
                for s2 in st.body + [s for h in st.handlers for s in h.body]:
                    if isinstance(s2, ast.Assign) and len(s2.targets) == 1 and isinstance(s2.targets[0], ast.Name):
                        m.consts.setdefault(s2.targets[0].id, s2.value)

    def _index_class(self, m: Module, node: ast.ClassDef) -> None:
        ci = ClassInfo(f"{m.name}.{node.name}", node.name, m, node)
        for d in node.decorator_list:
            dn = dotted(d.func if isinstance(d, ast.Call) else d)
            if dn and dn.split(".")[-1] == "dataclass":
                ci.is_dataclass = True
        for st in node.body:
            if isinstance(st, (ast.FunctionDef, ast.AsyncFunctionDef)):
                ci.methods[st.name] = self._index_function(m, st, ci, None, ci.qname)
            elif isinstance(st, ast.Assign) and len(st.targets) == 1 and isinstance(st.targets[0], ast.Name):
                ci.consts[st.targets[0].id] = st.value
            elif isinstance(st, ast.AnnAssign) and isinstance(st.target, ast.Name):
                ci.fields[st.target.id] = st.annotation
                if st.value is not None:
                    ci.consts[st.target.id] = st.value
        m.classes[node.name] = ci
        self.classes[ci.qname] = ci

    def _index_function(self, m: Module, node: ast.AST, cls: Optional[ClassInfo],
                        parent: Optional[FunctionInfo], prefix: str) -> FunctionInfo:
        if isinstance(node, ast.Lambda):
            name = f"<lambda@{node.lineno}:{node.col_offset}>"
        else:
            name = node.name  # type: ignore[attr-defined]
        qn = f"{prefix}.{name}"
        fi = FunctionInfo(qn, name, m, node, cls, parent)
        a = node.args  # type: ignore[attr-defined]
        pos = list(a.posonlyargs) + list(a.args)
        defaults = [None] * (len(pos) - len(a.defaults)) + list(a.defaults)
        for p, d in zip(pos, defaults):
            fi.params.append(Param(p.arg, p.annotation, d, "pos"))
        if a.vararg:
            fi.params.append(Param(a.vararg.arg, a.vararg.annotation, None, "vararg"))
        for p, d in zip(a.kwonlyargs, a.kw_defaults):
            fi.params.append(Param(p.arg, p.annotation, d, "kwonly"))
        if a.kwarg:
            fi.params.append(Param(a.kwarg.arg, a.kwarg.annotation, None, "kwarg"))
        if not isinstance(node, ast.Lambda):
            for d in node.decorator_list:  # type: ignore[attr-defined]
                dn = dotted(d.func if isinstance(d, ast.Call) else d)
                if dn:
                    fi.decorators.append(dn.split(".")[-1])
            self._collect_imports(m, node.body, fi.local_imports, deep=True)  # type: ignore[attr-defined]
        self.functions[qn] = fi
        # nested defs and lambdas (not descending into nested defs' own bodies twice)
        body = [node.body] if isinstance(node, ast.Lambda) else node.body  # type: ignore[attr-defined]
        for sub in self._iter_nested(body):
            if isinstance(sub, ast.Lambda):
                fi.lambdas.append(self._index_function(m, sub, None, fi, qn + ".<locals>"))
            else:
                fi.nested[sub.name] = self._index_function(m, sub, None, fi, qn + ".<locals>")
        return fi

    @staticmethod
    def _iter_nested(body: List[ast.AST]) -> Iterator[ast.AST]:
        """Directly nested function defs / lambdas (not those nested deeper)."""
        stack: List[ast.AST] = list(body)
        while stack:
            n = stack.pop()
            if isinstance(n, (ast.FunctionDef, ast.AsyncFunctionDef, ast.Lambda)):
                yield n
                continue
            if isinstance(n, ast.ClassDef):
                continue
            stack.extend(ast.iter_child_nodes(n))

    # ------------------------------------------------------------------ link
    def _link(self) -> None:
        for ci in self.classes.values():
            for b in ci.node.bases:
                dn = dotted(b)
                if not dn:
                    continue
                q = self.resolve_name(dn, ci.module, None)
                ci.base_names.append(q or dn)
        for ci in self.classes.values():
            for b in ci.base_names:
                self.subclasses.setdefault(b, []).append(ci)
        for ci in self.classes.values():
            self._infer_attr_types(ci)

    def resolve_name(self, name: str, m: Module, fn: Optional[FunctionInfo]) -> Optional[str]:
        """Resolve a dotted source name to a qualified name (package-internal or external)."""
        head, _, rest = name.partition(".")
        f = fn
        while f is not None:
            if head in f.local_imports:
                q = f.local_imports[head]
                return f"{q}.{rest}" if rest else q
            f = f.parent
        if head in m.classes:
            q = m.classes[head].qname
            return f"{q}.{rest}" if rest else q
        if head in m.functions:
            return m.functions[head].qname
        if head in m.imports:
            q = m.imports[head]
            return f"{q}.{rest}" if rest else q
        return None

    def lookup_class(self, qname: Optional[str]) -> Optional[ClassInfo]:
        if not qname:
            return None
        ci = self.classes.get(qname)
        if ci:
            return ci
        # re-export: datashard.iceberg.DataFile -> datashard.data_structures.DataFile
        mod, _, nm = qname.rpartition(".")
        m = self.modules.get(mod)
        if m and nm in m.imports:
            return self.lookup_class(m.imports[nm])
        return None

    def lookup_function(self, qname: Optional[str]) -> Optional[FunctionInfo]:
        if not qname:
            return None
        fi = self.functions.get(qname)
        if fi:
            return fi
        mod, _, nm = qname.rpartition(".")
        m = self.modules.get(mod)
        if m and nm in m.imports:
            return self.lookup_function(m.imports[nm])
        return None

    def mro(self, ci: ClassInfo) -> List[ClassInfo]:
        out: List[ClassInfo] = []
        seen = set()
        stack = [ci]
        while stack:
            c = stack.pop(0)
            if c.qname in seen:
                continue
            seen.add(c.qname)
            out.append(c)
            for b in c.base_names:
                bc = self.lookup_class(b)
                if bc:
                    stack.append(bc)
        return out

    def all_subclasses(self, ci: ClassInfo) -> List[ClassInfo]:
        out: List[ClassInfo] = []
        stack = list(self.subclasses.get(ci.qname, []))
        seen = set()
        while stack:
            c = stack.pop()
            if c.qname in seen:
                continue
            seen.add(c.qname)
            out.append(c)
            stack.extend(self.subclasses.get(c.qname, []))
        return out

    def find_method(self, ci: ClassInfo, name: str) -> Optional[FunctionInfo]:
        for c in self.mro(ci):
            if name in c.methods:
                return c.methods[name]
        return None

    def dispatch(self, ci: ClassInfo, name: str) -> List[FunctionInfo]:
        """Class-hierarchy analysis: every implementation a receiver of static
        type `ci` may run for method `name`."""
        out: List[FunctionInfo] = []
        base = self.find_method(ci, name)
        if base is not None and not base.is_abstract:
            out.append(base)
        for sc in self.all_subclasses(ci):
            if name in sc.methods and not sc.methods[name].is_abstract:
                if sc.methods[name] not in out:
                    out.append(sc.methods[name])
        if not out and base is not None:
            out.append(base)
        return out

    # ----------------------------------------------------------------- types
    def ann_to_type(self, ann: Optional[ast.AST], m: Module, fn: Optional[FunctionInfo] = None) -> Optional[T]:
        if ann is None:
            return None
        if isinstance(ann, ast.Constant) and isinstance(ann.value, str):
            try:
                ann = ast.parse(ann.value, mode="eval").body
            except SyntaxError:
                return None
        if isinstance(ann, ast.Constant) and ann.value is None:
            return T("None")
        if isinstance(ann, ast.Subscript):
            head = dotted(ann.value) or ""
            head = head.split(".")[-1]
            sl = ann.slice
            elts = list(sl.elts) if isinstance(sl, ast.Tuple) else [sl]
            args = tuple(a for a in (self.ann_to_type(e, m, fn) for e in elts) if a is not None)
            if head == "Optional":
                return args[0] if args else None
            if head == "Union":
                non_none = [a for a in args if a.name != "None"]
                return non_none[0] if len(non_none) == 1 else T("Union", tuple(non_none))
            if head in ("List", "list", "Iterator", "Iterable", "Sequence", "Set", "set", "Generator"):
                return T("list", args[:1])
            if head in ("Dict", "dict", "Mapping"):
                return T("dict", args)
            if head in ("Tuple", "tuple"):
                return T("tuple", args)
            if head == "Callable":
                return T("Callable")
            return T(head, args)
        if isinstance(ann, ast.BinOp) and isinstance(ann.op, ast.BitOr):
            l, r = self.ann_to_type(ann.left, m, fn), self.ann_to_type(ann.right, m, fn)
            if l and l.name == "None":
                return r
            if r and r.name == "None":
                return l
            return l
        dn = dotted(ann)
        if dn:
            q = self.resolve_name(dn, m, fn)
            ci = self.lookup_class(q) if q else None
            if ci:
                return T(ci.qname)
            if dn in ("str", "int", "float", "bool", "bytes", "Any", "object"):
                return T(dn)
            return T(q or dn)
        return None

    def _infer_attr_types(self, ci: ClassInfo) -> None:
        for name, ann in ci.fields.items():
            t = self.ann_to_type(ann, ci.module)
            if t:
                ci.attr_types[name] = t
        for meth in ci.methods.values():
            sn = meth.self_name()
            if not sn or isinstance(meth.node, ast.Lambda):
                continue
            ptypes = {p.name: self.ann_to_type(p.ann, ci.module, meth) for p in meth.params}
            ptypes[sn] = T(ci.qname)
            for n in ast.walk(meth.node):
                tgt = val = ann = None
                if isinstance(n, ast.Assign) and len(n.targets) == 1:
                    tgt, val, ann = n.targets[0], n.value, getattr(n, "_ann", None)
                elif isinstance(n, ast.AnnAssign):
                    tgt, val, ann = n.target, n.value, n.annotation
                if not (isinstance(tgt, ast.Attribute) and isinstance(tgt.value, ast.Name) and tgt.value.id == sn):
                    continue
                if tgt.attr in ci.attr_types and meth.name != "__init__":
                    continue
                t = self.ann_to_type(ann, ci.module, meth) if ann is not None else None
                if t is None and isinstance(val, ast.Name) and ptypes.get(val.id):
                    t = ptypes[val.id]
                if t is None and val is not None:
                    t = self._static_type(val, ci.module, meth, {k: v for k, v in ptypes.items() if v})
                if t is not None and (tgt.attr not in ci.attr_types or meth.name == "__init__"):
                    ci.attr_types[tgt.attr] = t

    def _static_type(self, e: ast.AST, m: Module, fn: Optional[FunctionInfo], env: Dict[str, T]) -> Optional[T]:
        """Flow-insensitive expression typing."""
        if isinstance(e, ast.Constant):
            return T(type(e.value).__name__) if e.value is not None else T("None")
        if isinstance(e, ast.JoinedStr):
            return T("str")
        if isinstance(e, ast.Name):
            if e.id in env and not (env[e.id].name == "Any" and e.id in ("pq", "pa", "pc")):
                return env[e.id]
            q = self.resolve_name(e.id, m, fn)
            if q and self.lookup_class(q):
                return T("type", (T(self.lookup_class(q).qname),))  # type: ignore[union-attr]
            if q and q.split(".")[0] != PKG:
                return T("module:" + q)
            if e.id in m.consts and isinstance(m.consts[e.id], ast.Call) and "_c_" + e.id not in env:
                env2 = dict(env)
                env2["_c_" + e.id] = T("None")
                return self._static_type(m.consts[e.id], m, None, env2)
            if e.id in ("pq", "pa", "pc"):
                return T("module:" + {"pq": "pyarrow.parquet", "pa": "pyarrow", "pc": "pyarrow.compute"}[e.id])
            return None
        if isinstance(e, ast.Attribute):
            bt = self._static_type(e.value, m, fn, env)
            if bt is None:
                return None
            if bt.name.startswith("module:"):
                return T(bt.name + "." + e.attr)
            if bt.name == "type" and bt.args:
                return None
            ci = self.lookup_class(bt.name)
            if ci:
                for c in self.mro(ci):
                    if e.attr in c.attr_types:
                        return c.attr_types[e.attr]
                    if e.attr in c.methods and c.methods[e.attr].is_property:
                        pm = c.methods[e.attr]
                        return self.ann_to_type(getattr(pm.node, "returns", None), pm.module, pm)
            return None
        if isinstance(e, ast.Call):
            cal = self.resolve_call_static(e, m, fn, env)
            if cal.kind == "ctor" and cal.cls:
                return T(cal.cls.qname)
            if cal.kind == "func" and cal.funcs:
                f0 = cal.funcs[0]
                rt = self.ann_to_type(getattr(f0.node, "returns", None), f0.module, f0)
                return rt
            if cal.kind == "prim" and cal.name in ("builtins.str", "builtins.int", "builtins.float", "builtins.list",
                                                     "builtins.dict", "builtins.set", "builtins.bytes"):
                return T(cal.name.split(".")[1])
            return None
        if isinstance(e, ast.Subscript):
            bt = self._static_type(e.value, m, fn, env)
            if bt and bt.name == "list" and bt.args:
                return bt.args[0]
            if bt and bt.name == "dict" and len(bt.args) == 2:
                return bt.args[1]
            if bt and bt.name == "tuple" and isinstance(e.slice, ast.Constant) and isinstance(e.slice.value, int):
                if 0 <= e.slice.value < len(bt.args):
                    return bt.args[e.slice.value]
            return None
        if isinstance(e, ast.IfExp):
            return self._static_type(e.body, m, fn, env) or self._static_type(e.orelse, m, fn, env)
        if isinstance(e, ast.BoolOp):
            for v in e.values:
                t = self._static_type(v, m, fn, env)
                if t and t.name != "None":
                    return t
        if isinstance(e, (ast.List, ast.ListComp)):
            return T("list")
        if isinstance(e, (ast.Dict, ast.DictComp)):
            return T("dict")
        if isinstance(e, (ast.Set, ast.SetComp)):
            return T("set")
        return None

    def local_env(self, fn: FunctionInfo) -> Dict[str, T]:
        """Types of parameters and locals of `fn` (flow-insensitive, first binding wins),
        including the enclosing functions' locals for closures."""
        cached = getattr(fn, "_env", None)
        if cached is not None:
            return cached
        env: Dict[str, T] = {}
        if fn.parent is not None:
            env.update(self.local_env(fn.parent))
        m = fn.module
        for p in fn.params:
            t = self.ann_to_type(p.ann, m, fn)
            if t:
                env[p.name] = t
        sn = fn.self_name()
        oc = fn.owner_class()
        if sn and oc and fn.cls is not None:
            env[sn] = T(oc.qname)
        if fn.cls is not None and fn.is_classmethod and fn.params:
            env[fn.params[0].name] = T("type", (T(fn.cls.qname),))
        fn._env = env  # type: ignore[attr-defined]
        if isinstance(fn.node, ast.Lambda):
            return env
        for _ in range(2):  # two passes: later assignments may depend on earlier ones
            for n in self._walk_own(fn.node):
                if isinstance(n, ast.AnnAssign) and isinstance(n.target, ast.Name):
                    t = self.ann_to_type(n.annotation, m, fn)
                    if t and n.target.id not in env:
                        env[n.target.id] = t
                elif isinstance(n, ast.Assign) and getattr(n, "_ann", None) is not None and isinstance(n.targets[0], ast.Name):
                    t = self.ann_to_type(n._ann, m, fn)  # type: ignore[attr-defined]
                    if t and n.targets[0].id not in env:
                        env[n.targets[0].id] = t
                elif isinstance(n, ast.Assign) and len(n.targets) == 1:
                    tg = n.targets[0]
                    if isinstance(tg, ast.Name) and tg.id not in env:
                        t = self._static_type(n.value, m, fn, env)
                        if t and t.name != "None":
                            env[tg.id] = t
                    elif isinstance(tg, ast.Tuple):
                        t = self._static_type(n.value, m, fn, env)
                        if t and t.name == "tuple" and len(t.args) == len(tg.elts):
                            for el, et in zip(tg.elts, t.args):
                                if isinstance(el, ast.Name) and el.id not in env:
                                    env[el.id] = et
                elif isinstance(n, (ast.With, ast.AsyncWith)):
                    for it in n.items:
                        if isinstance(it.optional_vars, ast.Name) and it.optional_vars.id not in env:
                            t = self._static_type(it.context_expr, m, fn, env)
                            if t:
                                env[it.optional_vars.id] = t
                elif isinstance(n, (ast.For, ast.comprehension)):
                    t = self._static_type(n.iter, m, fn, env)
                    if t and t.name == "list" and t.args and isinstance(n.target, ast.Name) and n.target.id not in env:
                        env[n.target.id] = t.args[0]
                elif isinstance(n, ast.ExceptHandler) and n.name and n.type is not None:
                    dn = dotted(n.type)
                    if dn and n.name not in env:
                        env[n.name] = T("exc:" + dn)
        return env

    @staticmethod
    def _walk_own(node: ast.AST) -> Iterator[ast.AST]:
        """ast.walk in source order that does not descend into nested function definitions."""
        stack = list(reversed(list(ast.iter_child_nodes(node))))
        while stack:
            n = stack.pop()
            yield n
            if isinstance(n, (ast.FunctionDef, ast.AsyncFunctionDef, ast.Lambda, ast.ClassDef)):
                continue
            stack.extend(reversed(list(ast.iter_child_nodes(n))))

    # ------------------------------------------------------- call resolution
    BOTO_ATTRS = {"s3", "_s3"}
    LOGGER_NAMES = {"logger", "logging"}

    def resolve_call(self, call: ast.Call, fn: FunctionInfo) -> Callee:
        return self.resolve_call_static(call, fn.module, fn, self.local_env(fn))

    def resolve_call_static(self, call: ast.Call, m: Module, fn: Optional[FunctionInfo], env: Dict[str, T]) -> Callee:
        f = call.func
        text = norm_text(f)
        if isinstance(f, ast.Name):
            nm = f.id
            # nested function / closure
            g = fn
            while g is not None:
                if nm in g.nested:
                    return Callee("func", [g.nested[nm]])
                g = g.parent
            # parameter or local holding a callable
            g = fn
            while g is not None:
                if any(p.name == nm for p in g.params):
                    return Callee("param", name=nm)
                g = g.parent
            if nm in env and env[nm].name == "Callable":
                return Callee("param", name=nm)
            q = self.resolve_name(nm, m, fn)
            if q:
                ci = self.lookup_class(q)
                if ci:
                    init = self.find_method(ci, "__init__")
                    return Callee("ctor", [init] if init else [], cls=ci)
                fi = self.lookup_function(q)
                if fi:
                    return Callee("func", [fi])
                return Callee("prim", name=q)
            if fn is not None and self._is_local_var(nm, fn):
                return Callee("param", name=nm)
            if nm in BUILTIN_FUNCS or nm in BUILTIN_EXC:
                return Callee("prim", name="builtins." + nm)
            return Callee("unknown", name=text)
        if isinstance(f, ast.Attribute):
            # super().method(...)
            if isinstance(f.value, ast.Call) and isinstance(f.value.func, ast.Name) and f.value.func.id == "super":
                oc = fn.owner_class() if fn else None
                if oc:
                    for c in self.mro(oc)[1:]:
                        if f.attr in c.methods:
                            return Callee("func", [c.methods[f.attr]])
                    return Callee("prim", name="object." + f.attr)
            dn = dotted(f)
            if dn:
                root = dn.split(".")[0]
                parts = dn.split(".")
                if root in self.LOGGER_NAMES and root not in env:
                    return Callee("prim", name="logging." + parts[-1])
                # boto client: <anything>.s3.<method>
                if len(parts) >= 2 and parts[-2] in self.BOTO_ATTRS:
                    return Callee("prim", name="boto." + parts[-1])
            bt = self._static_type(f.value, m, fn, env)
            if bt is not None:
                if bt.name.startswith("module:"):
                    q = bt.name[len("module:"):] + "." + f.attr
                    fi = self.lookup_function(q)
                    if fi:
                        return Callee("func", [fi])
                    return Callee("prim", name=q)
                if bt.name == "type" and bt.args:
                    ci = self.lookup_class(bt.args[0].name)
                    if ci:
                        meth = self.find_method(ci, f.attr)
                        if meth:
                            return Callee("func", [meth], recv_type=bt)
                        # Enum member / class attribute call
                        return Callee("prim", name=f"{ci.qname}.{f.attr}")
                ci = self.lookup_class(bt.name)
                if ci:
                    impls = self.dispatch(ci, f.attr)
                    if impls:
                        return Callee("func", impls, recv_type=bt)
                    # attribute holding a callable?
                    return Callee("unknown", name=text, recv_type=bt)
                if bt.name in ("str", "bytes", "list", "dict", "set", "tuple", "int", "float", "bool"):
                    return Callee("prim", name=f"{bt.name}.{f.attr}", recv_type=bt)
                if bt.name.startswith("exc:"):
                    return Callee("prim", name=f"exc.{f.attr}", recv_type=bt)
                return Callee("prim", name=f"method.{f.attr}", recv_type=bt)
            return Callee("prim", name=f"method.{f.attr}")
        if isinstance(f, ast.Call):
            return Callee("unknown", name=text)
        return Callee("unknown", name=text)

    def _is_local_var(self, nm: str, fn: FunctionInfo) -> bool:
        g: Optional[FunctionInfo] = fn
        while g is not None:
            if not isinstance(g.node, ast.Lambda):
                for n in self._walk_own(g.node):
                    if isinstance(n, ast.Name) and n.id == nm and isinstance(n.ctx, ast.Store):
                        return True
            g = g.parent
        return False

    def is_known(self, f: FunctionInfo) -> bool:
        """Was this function part of the tree the rules were written against?  A function that is NOT known is a helper
        introduced by a later edit: the engine treats it as transparent (inlined into its callers, sinks attributed to them)."""
        if self.known is None:
            return True
        t = f
        while t.parent is not None and isinstance(t.node, ast.Lambda):
            t = t.parent
        if t.qname in self.known:
            return True
        # a known function that merely MOVED inside its module (method <-> module-level function, another class): same
        # module, same bare name, the old qualified name is gone and no other function of the module carries the name
        return self._moved_from(t) is not None

    def _moved_from(self, t: FunctionInfo) -> Optional[str]:
        if self.known is None or t.parent is not None:
            return None
        mod = t.module.name
        olds = [q for q in self.known if q.startswith(mod + ".") and q.split(".")[-1] == t.name and q not in self.functions
                and "<locals>" not in q]
        same = [x for x in self.functions.values() if x.module is t.module and x.name == t.name and x.parent is None]
        if len(olds) == 1 and len(same) == 1:
            return olds[0]
        return None

    def anchor(self, f: FunctionInfo) -> str:
        """The name a function is listed under in the rules' reasoned tables: its qualified name, or the one it had before it
        was moved inside its module (method <-> module-level function)."""
        return self._moved_from(f) or f.qname

    def is_transparent(self, f: FunctionInfo) -> bool:
        """A later-introduced helper that the CFG builder can inline into its callers (so its constructs are judged in
        their context).  Generators / coroutines cannot be inlined: they are judged as functions of their own."""
        if self.is_known(f) or isinstance(f.node, ast.Lambda) or f.is_property:
            return False
        return not any(isinstance(x, (ast.Yield, ast.YieldFrom, ast.Await)) for x in ast.walk(f.node))

    # ----------------------------------------------------------- conveniences
    def fn(self, qname: str) -> FunctionInfo:
        """Anchor lookup by qualified name ('transaction.Transaction.commit'); vanished => AnalysisError."""
        fi = self.functions.get(f"{PKG}.{qname}") or self.functions.get(qname)
        if fi is None:
            # moved inside its module (see is_known): the unique function of that module with the same bare name
            full = qname if qname.startswith(PKG + ".") else f"{PKG}.{qname}"
            for x in self.functions.values():
                if x.parent is None and self._moved_from(x) == full:
                    return x
            raise AnalysisError(f"anchor function vanished: {qname}")
        return fi

    def cls(self, qname: str) -> ClassInfo:
        ci = self.classes.get(f"{PKG}.{qname}") or self.classes.get(qname)
        if ci is None:
            raise AnalysisError(f"anchor class vanished: {qname}")
        return ci

    def const_str(self, e: Optional[ast.AST], m: Module, fn: Optional[FunctionInfo] = None,
                  depth: int = 0) -> Optional[str]:
        """Constant-fold a string expression through module / class constants."""
        if e is None or depth > 6:
            return None
        if isinstance(e, ast.Constant) and isinstance(e.value, str):
            return e.value
        if isinstance(e, ast.Name):
            if e.id in m.consts:
                return self.const_str(m.consts[e.id], m, None, depth + 1)
            q = self.resolve_name(e.id, m, fn)
            if q:
                mod, _, nm = q.rpartition(".")
                m2 = self.modules.get(mod)
                if m2 and nm in m2.consts:
                    return self.const_str(m2.consts[nm], m2, None, depth + 1)
            return None
        if isinstance(e, ast.Attribute):
            # self.CONST / Class.CONST / self.attr assigned a constant in __init__
            oc = fn.owner_class() if fn else None
            base = dotted(e.value)
            cands: List[ClassInfo] = []
            if oc and base == (fn.self_name() if fn else None):
                cands = self.mro(oc)
            elif base:
                q = self.resolve_name(base, m, fn)
                ci = self.lookup_class(q) if q else None
                if ci:
                    cands = self.mro(ci)
            for c in cands:
                if e.attr in c.consts:
                    return self.const_str(c.consts[e.attr], c.module, None, depth + 1)
                init = c.methods.get("__init__")
                if init is not None:
                    sn = init.self_name()
                    vals = []
                    for n in ast.walk(init.node):
                        if (isinstance(n, ast.Assign) and len(n.targets) == 1
                                and isinstance(n.targets[0], ast.Attribute)
                                and isinstance(n.targets[0].value, ast.Name)
                                and n.targets[0].value.id == sn and n.targets[0].attr == e.attr):
                            vals.append(n.value)
                    if len(vals) == 1:
                        return self.const_str(vals[0], c.module, init, depth + 1)
            return None
        if isinstance(e, ast.JoinedStr):
            out = []
            for v in e.values:
                if isinstance(v, ast.Constant):
                    out.append(str(v.value))
                elif isinstance(v, ast.FormattedValue):
                    s = self.const_str(v.value, m, fn, depth + 1)
                    out.append(s if s is not None else "\x00")
            return "".join(out)
        if isinstance(e, ast.BinOp) and isinstance(e.op, ast.Add):
            l, r = self.const_str(e.left, m, fn, depth + 1), self.const_str(e.right, m, fn, depth + 1)
            if l is None and r is None:
                return None
            return (l if l is not None else "\x00") + (r if r is not None else "\x00")
        return None

    def exc_parent(self, name: str) -> Optional[str]:
        name = EXC_ALIAS.get(name, name)
        if name in BUILTIN_EXC:
            return BUILTIN_EXC[name]
        short = name.split(".")[-1]
        for ci in self.classes.values():
            if ci.name == short or ci.qname == name:
                for b in ci.base_names:
                    return b.split(".")[-1] if b.split(".")[-1] in BUILTIN_EXC or self._is_exc_class(b) else b.split(".")[-1]
        if short in BUILTIN_EXC:
            return BUILTIN_EXC[short]
        return "Exception"  # unknown third-party exception: assume an Exception subclass

    def _is_exc_class(self, q: str) -> bool:
        return self.lookup_class(q) is not None

    def exc_is_subclass(self, name: str, ancestor: str) -> bool:
        name = EXC_ALIAS.get(name, name).split(".")[-1] if name not in BUILTIN_EXC else EXC_ALIAS.get(name, name)
        ancestor = EXC_ALIAS.get(ancestor, ancestor)
        anc_short = ancestor.split(".")[-1] if ancestor not in BUILTIN_EXC else ancestor
        seen = set()
        cur: Optional[str] = name
        while cur is not None and cur not in seen:
            if cur == anc_short or cur == ancestor:
                return True
            seen.add(cur)
            cur = self.exc_parent(cur)
        return False
