"""Registry of per-property rule modules."""
from __future__ import annotations

import importlib
from typing import Callable, Dict, Tuple

PROPS = [f"C{i:02d}" for i in range(1, 21)]


def load(pid: str):
    return importlib.import_module(f"sa.rules.{pid.lower()}")


def available() -> Dict[str, object]:
    out = {}
    for p in PROPS:
        try:
            out[p] = load(p)
        except ModuleNotFoundError as e:
            if f"sa.rules.{p.lower()}" not in str(e):
                raise
    return out
