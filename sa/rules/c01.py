"""C01 - concurrent commits are serializable (structural necessary conditions)."""
from __future__ import annotations

import ast
from typing import Dict, List, Optional, Set, Tuple

from ..cfg import NORMAL, Node
from ..core import Ctx
from ..flow import ALL, find_path, names_in
from ..model import AnalysisError, FunctionInfo, dotted, norm_text
from .common import (edge_target, hint_write_nodes, hint_writers, is_const, kwarg, normal_continuation, null_edges,
                     reachable_from)

EXPLANATION = (
    "Static analysis of the OCC protocol: (R1) def-use proof that a field compared by the validation is assigned a "
    "value strictly greater than the validated one before the commit point (a bare clock read is rejected - two "
    "reads of a millisecond clock can be equal); (R2) dominance: validation read and the three comparisons lie "
    "inside the thread lock + distributed lock and dominate the commit point, release post-dominates acquire on "
    "all exits incl. exceptional; (R3) reaching definitions: everything a retry iteration commits is derived "
    "inside that iteration from a fresh refresh(); (R5) exactly-once: begin() resets state, is_active() guards, "
    "one commit point per iteration, success implies _finish_committed; (R6) acquire/release typestate at every "
    "lock_provider.acquire() site; (R4) write-once names, shared with C09.R1."
    ' Also: (R3b) every retry loop around MetadataManager.commit rebuilds both arguments inside the iteration; (R7/R8) the local lock keeps its shape (non-blocking flock, the lock file is never unlinked in flock mode); (R9) an ambiguous failure is never retried as a clean conflict (handler order incl. class hierarchy).'
    ' (R10) nothing may raise out of commit() after the commit point (shared with C04.R2: a commit that raised is not reflected); (R11) success means committed: every normal exit of Transaction.commit() passed a commit-point call or is the empty-transaction return.'
    ' (R12) who-may-delete census (shared with C09.R3): no unsanctioned deleter can remove files of an acknowledged commit; (R13) every handler an AmbiguousCommitError can flow into re-raises (an ambiguous commit is never retried).'
    ' R2 also requires every definition of the validated object to be a read under the lock (or None).'
    " (R16) one lock per table: the lock provider's path is the backend's canonical resolution itself (C19.R10); (R17) a snapshot deletion repoints to the latest committed survivor (C09.R4)."
    ' R3 accepts attempt-invariant values computed once before the retry loop (derived from the queued operations only).'
    " R2 also requires the package calls that decide WHICH version is validated (the pointer read / recovery scan the validated file's name derives from) to run under the distributed lock.")
NOT_DECIDED = ("that flock / the S3 CAS lock actually excludes; the final-state-equals-serial-order statement "
               "over interleavings; linearity of the surviving chain at run time")


def check(ctx: Ctx) -> None:
    r1(ctx)
    r2(ctx)
    r3(ctx)
    r3b(ctx)
    from .c09 import r1_fresh_names
    r1_fresh_names(ctx, "C01.R4")
    r5(ctx)
    r6(ctx)
    # "storage with real mutual exclusion": the lock primitives the protocol relies on keep their shape
    from .c19 import r1 as c19_r1, r5 as c19_r5
    c19_r1(ctx, "C01.R7")
    c19_r5(ctx, "C01.R8")
    # an ambiguous failure must not be retried as a clean conflict (the same files would be committed twice)
    from .c04 import r3 as c04_r3
    n0 = len(ctx.obs)
    c04_r3(ctx)
    for o in ctx.obs[n0:]:
        o.rule = "C01.R9"
    ctx.rule_text["C01.R9"] = ctx.rule_text.pop("C04.R3")
    ctx.floors["C01.R9"] = ctx.floors.pop("C04.R3")
    # "every commit that raised is not reflected at all": nothing may raise out of commit() after the commit point
    from .c04 import r2 as c04_r2
    ctx.shared(c04_r2, "C04.R2", "C01.R10", "a commit that raised is not reflected")
    r11(ctx)
    # "every commit that returned success is reflected": no component outside the sanctioned owners deletes files
    from .c09 import r3 as c09_r3
    ctx.shared(c09_r3, "C09.R3", "C01.R12", "an unsanctioned deleter can remove the metadata / manifest / data files of an acknowledged commit")
    r13(ctx)
    # a retried conditional PUT mistakes its own first attempt for a conflict (or a foreign one for its own success)
    from .c20 import r3 as c20_r3
    ctx.shared(c20_r3, "C20.R3", "C01.R14", "the conditional pointer PUT is never retried")
    from .c08 import r9_cas_capability_consistent
    r9_cas_capability_consistent(ctx, "C01.R15")
    # mutual exclusion needs ONE lock per table, whoever opens it: the lock's identity is the canonical location itself
    from .c19 import lock_identity_canonical
    lock_identity_canonical(ctx, "C01.R16")
    # a snapshot deletion repoints `current` to the most recently COMMITTED survivor (log order, not timestamps): repointing to
    # an older one silently drops acknowledged commits from the chain
    from .c09 import r4 as c09_r4
    ctx.shared(c09_r4, "C09.R4", "C01.R17", "deleting the current snapshot falls back to the latest committed survivor")


def r13(ctx: Ctx) -> None:
    ctx.rule("C01.R13", "an ambiguous commit is never answered by doing the work again: every except-handler that an "
             "AmbiguousCommitError can flow into (named or broad) leaves by raising on every path - no retry loop, no default, "
             "no fall-through (the pointer write may have landed: a second attempt reflects the commit twice)", 2)
    from .common import handler_nodes, handler_exits, judged_in_callers
    from ..cfg import handler_classes
    for f in sorted(ctx.prog.functions.values(), key=lambda x: x.qname):
        if isinstance(f.node, ast.Lambda) or judged_in_callers(ctx, f):
            continue
        for hn in handler_nodes(ctx, f):
            if hn.id not in ctx.cfg(f).reachable():
                continue
            into = ctx.eff.into_handler.get((f.qname, id(hn.ast)), set())
            if "AmbiguousCommitError" not in into:
                continue
            ex = handler_exits(ctx, f, hn)
            ok = bool(ex["raise"]) and not (ex["fallthrough"] or ex["return"] or ex["loop"])
            ctx.ob("C01.R13", f, "handler reached by AmbiguousCommitError re-raises", hn, ok,
                   "re-raises / converts on every path" if ok else
                   "the handler can complete normally: the caller goes on (retries, or reports success) although the commit may "
                   "already be durable", text=",".join(handler_classes(hn.ast)))  # type: ignore[arg-type]


def commit_fn(ctx: Ctx) -> FunctionInfo:
    return ctx.fn("metadata_manager.MetadataManager.commit")


def commit_point_call(ctx: Ctx, f: FunctionInfo) -> Node:
    wq = {w.qname for w in hint_writers(ctx)}
    for n in hint_write_nodes(ctx, f):
        return n
    for n in ctx.cfg(f).calls():
        if any(t.qname in wq for t in ctx.eff.callees(f, n)):
            return n
    raise AnalysisError(f"no commit-point call in {f.qname}")


_VAL_BAD: Dict[str, list] = {}
_VAL_EXTRA: Dict[str, Tuple[List[Node], List[Node]]] = {}


def _as_attribute(ctx: Ctx, f: FunctionInfo, e: ast.AST, at: int, depth: int = 0) -> ast.AST:
    """`found` -> `current.last_updated_ms` when the local has one reaching definition `found = current.last_updated_ms`
    (also as an element of `expected, found = base.f, current.f`)."""
    if not isinstance(e, ast.Name) or depth > 3:
        return e
    g = ctx.cfg(f)
    defs = ctx.rd(f).reaching(at, e.id)
    if len(defs) != 1:
        return e
    d = next(iter(defs))
    dn = g.nodes[d]
    if d == g.entry or dn.kind != "stmt" or not isinstance(dn.ast, ast.Assign) or len(dn.ast.targets) != 1:
        return e
    t, v = dn.ast.targets[0], dn.ast.value
    if isinstance(t, ast.Name):
        return _as_attribute(ctx, f, v, d, depth + 1)
    if isinstance(t, (ast.Tuple, ast.List)) and isinstance(v, (ast.Tuple, ast.List)) and len(t.elts) == len(v.elts):
        for te, ve in zip(t.elts, v.elts):
            if isinstance(te, ast.Name) and te.id == e.id:
                return _as_attribute(ctx, f, ve, d, depth + 1)
    return e


def carriers(ctx: Ctx, f: FunctionInfo, cur: str) -> Set[str]:
    """Local names that can only hold the validated metadata object (or None): `cur` itself, a plain copy of a carrier, and
    the target that receives a carrier from the return value of a helper analysed in place (`info, current = self._validate(..)`
    with `return info, current` / `return None, None` inside)."""
    g = ctx.cfg(f)
    out = {cur}

    def carried(e: Optional[ast.AST]) -> bool:
        return (isinstance(e, ast.Name) and e.id in out) or (isinstance(e, ast.Constant) and e.value is None)

    def value_at(e: ast.AST, i: Optional[int]) -> bool:
        if isinstance(e, ast.Call) and id(e) in g.inline_returns:
            rets = g.inline_returns[id(e)]
            if not rets:
                return False
            for rv, _n in rets:
                if i is None:
                    if not carried(rv):
                        return False
                elif not (isinstance(rv, ast.Tuple) and i < len(rv.elts) and carried(rv.elts[i])):
                    return False
            return any((rv if i is None else rv.elts[i]) is not None and isinstance((rv if i is None else rv.elts[i]), ast.Name)  # type: ignore[union-attr]
                       for rv, _n in rets)
        if i is None:
            return isinstance(e, ast.Name) and e.id in out
        return isinstance(e, ast.Tuple) and i < len(e.elts) and isinstance(e.elts[i], ast.Name) and e.elts[i].id in out  # type: ignore[attr-defined]

    changed = True
    while changed:
        changed = False
        defs: Dict[str, List[bool]] = {}
        for n in g.nodes:
            a = n.ast
            if n.kind != "stmt" or not isinstance(a, ast.Assign) or len(a.targets) != 1:
                continue
            t = a.targets[0]
            if isinstance(t, ast.Name):
                defs.setdefault(t.id, []).append(value_at(a.value, None) or (isinstance(a.value, ast.Constant) and a.value.value is None))
            elif isinstance(t, (ast.Tuple, ast.List)):
                for i, te in enumerate(t.elts):
                    if isinstance(te, ast.Name):
                        defs.setdefault(te.id, []).append(value_at(a.value, i))
        for nm, oks in defs.items():
            if nm not in out and oks and all(oks) and not any(p_.name == nm for p_ in f.params):
                # every definition carries the validated object; one of them must be more than `= None`
                out.add(nm)
                changed = True
    return out


def validation(ctx: Ctx, f: FunctionInfo) -> Tuple[Node, str, str, Dict[str, Node]]:
    """(validation read call, name of the validated variable, name of the base parameter, {field: branch node})."""
    g = ctx.cfg(f)
    base = None
    for p in f.params:
        if "base" in p.name:
            base = p.name
    if base is None:
        raise AnalysisError("MetadataManager.commit has no base parameter")
    fields: Dict[str, Node] = {}
    cur_name: Optional[str] = None
    for b in g.nodes:
        if b.kind != "branch" or not isinstance(b.ast, ast.Compare) or len(b.ast.ops) != 1:
            continue
        if not isinstance(b.ast.ops[0], ast.NotEq):
            continue
        l, r = _as_attribute(ctx, f, b.ast.left, b.id), _as_attribute(ctx, f, b.ast.comparators[0], b.id)
        if not (isinstance(l, ast.Attribute) and isinstance(r, ast.Attribute) and l.attr == r.attr):
            continue
        ln, rn = dotted(l.value), dotted(r.value)
        if rn == base and ln and ln != base:
            cur = ln
        elif ln == base and rn and rn != base:
            cur = rn
        else:
            continue
        t = edge_target(g, b, "true")
        # the true-branch must end in a raise without rejoining
        if t is None:
            continue
        reach = reachable_from(g, t, NORMAL)
        if g.exit in reach:
            continue
        fields[l.attr] = b
        cur_name = cur
    if not fields or cur_name is None:
        raise AnalysisError("no base-vs-current validation comparisons found in MetadataManager.commit")
    # the validation read: the definition of cur_name reaching the comparisons
    rd = ctx.rd(f)
    b0 = next(iter(fields.values()))
    defs = rd.reaching(b0.id, cur_name)
    reads = []
    none_defs = 0
    none_nodes = []
    for d in defs:
        dn = g.nodes[d]
        if isinstance(dn.ast, (ast.Assign, ast.AnnAssign)) and isinstance(dn.ast.value, ast.Constant) and dn.ast.value.value is None:
            none_defs += 1  # `current = None` on the no-table branch
            none_nodes.append(dn)
            continue
        if isinstance(dn.ast, (ast.Assign, ast.AnnAssign)) and isinstance(dn.ast.value, (ast.Call, ast.IfExp)):
            # the defining statement is the validation read, provided its value comes from a metadata read
            org = ctx.slicer(f).origins(dn.ast.value, d)
            if any(isinstance(c, ast.Call) and (dotted(c.func) or "").split(".")[-1] in
                   ("refresh", "_read_metadata_file", "read_json", "_current_version_info") for c in org["calls"]):
                reads.append(dn)
    if not reads:
        raise AnalysisError("validation read (definition of the validated metadata) not found")
    # a definition that is neither a read nor `None` (the caller's base re-used, a remembered object): reported by R2
    _VAL_BAD[f.qname] = [g.nodes[d] for d in defs if g.nodes[d] not in reads and g.nodes[d] not in none_nodes]
    _VAL_EXTRA[f.qname] = (reads, none_nodes)
    return reads[0], cur_name, base, fields


def _strictly_advances(e: Optional[ast.AST], vars_: Set[str], field: str, ctx: Ctx, f: FunctionInfo, at: int,
                       depth: int = 0) -> bool:
    """Is `e` provably > <var>.<field> for the validated/base variable?  Accepted shapes:
    X.f + k (k>0);  max(..., X.f + k, ...);  (A if X else B) with A accepted (X absent => nothing to advance past);
    a local variable all of whose reaching definitions are accepted."""
    if e is None or depth > 6:
        return False
    g0 = ctx.cfg(f)

    def is_field(a: ast.AST) -> bool:
        """X.f itself, or a local / helper parameter every definition of which is X.f (or `X.f if X else None`: absent => None)"""
        if isinstance(a, ast.Attribute) and a.attr == field and dotted(a.value) in vars_:
            return True
        if isinstance(a, ast.IfExp):
            tn_ = dotted(a.test) or (dotted(a.test.left) if isinstance(a.test, ast.Compare) and a.test.left is not None else None)
            if tn_ in vars_:
                neg_ = isinstance(a.test, ast.Compare) and isinstance(a.test.ops[0], ast.Is)
                good_, other_ = (a.orelse, a.body) if neg_ else (a.body, a.orelse)
                return is_field(good_) and isinstance(other_, ast.Constant) and other_.value is None
            return False
        if isinstance(a, ast.Name):
            ds = [d for d in ctx.rd(f).reaching(at, a.id)]
            if not ds or g0.entry in ds:
                return False
            return all(isinstance(g0.nodes[d].ast, ast.Assign) and len(g0.nodes[d].ast.targets) == 1
                       and isinstance(g0.nodes[d].ast.targets[0], ast.Name) and is_field(g0.nodes[d].ast.value) for d in ds)
        return False

    def positive(b: ast.AST) -> bool:
        if isinstance(b, ast.Constant):
            return isinstance(b.value, int) and not isinstance(b.value, bool) and b.value > 0
        from .common import concrete_eval, UNKNOWN
        v = concrete_eval(ctx, f, b, {}, at)  # a named step: `_STEP_MS`, `_duration_ms(timedelta(milliseconds=1))`
        return v is not UNKNOWN and isinstance(v, int) and not isinstance(v, bool) and v > 0

    if isinstance(e, ast.BinOp) and isinstance(e.op, ast.Add):
        for a, b in ((e.left, e.right), (e.right, e.left)):
            if is_field(a) and positive(b):
                return True
        return False
    if isinstance(e, ast.Call) and id(e) in g0.inline_returns:
        # the stamp is computed by a helper analysed in place: every value it returns advances - except on the return that is
        # taken only when the validated version is absent (`if previous is None: return now()`)
        from .common import facts_at
        outs = g0.inline_returns[id(e)]
        if not outs:
            return False
        for rexpr, rn in outs:
            absent = False
            for pol, fe, _a in facts_at(ctx, f, g0.nodes[rn]):
                if pol == "true" and isinstance(fe, ast.Compare) and len(fe.ops) == 1 and isinstance(fe.ops[0], ast.Is) \
                        and isinstance(fe.comparators[0], ast.Constant) and fe.comparators[0].value is None and is_field_at(fe.left, rn, vars_, field, ctx, f):
                    absent = True
            if absent:
                continue
            if rexpr is None or not _strictly_advances(rexpr, vars_, field, ctx, f, rn, depth + 1):
                return False
        return True
    if isinstance(e, ast.Call) and isinstance(e.func, ast.Name) and e.func.id == "max":
        return any(_strictly_advances(a, vars_, field, ctx, f, at, depth + 1) for a in e.args)
    if isinstance(e, ast.IfExp):
        tn = dotted(e.test) or (dotted(e.test.left) if isinstance(e.test, ast.Compare) and e.test.left is not None else None)
        if tn in vars_:
            # `A if current else B` / `A if current is not None else B`
            neg = isinstance(e.test, ast.Compare) and isinstance(e.test.ops[0], ast.Is)
            good = e.orelse if neg else e.body
            return _strictly_advances(good, vars_, field, ctx, f, at, depth + 1)
        return _strictly_advances(e.body, vars_, field, ctx, f, at, depth + 1) and \
            _strictly_advances(e.orelse, vars_, field, ctx, f, at, depth + 1)
    if isinstance(e, ast.Name):
        g = ctx.cfg(f)
        defs = ctx.rd(f).reaching(at, e.id)
        if not defs:
            return False
        ok = True
        for d in defs:
            dn = g.nodes[d]
            rhs = dn.ast.value if isinstance(dn.ast, (ast.Assign, ast.AnnAssign)) else None
            if not _strictly_advances(rhs, vars_, field, ctx, f, d, depth + 1):
                # `s = now(); if cur and s <= cur.f: s = cur.f + 1; stamp = s`: the clock value survives to the use only past the
                # FALSE edge of `s <= cur.f` (so s > cur.f there); on the true side it is replaced by an advancing value
                if not _guarded_by_step_branch(ctx, f, e.id, d, at, vars_, field):
                    ok = False
        return ok
    return False


def is_field_at(a: ast.AST, at: int, vars_: Set[str], field: str, ctx: Ctx, f: FunctionInfo) -> bool:
    """`a` (a name tested against None) stands for the validated field: every definition reaching `at` is `X.f if X else None`."""
    g = ctx.cfg(f)
    if not isinstance(a, ast.Name):
        return False
    ds = ctx.rd(f).reaching(at, a.id)
    if not ds or g.entry in ds:
        return False
    for d in ds:
        v = g.nodes[d].ast.value if isinstance(g.nodes[d].ast, ast.Assign) else None
        if not isinstance(v, ast.IfExp):
            return False
        tn = dotted(v.test) or (dotted(v.test.left) if isinstance(v.test, ast.Compare) and v.test.left is not None else None)
        if tn not in vars_:
            return False
        neg = isinstance(v.test, ast.Compare) and isinstance(v.test.ops[0], ast.Is)
        good, other = (v.orelse, v.body) if neg else (v.body, v.orelse)
        if not (isinstance(good, ast.Attribute) and good.attr == field and dotted(good.value) in vars_
                and isinstance(other, ast.Constant) and other.value is None):
            return False
    return True


def _guarded_by_step_branch(ctx: Ctx, f: FunctionInfo, var: str, d: int, at: int, vars_: Set[str], field: str) -> bool:
    g = ctx.cfg(f)
    other_defs = [n.id for n in g.nodes if n.id != d and n.kind == "stmt" and isinstance(n.ast, (ast.Assign, ast.AugAssign))
                  and any(isinstance(t, ast.Name) and t.id == var for t in (n.ast.targets if isinstance(n.ast, ast.Assign) else [n.ast.target]))]
    for b in g.nodes:
        if b.kind != "branch" or b.ast is None:
            continue
        cmp_ = b.ast
        # the short-circuit `cur and s <= cur.f` arrives as two branches; the comparison is the one that matters
        if not (isinstance(cmp_, ast.Compare) and len(cmp_.ops) == 1):
            continue
        l, r = cmp_.left, cmp_.comparators[0]
        op = cmp_.ops[0]
        is_fld = lambda x: isinstance(x, ast.Attribute) and x.attr == field and dotted(x.value) in vars_  # noqa: E731
        strict_false = (isinstance(l, ast.Name) and l.id == var and is_fld(r) and isinstance(op, ast.LtE)) or \
                       (isinstance(r, ast.Name) and r.id == var and is_fld(l) and isinstance(op, ast.GtE))
        if not strict_false:
            continue
        # every path from the definition to the use passes this branch ...
        def _absent_edge(s_: int, d_: int, l_: str) -> bool:
            """the edge on which the validated version does not exist (`if current and ...` false side): nothing to advance past"""
            n_ = g.nodes[s_]
            if n_.kind != "branch" or n_.ast is None:
                return False
            a_ = n_.ast
            if isinstance(a_, ast.Name) and a_.id in vars_:
                return l_ == "false"
            if isinstance(a_, ast.Compare) and len(a_.ops) == 1 and isinstance(a_.left, ast.Name) and a_.left.id in vars_ \
                    and isinstance(a_.comparators[0], ast.Constant) and a_.comparators[0].value is None:
                return l_ == ("true" if isinstance(a_.ops[0], ast.Is) else "false")
            return False
        if find_path(g, d, [at], avoid=[b.id], labels=NORMAL, edge_ok=lambda s_, d_, l_: not _absent_edge(s_, d_, l_)) is not None:
            continue
        # ... and on its true side the clock value does not survive to the use (an advancing value replaces it)
        t = edge_target(g, b, "true")
        if t is None:
            continue
        if t == at or find_path(g, t, [at], avoid=other_defs, labels=NORMAL) is not None:
            continue
        if not all(_strictly_advances(g.nodes[o].ast.value, vars_, field, ctx, f, o, 1) for o in other_defs
                   if isinstance(g.nodes[o].ast, ast.Assign) and o in reachable_from(g, t, NORMAL) and find_path(g, o, [at], labels=NORMAL) is not None):
            continue
        return True
    return False


def r1(ctx: Ctx) -> None:
    ctx.rule("C01.R1", "version-stamp freshness: between validation and the commit point some validated field of the "
             "new metadata is assigned a value strictly greater than the validated one (a bare clock read does not "
             "qualify), on every path, for every committer", 1)
    f = commit_fn(ctx)
    g = ctx.cfg(f)
    read, cur, base, fields = validation(ctx, f)
    cp = commit_point_call(ctx, f)
    dom = ctx.dom(f, NORMAL)
    newp = next((p.name for p in f.params if "new" in p.name), None)
    if newp is None:
        raise AnalysisError("MetadataManager.commit has no new-metadata parameter")
    rd = ctx.rd(f)
    curs = carriers(ctx, f, cur)
    cands: List[Tuple[str, Node, bool]] = []
    good_fields = []
    # a stamp assignment on the NO-TABLE side of the existence guard needs no advance (nothing to advance past)
    guard_false_reach: Set[int] = set()
    for b in g.nodes:
        if b.kind == "branch" and isinstance(b.ast, ast.Name) and b.ast.id in curs:
            fl, tr = edge_target(g, b, "false"), edge_target(g, b, "true")
            if fl is not None:
                fr_ = reachable_from(g, fl, NORMAL)
                tr_ = reachable_from(g, tr, NORMAL) if tr is not None else set()
                guard_false_reach |= {x for x in fr_ if x not in tr_}
    for fld in fields:
        defs = rd.reaching(cp.id, f"{newp}.{fld}")
        if not defs:
            continue
        ok_all = True
        for d in defs:
            n = g.nodes[d]
            if d == g.entry or not isinstance(n.ast, ast.Assign):
                ok_all = False
                continue
            adv = _strictly_advances(n.ast.value, curs | {base}, fld, ctx, f, n.id)
            cands.append((fld, n, adv))
            if not adv and d not in guard_false_reach:
                ok_all = False
        if ok_all and g.entry not in defs:
            good_fields.append(fld)
    good = good_fields
    anchor = cands[0][1] if cands else cp
    detail = ("validated fields " + str(sorted(fields)) + "; stamp assignments reaching the commit point: "
              + str([(a, norm_text(n.ast)[:90], ok) for a, n, ok in cands]))
    ctx.ob("C01.R1", f, "OCC stamp strictly advances past the validated version", anchor, bool(good),
           "a stale-base commit must always fail validation: " + detail +
           ("" if good else "; no validated field is provably > the validated value on every path "
            "(a clock read can repeat within one tick, so a metadata-only commit leaves every compared field unchanged)"))


def r2(ctx: Ctx) -> None:
    ctx.rule("C01.R2", "validate inside the critical section: thread lock and distributed lock dominate the validation "
             "read; every validation comparison dominates the commit point; the lock is released on every exit "
             "and never before the commit point", 6)
    f = commit_fn(ctx)
    g = ctx.cfg(f)
    read, cur, base, fields = validation(ctx, f)
    cp = commit_point_call(ctx, f)
    dom = ctx.dom(f, ALL)
    acq = ctx.calls(f, lock="acquire")
    if not acq:
        raise AnalysisError("no lock_provider.acquire() in MetadataManager.commit")
    a = acq[0]
    wl = [n for n in g.nodes if n.kind == "with_enter" and "_lock" in n.text]
    ctx.ob("C01.R2", f, "thread lock dominates distributed acquire", a, bool(wl) and any(w.id in dom[a.id] for w in wl),
           "`with self._lock` encloses the distributed lock acquisition")
    all_reads, none_defs = _VAL_EXTRA[f.qname]
    ctx.ob("C01.R2", f, "acquire dominates validation read", read, all(a.id in dom[r_.id] for r_ in all_reads),
           "the validation refresh() happens while holding the lock")
    # ... and so does the resolution of WHICH version is validated: the package calls that the validated file's name derives
    # from (the pointer read / recovery scan) run under the distributed lock too - a version resolved before the lock is
    # acquired can be superseded by the time it is compared, numbered from and replaced
    sl_ = ctx.slicer(f)
    for r_ in all_reads:
        org_ = sl_.origins(r_.ast, r_.id)
        for c_ in [n_ for n_ in g.calls() if n_.ast in org_["calls"] and n_.callee is not None and n_.callee.kind == "func" and n_.id != r_.id
                   and any(t_.module.short == "metadata_manager" for t_ in n_.callee.funcs)]:
            ctx.ob("C01.R2", f, "acquire dominates the resolution of the validated version", c_, a.id in dom[c_.id],
                   f"`{c_.text[:60]}` decides which metadata version is read, compared and numbered from: it runs while holding the lock",
                   text=c_.text[:40])
    # a path may skip a comparison only through the false edge of the `if <current>` existence guard
    guard_false = {(b.id, d) for b in g.nodes if b.kind == "branch" and isinstance(b.ast, ast.Name) and b.ast.id == cur
                   for d, l in g.succ[b.id] if l == "false"}
    for fld in ("table_uuid", "current_snapshot_id", "last_updated_ms"):
        b = fields.get(fld)
        w = None
        if b is not None:
            w = find_path(g, read.id, [cp.id], avoid=[b.id], labels=NORMAL,
                          edge_ok=lambda s, d, l: (s, d) not in guard_false)
        ctx.ob("C01.R2", f, f"comparison of {fld} dominates the commit point", b, b is not None and w is None,
               f"no path from the validation read to the pointer flip avoids comparing {fld} while current metadata "
               f"exists (true-branch raises)", text=fld, witness=ctx.path_witness(f, w))
    for bd in _VAL_BAD.get(f.qname, []):
        ctx.ob("C01.R2", f, "the validated metadata is read under the lock on every path", bd, False,
               f"`{bd.text[:80]}`: on this path the object the base is compared with is not a fresh read of the current version (the "
               "caller's own base / a remembered object compares equal to itself): a stale base passes validation", text="validated-def")
    okdefs = {r_.id for r_ in all_reads} | {n_.id for n_ in none_defs}
    for fld, b in fields.items():
        ds = set(ctx.rd(f).reaching(b.id, cur))
        ctx.ob("C01.R2", f, f"validation read dominates comparison {fld}", b, bool(ds) and ds <= okdefs and all(a.id in dom[d] for d in ds),
               "the compared value is the one read under the lock (every reaching definition is the validation read)", text=fld)
    # the `current and ...` guard must not skip validation when metadata exists: the guard variable is `cur`
    rel_fns = {ctx.fn("metadata_manager.MetadataManager._release_lock_safely").qname}
    rel = [n for n in g.calls() if ctx.eff.lock_op(n) == "release" or any(t.qname in rel_fns for t in ctx.eff.callees(f, n))]
    first_after = [d for d, l in g.succ[a.id] if l in NORMAL]
    w = None
    for s in first_after:
        w = find_path(g, s, [g.exit, g.raise_exit], avoid=[r.id for r in rel], labels=ALL)
        if w:
            break
    ctx.ob("C01.R2", f, "release post-dominates acquire on all exits", a, w is None and bool(rel),
           "every exit after a successful acquire (normal and exceptional) passes a lock release",
           witness=ctx.path_witness(f, w))
    early = [r for r in rel if cp.id in reachable_from(g, r.id, NORMAL)]
    ctx.ob("C01.R2", f, "no release before the commit point", cp, not early,
           "the pointer flip happens while the lock is still held")


def r3(ctx: Ctx) -> None:
    ctx.rule("C01.R3", "a retry re-derives everything from a fresh base: the base handed to the commit point is read "
             "inside the retry loop; snapshot id, sequence number, manifests and the manifest list are derived "
             "inside the attempt", 6)
    f = ctx.fn("transaction.Transaction.commit")
    g = ctx.cfg(f)
    rd = ctx.rd(f)
    from .c04 import commit_chain
    cps = [n for ff, n, _w in commit_chain(ctx) if ff.qname == f.qname]
    loops = [n for n in g.nodes if n.kind == "loop_head"]
    if not loops or not cps:
        raise AnalysisError("retry loop / commit-point calls not found in Transaction.commit")
    loop_ast = loops[0].ast
    for cp in cps:
        call = cp.ast
        assert isinstance(call, ast.Call)
        for arg in list(call.args) + [k.value for k in call.keywords]:
            for nm in sorted(names_in(arg)):
                if nm.startswith("self") or nm in ("None",):
                    continue
                defs = rd.reaching(cp.id, nm)
                if not defs and "." in nm:
                    continue  # an attribute of a local object (`queued.append_files`): judged through its root variable
                inside = [d for d in defs if any(fr.kind == "loop" and fr.node is loop_ast for fr in g.nodes[d].frames)]
                ok = bool(defs) and len(inside) == len(defs)
                if defs and not ok:
                    # attempt-INVARIANT values may be computed once: what is derived from the queued operations alone (the
                    # partition of self._operations into files / paths / cutoff) is the same on every attempt.  Anything that reads
                    # table state, the clock or a random source is not.
                    PURE = {"int", "max", "min", "list", "set", "dict", "tuple", "frozenset", "len", "sorted", "isinstance", "str", "bool",
                            "extend", "update", "append", "add", "get", "setdefault", "items", "values", "keys", "lstrip", "groupby", "itemgetter"}
                    sl3 = ctx.slicer(f)
                    inv = True
                    for d in defs:
                        if d in inside:
                            continue
                        dn = g.nodes[d]
                        rhs = dn.ast.value if isinstance(dn.ast, ast.Assign) else None
                        if d == g.entry or rhs is None:
                            inv = False
                            break
                        org = sl3.origins(rhs, d)
                        for nm2 in org["names"]:
                            if nm2 == "self" or nm2.startswith("self._operations") or "." not in nm2:
                                continue
                            inv = False
                        if org["params"] - {"self"}:
                            inv = False
                        for c_ in org["calls"]:
                            if not isinstance(c_, ast.Call):
                                continue
                            leaf = (dotted(c_.func) or (c_.func.attr if isinstance(c_.func, ast.Attribute) else "?")).split(".")[-1]
                            try:
                                cal = ctx.prog.resolve_call(c_, f)
                            except Exception:
                                cal = None
                            rec = cal is not None and cal.kind == "ctor" and cal.cls is not None and (cal.cls.is_dataclass or any(
                                b.rsplit(".", 1)[-1] == "NamedTuple" for b in cal.cls.base_names))
                            helper = cal is not None and cal.kind == "func" and cal.funcs and all(ctx.prog.is_transparent(t_) for t_ in cal.funcs)
                            if leaf not in PURE and not rec and not helper:
                                inv = False
                    ok = inv
                ctx.ob("C01.R3", f, f"argument `{nm}` of commit-point call is defined inside the retry iteration", cp, ok,
                       f"no value computed before the loop / in an earlier iteration flows into a later attempt "
                       f"(defs at lines {[g.nodes[d].lineno for d in defs]})", text=nm + "@" + (cp.callee.funcs[0].name if cp.callee and cp.callee.funcs else "?"))
                if "base" in nm:
                    fresh = all(isinstance(g.nodes[d].ast, ast.Assign) and any(
                        c.stmt is g.nodes[d].ast and any(t.name == "refresh" for t in ctx.eff.callees(f, c)) for c in g.calls())
                        for d in defs)
                    if ok and not fresh:
                        # through aliases / a helper analysed in place (`def helper(update, base=None): if base is None: base =
                        # refresh()`): every source of the value is a refresh() made inside the iteration
                        from .common import resolve_value
                        srcs_ = resolve_value(ctx, f, ast.Name(id=nm, ctx=ast.Load()), cp.id)
                        fresh = bool(srcs_) and all(
                            isinstance(x_, ast.Call) and (dotted(x_.func) or "").split(".")[-1] == "refresh"
                            and any(fr.kind == "loop" and fr.node is loop_ast for fr in g.nodes[a_].frames) for x_, a_ in srcs_)
                    ctx.ob("C01.R3", f, "base metadata is a fresh refresh() of this iteration", cp, ok and fresh,
                           "the OCC base is re-read on every attempt", text=nm + "@" + (cp.callee.funcs[0].name if cp.callee and cp.callee.funcs else "?"))
    cf = ctx.fn("transaction.Transaction._commit_file_ops")
    cg = ctx.cfg(cf)
    sl = ctx.slicer(cf)
    allowed_self = {"self", "self.file_manager", "self.snapshot_manager", "self._register_inflight",
                    "self.file_manager.storage", "self.metadata_manager"}
    for n in cg.calls():
        names = [t.name for t in ctx.eff.callees(cf, n)]
        if not any(x in ("create_manifest_file", "create_manifest_list_file", "create_snapshot") for x in names):
            continue
        call = n.ast
        assert isinstance(call, ast.Call)
        bad: Set[str] = set()
        for arg in list(call.args) + [k.value for k in call.keywords]:
            org = sl.origins(arg, n.id)
            for nm in org["names"]:
                if nm.startswith("self.") and not any(nm == a or nm.startswith(a + ".") for a in allowed_self) \
                        and not any(a.startswith(nm) for a in allowed_self):
                    bad.add(nm)
        ctx.ob("C01.R3", cf, f"{names[0]} arguments derive from this attempt only", n, not bad,
               "manifests / list / snapshot arguments depend on parameters and locals of this call, not on "
               f"transaction-level state carried across attempts{' (offending: ' + str(sorted(bad)) + ')' if bad else ''}")
    # snapshot id / sequence number definitions - the variables are found by ROLE (what is passed to create_snapshot)
    cs_calls = ctx.calls(cf, name="create_snapshot")
    if not cs_calls:
        raise AnalysisError("create_snapshot call vanished from _commit_file_ops")
    for kw, need in (("snapshot_id", "uuid4"), ("sequence_number", "last_sequence_number")):
        a = kwarg(cs_calls[0].ast, kw)
        if not isinstance(a, ast.Name):
            ctx.ob("C01.R3", cf, f"{kw} is passed to create_snapshot as a per-attempt local", cs_calls[0], False,
                   f"create_snapshot({kw}=...) must receive the id stamped into this attempt's manifests", text=kw)
            continue
        var = a.id
        defs = [n for n in cg.nodes if n.kind == "stmt" and isinstance(n.ast, (ast.Assign, ast.AnnAssign))
                and any(isinstance(t, ast.Name) and t.id == var for t in (n.ast.targets if isinstance(n.ast, ast.Assign) else [n.ast.target]))]
        ok = len(defs) == 1 and need in norm_text(defs[0].ast.value)
        if len(defs) == 1 and not ok:
            # through a helper analysed in place (`snapshot_id = _new_snapshot_id()`): its return expressions decide
            from .common import resolve_value
            srcs = [x for x, _a in resolve_value(ctx, cf, defs[0].ast.value, defs[0].id)]
            ok = bool(srcs) and all(x is not None and need in norm_text(x) for x in srcs)
        ctx.ob("C01.R3", cf, f"single definition of {kw} per attempt", defs[0] if defs else None, ok,
               f"{kw} is derived once per attempt from {need}", text=kw)


from .common import judged_in_callers as judged_in_callers_, reachable_from  # noqa: E402


def r3b(ctx: Ctx) -> None:
    ctx.rule("C01.R3b", "every retry loop around MetadataManager.commit rebuilds BOTH arguments inside the iteration (a retried commit "
             "never re-sends metadata derived from an earlier, stale base)", 1)
    cq = commit_fn(ctx).qname
    n_sites = 0
    for f in ctx.prog.functions.values():
        if isinstance(f.node, ast.Lambda):
            continue
        g = ctx.cfg(f)
        rd = ctx.rd(f)
        for n in g.calls():
            if not any(t.qname == cq for t in ctx.eff.callees(f, n)):
                continue
            n_sites += 1
            loops = [fr.node for fr in n.frames if fr.kind == "loop"]
            if not loops:
                ctx.ob("C01.R3b", f, "commit call site (not in a retry loop)", n, True, "single attempt: nothing can be carried over", nontrivial=False)
                continue
            call = n.ast
            assert isinstance(call, ast.Call)
            stale = []
            sl = ctx.slicer(f)
            for arg in list(call.args) + [k.value for k in call.keywords]:
                for nm in names_in(arg):
                    if nm.startswith("self"):
                        continue
                    for d in rd.reaching(n.id, nm):
                        if d == g.entry or not any(fr.kind == "loop" and fr.node in loops for fr in g.nodes[d].frames):
                            stale.append(f"`{nm}` defined at line {g.nodes[d].lineno if d != g.entry else f.lineno} (outside the loop)")
            ctx.ob("C01.R3b", f, "both commit arguments are rebuilt inside the retry iteration", n, not stale,
                   "a retry that refreshes only the base but re-commits the old new_metadata passes validation and erases every "
                   "commit that landed in between" + (f"; {sorted(set(stale))}" if stale else ""))
    if n_sites < 3:
        raise AnalysisError(f"only {n_sites} MetadataManager.commit call sites found")
    # ONE read decides: what a committing function changes is computed from the very metadata object it hands to commit() as the
    # base - a second refresh() between the decision and the commit lets a foreign commit slip in between (the change is made for
    # one table state and validated against another: `delete_snapshot(S2)` removes S3)
    from .common import resolve_value
    for f in sorted(ctx.prog.functions.values(), key=lambda x: x.qname):
        if isinstance(f.node, ast.Lambda) or judged_in_callers_(ctx, f):
            continue
        g = ctx.cfg(f)
        for n in g.calls():
            if not any(t.qname == cq for t in ctx.eff.callees(f, n)) or not isinstance(n.ast, ast.Call) or not n.ast.args:
                continue
            base_reads = {id(x) for x, _a in resolve_value(ctx, f, n.ast.args[0], n.id)
                          if isinstance(x, ast.Call) and (dotted(x.func) or "").split(".")[-1] == "refresh"}
            if not base_reads:
                continue  # the base is a parameter: judged where the function is called
            loops = [fr.node for fr in n.frames if fr.kind == "loop"]
            extra = []
            for r in g.calls():
                if not (isinstance(r.ast, ast.Call) and (dotted(r.ast.func) or "").split(".")[-1] == "refresh" and id(r.ast) not in base_reads):
                    continue
                if r.id not in g.reachable() or n.id not in reachable_from(g, r.id, NORMAL):
                    continue
                if loops and not any(fr.kind == "loop" and fr.node in loops for fr in r.frames):
                    continue  # a read before the retry loop (never the base of an attempt)
                extra.append(r)
            ctx.ob("C01.R3b", f, "the committed base is the only metadata read of the attempt", n, not extra,
                   "one refresh() decides what changes and is the base commit() validates" if not extra else
                   f"a second metadata read (`{extra[0].text[:50]}`, line {extra[0].lineno}) lies on the way to this commit: the change is "
                   "derived from one table state and validated against another")


def r5(ctx: Ctx, rid: str = "C01.R5") -> None:
    ctx.rule(rid, "applied exactly once: begin() resets per-transaction state; the is_active() guard dominates "
             "commit; every `return True` passes _finish_committed; at most one commit point per loop iteration; "
             "the empty-operations branch reaches no commit point", 7)
    b = ctx.fn("transaction.Transaction.begin")
    bg = ctx.cfg(b)
    dom_b = ctx.dom(b, NORMAL)
    rets = [n for n in bg.nodes if n.kind == "return"]
    for attr in ("_operations", "_written_files", "_inflight_markers"):
        sets = [n for n in bg.nodes if n.kind == "stmt" and isinstance(n.ast, ast.Assign)
                and any(norm_text(t) == f"self.{attr}" for t in n.ast.targets)
                and isinstance(n.ast.value, ast.List) and not n.ast.value.elts]
        ok = bool(sets) and all(any(s.id in dom_b[r.id] for s in sets) for r in rets if r.id in dom_b)
        ctx.ob(rid, b, f"begin() resets self.{attr}", sets[0] if sets else None, ok,
               "a reused Transaction object never re-applies a previous transaction's state", text=attr)
    f = ctx.fn("transaction.Transaction.commit")
    g = ctx.cfg(f)
    dom = ctx.dom(f, NORMAL)
    guards = [n for n in g.nodes if n.kind == "branch" and "is_active" in n.text]
    from .c04 import commit_chain, deactivators
    cps = [n for ff, n, _w in commit_chain(ctx) if ff.qname == f.qname]
    okg = False
    for gd in guards:
        fl = edge_target(g, gd, "false")
        if fl is not None and g.exit not in reachable_from(g, fl, NORMAL) and all(gd.id in dom[c.id] for c in cps):
            okg = True
    ctx.ob(rid, f, "is_active() guard dominates every commit point", guards[0] if guards else None, okg,
           "an inactive (committed / rolled back) transaction can never reach the commit point again")
    deact = deactivators(ctx)
    fin = [n for n in g.calls() if any(t.name in deact and t.name == "_finish_committed" for t in ctx.eff.callees(f, n))]
    for r in [n for n in g.nodes if n.kind == "return" and is_const(n.ast.value, True)]:  # type: ignore[union-attr]
        ok = any(x.id in dom[r.id] for x in fin)
        ctx.ob(rid, f, "`return True` is dominated by _finish_committed", r, ok,
               "a successful commit always deactivates the transaction (it cannot be committed twice)")
    ctx.ob(rid, ctx.fn("transaction.Transaction._finish_committed"), "_finish_committed deactivates", None,
           "_finish_committed" in deact, "sets _is_active = False on every path", nontrivial=True)
    heads = [n.id for n in g.nodes if n.kind == "loop_head"]
    for i, c1 in enumerate(cps):
        for c2 in cps:
            if c1 is c2:
                continue
            st = [d for d, l in g.succ[c1.id] if l in NORMAL]
            w = None
            for s in st:
                w = find_path(g, s, [c2.id], avoid=heads, labels=NORMAL) if s != c2.id else [s]
                if w:
                    break
            ctx.ob(rid, f, "one commit point per iteration", c1, w is None,
                   "no path runs two commit-point calls within one attempt", witness=ctx.path_witness(f, w),
                   text=f"{c1.text[:40]} -> {c2.text[:40]}")
    # empty-operations branch
    eb = [n for n in g.nodes if n.kind == "branch" and norm_text(n.ast) == "self._operations"]
    ok = False
    for e in eb:
        fl = edge_target(g, e, "false")
        if fl is not None:
            reach = reachable_from(g, fl, NORMAL, avoid=[])
            # the empty branch must return before any commit point
            w = find_path(g, fl, [c.id for c in cps], labels=NORMAL)
            # allowed: none reachable without passing a return -> returns have no NORMAL succ to cps anyway
            ok = w is None
            break
    ctx.ob(rid, f, "empty transaction reaches no commit point", eb[0] if eb else None, ok or not eb,
           "an empty commit creates no snapshot / metadata version")


def r11(ctx: Ctx, rid: str = "C01.R11") -> None:
    ctx.rule(rid, "success means committed: every normal exit of Transaction.commit() has passed a commit-point call (or is the "
             "empty-transaction return); giving up after the retries raises", 1)
    f = ctx.fn("transaction.Transaction.commit")
    g = ctx.cfg(f)
    from .c04 import commit_chain
    cps = [n for ff, n, _w in commit_chain(ctx) if ff.qname == f.qname]
    if not cps:
        raise AnalysisError("no commit-point call in Transaction.commit")
    empty_edges = null_edges(g, "self._operations")
    w = find_path(g, g.entry, [g.exit], avoid=[c.id for c in cps], labels=NORMAL,
                  edge_ok=lambda s_, d_, l_: (s_, d_) not in empty_edges)
    ctx.ob(rid, f, "no normal exit without a commit point", cps[0], w is None,
           "a commit() that returns (True or None) without having flipped the pointer reports success for rows that are not "
           "in the table", witness=ctx.path_witness(f, w))


def r6(ctx: Ctx) -> None:
    ctx.rule("C01.R6", "lock pairing: every lock_provider.acquire() site releases on all exits", 2)
    rel_q = {ctx.fn("metadata_manager.MetadataManager._release_lock_safely").qname}
    cnt = 0
    for f in ctx.prog.functions.values():
        if f.module.short in ("lock_provider", "file_lock"):
            continue
        g = ctx.cfg(f)
        for a in ctx.calls(f, lock="acquire"):
            cnt += 1
            rel = [n for n in g.calls() if ctx.eff.lock_op(n) == "release" or any(t.qname in rel_q for t in ctx.eff.callees(f, n))]
            w = None
            for s in [d for d, l in g.succ[a.id] if l in NORMAL]:
                w = find_path(g, s, [g.exit, g.raise_exit], avoid=[r.id for r in rel], labels=ALL)
                if w:
                    break
            ctx.ob("C01.R6", f, "acquire is released on every exit", a, w is None and bool(rel),
                   "typestate acquire -> release on all normal and exceptional exits", witness=ctx.path_witness(f, w))
