"""C02 - readers observe only whole committed snapshots."""
from __future__ import annotations

import ast
from typing import List, Set

from ..cfg import NORMAL, Node
from ..core import Ctx
from ..flow import ALL, find_path, names_in
from ..model import AnalysisError, FunctionInfo, dotted, norm_text
from .common import fold_str, hint_value, path_arg

EXPLANATION = (
    "Static analysis of the read path's use of the version pointer: (R1) path query on the CFG of "
    "Table._get_all_data_files - no path runs two calls that (transitively) reach MetadataManager.refresh, so one read "
    "decides both the snapshot and the empty/broken distinction; the scan APIs' extra schema refresh may flow only into "
    "the pruning schema argument (def-use); (R2) call-graph reachability: outside refresh() no read API reaches a listing "
    "or re-reads the pointer - after the pointer read only immutable, uniquely named files are read, by provenance from "
    "the metadata object; (R3) atomic publish and pointer-last, shared with C03.R1/R2; (R4) in-flight files are "
    "unreachable: write-once names (C09.R1) and one commit point per attempt (C01.R5)."
    " Also: (R5) a failing pointer read never falls back to 'the highest version on disk'; (R6) read-path methods never store to the handle (no memo); (R7) one commit point per attempt."
    ' (R8) ambiguity classification of the pointer write (shared with C04.R1): a write that may have landed is never cleaned up as a clean failure, so reads through one handle cannot move backwards.'
    ' (R9) version / metadata resolution is stateless (shared with C10.R7): reads never answer from a cached metadata version.'
    " (R12) recovery orders versions as integers (C10.R11); (R13) the pointer publishes the bare, parseable name of the version just written (C10.R15); (R14) the snapshot's file list is complete: skips only for empty entries / true duplicates keyed by the path (C14.R3). R6 also bans memoising decorators.")
NOT_DECIDED = "monotonic reads across schedules; atomicity of os.replace / PUT; snapshot equality at run time"

REFRESH = "datashard.metadata_manager.MetadataManager.refresh"


def check(ctx: Ctx) -> None:
    r1(ctx)
    r2(ctx)
    from .c03 import r1 as c03_r1, r2 as c03_r2
    c03_r1(ctx, "C02.R3a")
    c03_r2(ctx, "C02.R3b")
    from .c09 import r1_fresh_names
    r1_fresh_names(ctx, "C02.R4")
    # a reader must resolve THE POINTER's version: a failing pointer read may not fall back to "the highest version on
    # disk" (which can be a metadata file written by a commit that has not flipped the pointer yet)
    from .c10 import r2 as c10_r2, r4 as c10_r4
    c10_r4(ctx, "C02.R5")
    r6(ctx)
    # a multi-operation transaction becomes visible all at once: one commit point per attempt
    from .c01 import r5 as c01_r5
    c01_r5(ctx, "C02.R7")
    # reads never move backwards: a pointer write that may have landed must not be cleaned up as a clean failure (the
    # version readers already saw would vanish)
    from .c04 import r1 as c04_r1
    ctx.shared(c04_r1, "C04.R1", "C02.R8", "monotonic reads across an ambiguous commit")
    # every read starts by resolving the committed version FROM STORAGE: a remembered / cached metadata version is not "the
    # committed current snapshot at some instant between the read's start and end" (it may never have been committed at all)
    from .c10 import r7 as c10_r7
    ctx.shared(c10_r7, "C10.R7", "C02.R9", "reads resolve the committed version from storage every time")
    # on S3: only "no such object" means absent - a 403 / throttle read as "the pointer's target is missing" sends the reader to
    # hint-less recovery, which picks the highest version on disk (possibly one that was never committed)
    from .c20 import r2 as c20_r2, r3 as c20_r3
    ctx.shared(c20_r2, "C20.R2", "C02.R10", "only 404 / NoSuchKey mean absent")
    # a retried conditional pointer PUT reports a conflict for a write that landed: the version readers already saw is deleted
    ctx.shared(c20_r3, "C20.R3", "C02.R11", "the conditional pointer PUT is never retried")
    # a reader that lost the pointer must resolve the LATEST committed version (numeric order), or it observes an older snapshot and moves backwards
    from .c10 import r11 as c10_r11
    c10_r11(ctx, "C02.R12")
    # a pointer the parser cannot read sends every reader to "highest version on disk" - during a commit that is the writer's
    # not-yet-committed file: what the committers publish must be the bare, parseable name of the version just written
    from .c10 import pointer_publishes_fresh_version
    pointer_publishes_fresh_version(ctx, "C02.R13")
    # a reader returns the rows of EVERY file of the one snapshot it resolved: nothing is skipped except an empty entry or a
    # true duplicate of the same path
    from .c14 import r3 as c14_r3
    ctx.shared(c14_r3, "C14.R3", "C02.R14", "the snapshot's file list is complete: skips only for empty entries / true duplicates")
    # the pointer may already name the new snapshot when a commit fails ambiguously: a deleting rollback then leaves readers a
    # current snapshot whose files are gone
    from .c04 import r3 as c04_r3_
    ctx.shared(c04_r3_, "C04.R3", "C02.R15", "a snapshot the pointer may name keeps its files: readers never meet a half-deleted current snapshot")


def r6(ctx: Ctx) -> None:
    ctx.rule("C02.R6", "read APIs are stateless: no read-path method of Table stores to the handle (no memo that a rollback, a "
             "snapshot deletion or another process can leave stale)", 1)
    table = ctx.prog.cls("transaction.Table")
    roots = ["row_count", "scan", "to_pandas", "scan_batches", "iter_records", "iter_pandas", "_scan_table", "_get_all_data_files",
             "_read_datafile_table", "_iter_file_batches", "_get_current_schema", "current_snapshot", "snapshots", "snapshot_by_id",
             "time_travel"]
    bad = []
    from .common import state_writes
    for name in roots:
        m = table.methods.get(name)
        if m is None:
            continue
        for n, what in state_writes(ctx, m):
            bad.append(f"{m.file}:{n.lineno} {name}: {what} in `{n.text[:60]}`")
    # memoising decorators are state too (and compare arguments with ==: True == 1 == 1.0 share one cache slot)
    memo = []
    for f_ in sorted(ctx.prog.functions.values(), key=lambda x: x.qname):
        for d_ in f_.decorators:
            if d_.split(".")[-1] in ("lru_cache", "cache", "cached_property", "memoize", "memoized"):
                memo.append(f"{f_.file}:{f_.lineno} @{d_} on {f_.qname.split('datashard.')[-1]}")
    ctx.ob("C02.R6", table.methods["row_count"], "no memoising decorator in the package", None, not memo,
           "nothing is answered from a remembered result" if not memo else
           "a memo returns what an EQUAL earlier argument produced (True / 1 / 1.0 are equal) and outlives what it was computed "
           "from", witness=memo[:6] or None, text="memo")
    ctx.ob("C02.R6", table.methods["row_count"], "no read-path method mutates the Table handle", None, not bad,
           "every read resolves the pointer afresh; a per-handle cache keyed by anything but the resolved metadata file itself "
           "(e.g. last_sequence_number, which a snapshot deletion does not bump) returns a snapshot that is no longer current",
           witness=bad[:6] or None)


def refresh_reaching_calls(ctx: Ctx, f: FunctionInfo) -> List[Node]:
    out = []
    for n in ctx.cfg(f).calls():
        tg = ctx.eff.callees(f, n)
        if any(t.qname == REFRESH for t in tg) or (tg and ctx.eff.reaches_function(f, {REFRESH}, n)):
            out.append(n)
    return out


def r1(ctx: Ctx) -> None:
    ctx.rule("C02.R1", "one pointer read per read: no path through _get_all_data_files performs two metadata reads; the scan "
             "APIs' second refresh only feeds the pruning schema", 2)
    f = ctx.fn("transaction.Table._get_all_data_files")
    g = ctx.cfg(f)
    rr = refresh_reaching_calls(ctx, f)
    if not rr:
        raise AnalysisError("_get_all_data_files no longer reads metadata")
    w = None
    pair = None
    for a in rr:
        for b in rr:
            starts = [d for d, l in g.succ[a.id] if l in NORMAL]
            for s in starts:
                p = [s] if s == b.id else find_path(g, s, [b.id], labels=NORMAL)
                if p and w is None:
                    w, pair = [a.id] + p, (a, b)
    ctx.ob("C02.R1", f, "at most one metadata read on every path", pair[1] if pair else rr[0], w is None,
           f"{len(rr)} call(s) reach MetadataManager.refresh: {[n.text[:50] for n in rr]}; a read that combines two pointer "
           "reads can pair the snapshot of one version with the emptiness test of another (a read racing the table's first "
           "commit raises 'metadata is inconsistent' on a healthy table)", witness=ctx.path_witness(f, w))
    for q in ("transaction.Table._scan_table", "transaction.Table.scan_batches"):
        sf = ctx.fn(q)
        sg = ctx.cfg(sf)
        extra = [n for n in refresh_reaching_calls(ctx, sf)
                 if not any(t.name == "_get_all_data_files" for t in ctx.eff.callees(sf, n))]
        for n in extra:
            # the value may only be used as `if schema:` and as the schema argument of prune_files_by_bounds
            st = n.stmt
            var = st.targets[0].id if isinstance(st, ast.Assign) and isinstance(st.targets[0], ast.Name) else None
            uses_ok = var is not None
            if var:
                for m in sg.nodes:
                    if m.id == n.id or m.ast is None or m.stmt is st:
                        continue
                    if m.kind == "branch" and var in names_in(m.ast):
                        uses_ok = uses_ok and norm_text(m.ast) == var
                    elif m.kind == "call" and isinstance(m.ast, ast.Call) and var in names_in(m.ast):
                        uses_ok = uses_ok and any(t.name == "prune_files_by_bounds" for t in ctx.eff.callees(sf, m))
                    elif m.kind in ("stmt", "return") and var in names_in(m.ast) and not any(
                            c.stmt is m.ast for c in sg.calls() if any(t.name == "prune_files_by_bounds" for t in ctx.eff.callees(sf, c))):
                        uses_ok = False
            ctx.ob("C02.R1", sf, "the second refresh only feeds file pruning", n, uses_ok,
                   "schema lookup for the name->id map; it never selects files or rows (schemas are immutable per id)")


def r2(ctx: Ctx) -> None:
    ctx.rule("C02.R2", "after the pointer read only immutable files are read: outside refresh() no read API lists a directory or "
             "re-reads the version hint; read paths derive from the metadata object", 3)
    hv = hint_value(ctx)
    table = ctx.prog.cls("transaction.Table")
    roots = [table.methods[m] for m in ("_get_all_data_files", "_read_datafile_table", "_iter_file_batches", "row_count")]
    bad: List[str] = []
    n_reads = 0
    for r in roots:
        for f, n, chain in ctx.eff.transitive_calls(r, stop=lambda t: t.qname == REFRESH):
            op = ctx.eff.storage_op(n)
            if op is None:
                continue
            n_reads += 1
            if op == "list_files":
                bad.append(f"{f.file}:{n.lineno} list_files reached from {r.name} via {' -> '.join(c.split('.')[-1] for c in chain)}")
            s = fold_str(ctx, f, path_arg(n), n.id)
            if s == hv:
                bad.append(f"{f.file}:{n.lineno} version hint read outside refresh(), reached from {r.name}")
    ctx.ob("C02.R2", roots[0], "no listing / pointer re-read on the read path", None, not bad,
           f"{n_reads} storage operations reachable from the read helpers outside refresh()", witness=bad or None)
    f = ctx.fn("transaction.Table._get_all_data_files")
    sl = ctx.slicer(f)
    for n in ctx.calls(f, name="read_manifest_list_file") + ctx.calls(f, name="read_manifest_file"):
        org = sl.origins(n.ast.args[0] if isinstance(n.ast, ast.Call) and n.ast.args else None, n.id)
        attr = "manifest_list" if "list" in n.callee.funcs[0].name else "manifest_path"  # type: ignore[union-attr]
        ok = any(isinstance(x, ast.Attribute) and x.attr == attr for e in org["exprs"] for x in ast.walk(e))
        ctx.ob("C02.R2", f, f"path provenance: .{attr} of the metadata object", n, ok,
               "the file read is the one the (single) metadata read named")
