"""C03 - a crash at any point leaves the table in the pre- or post-operation state."""
from __future__ import annotations

import ast
import re
from typing import Dict, List, Optional, Set, Tuple

from ..cfg import NORMAL, Node
from ..core import Ctx
from ..flow import ALL, find_path, names_in
from ..model import AnalysisError, FunctionInfo, dotted, norm_text
from .common import (owner_tops, explore, edge_target, fold_str, hint_value, hint_write_nodes, hint_writers, kwarg, path_arg, scenario_walk, facts_at,
                     reachable_from)

EXPLANATION = (
    "Static analysis of how files come into existence and in which order: (R1) a census of every write-capable "
    "sink of the package (open with a write mode, os.open with O_CREAT/O_WRONLY/O_RDWR, os.write, tempfile.*, "
    "ParquetWriter, os.replace/rename, shutil.*, boto put_object) against the sanctioned owners, plus the "
    "temp-file -> rename shape of the two local publishers by def-use (temp created in dirname(final), the "
    "rename source is that temp, the destination is the resolved final path); (R2) dominance: the version "
    "hint has exactly two writer functions, and in each the metadata file write dominates the pointer write; in "
    "_commit_file_ops manifests -> manifest list -> create_snapshot is the only order; (R3) the language of "
    "temp-file names is disjoint from the recovery regex (regex AST via re._parser: anchored, first literal 'v'), "
    "and recovery only accepts names that match it. Also: (R4) the collector's delete guard (shared with C05.R3) - a "
    "later collection removes only unreachable, unprotected, old files; (R5) a writer that died while holding the S3 "
    "lock does not wedge the table: taking over the expired lock IS acquiring it (shared with C19.R3)."
    " (R6) the O_EXCL existence lock (not released when its holder dies) is reached only when neither fcntl nor msvcrt exists; (R7) an unparseable in-flight marker left by a dead writer falls back instead of aborting every later collection; (R8) the 'pointer moved' conflict of the CAS path is raised only on a parsed pointer (a creator that died before the first pointer write does not wedge the table)."
    ' (R9/R10) write-once namespace and who-may-delete censuses (shared with C09.R1/R3): every file a dying process can leave is the pointer, a marker or a fresh name, and recovery / maintenance code never deletes on its own judgement.'
    ' (R13) storage effects are synchronous (C16.R9).'
    " (R14) lock ages are UTC-correct (C20.R11, interprocedural); (R15) the fallback lock's age is wall-clock now minus mtime (C19.R11)."
    " (R16) version numbers are compared, never truth-tested (the pointer to v0 is honoured); (R17) a dead holder's S3 lock can be taken over: the lease test compares age and lease in one unit (C19.R3)."
    ' (R18) not-found classification per request kind (C20.R2): a GetObject helper reads the GET row of a code table, never the HEAD row. R1 asks that SOME write to the mkstemp descriptor dominates the rename (a completing retry loop adds write sites) [D22].')
NOT_DECIDED = ("the reopen-and-compare statement over every crash point; atomicity of os.replace / PUT; that a "
               "later collection removes only leftovers")


def check(ctx: Ctx) -> None:
    r1(ctx, "C03.R1")
    r2(ctx, "C03.R2")
    r3(ctx, "C03.R3")
    from .c05 import r3 as c05_r3
    c05_r3(ctx, "C03.R4")
    r5(ctx)
    from .c19 import kernel_lock_preferred
    kernel_lock_preferred(ctx, "C03.R6")
    from .c06 import marker_parse_tolerant
    marker_parse_tolerant(ctx, "C03.R7")
    from .c08 import pin_needs_hint
    pin_needs_hint(ctx, "C03.R8")
    # whatever a dying process leaves behind must be something a later collection understands: every file the library writes
    # is the pointer, an in-flight marker or a fresh name (an orphan), and only the sanctioned owners delete
    from .c09 import r1_fresh_names, r3 as c09_r3
    r1_fresh_names(ctx, "C03.R9")
    ctx.shared(c09_r3, "C09.R3", "C03.R10", "recovery / maintenance code deleting files on its own judgement can remove files of a "
               "committed snapshot after a crash")
    from .c20 import r3 as c20_r3
    ctx.shared(c20_r3, "C20.R3", "C03.R11", "the conditional pointer PUT is never retried")
    # an ambiguous pointer write keeps every file: 'resolving' it by a re-read races with the write landing later
    from .c04 import r3 as c04_r3
    ctx.shared(c04_r3, "C04.R3", "C03.R12", "the ambiguous-outcome handler never deletes")
    # "crash at any point": the write-before-publish order is read off the committing thread's call sequence - a write that
    # runs on another thread has no place in that order
    from .c16 import no_deferred_storage_effects
    no_deferred_storage_effects(ctx, "C03.R13")
    # "a crashed writer never wedges the table": its lock must be seen to age - on S3 the age comes from LastModified and has to
    # be computed in UTC (a negative age on a host west of UTC keeps a dead writer's lock alive for hours)
    from .c20 import r11_utc_ages
    r11_utc_ages(ctx, "C03.R14")
    # ... and where the kernel releases nothing (O_EXCL fallback) the stale breaker must be able to fire: the lock file's age is
    # wall-clock now minus its mtime (a monotonic 'now' minus an epoch mtime is hugely negative: never stale)
    from .c19 import fallback_break_only_when_stale
    fallback_break_only_when_stale(ctx, "C03.R15")
    from .common import numbers_not_truth_tested
    numbers_not_truth_tested(ctx, "C03.R16", ("metadata_manager",), "version numbers: the pointer to v0 written by table creation")
    from .c19 import r3 as c19_r3_
    c19_r3_(ctx, "C03.R17")
    # a table whose creator died before the first pointer write is reopened WITHOUT a pointer: commit() creates it on
    # FileNotFoundError, so every S3 read must report a missing object as exactly that (a raw ClientError fails every commit)
    from .c20 import r2 as c20_r2_
    ctx.shared(c20_r2_, "C20.R2", "C03.R18", "a missing object is FileNotFoundError on every read path the committer relies on")


def r5(ctx: Ctx) -> None:
    ctx.rule("C03.R5", "a writer that died while holding the S3 lock does not wedge the table: the conditional-write provider's "
             "acquire attempt returns the result of the expired-lock takeover", 1)
    from .c19 import takeover_is_acquire
    takeover_is_acquire(ctx, "C03.R5")


# --------------------------------------------------------------------- census
WRITE_PRIMS = {"os.write", "tempfile.mkstemp", "tempfile.NamedTemporaryFile", "tempfile.mkdtemp", "tempfile.TemporaryFile",
               "pyarrow.parquet.ParquetWriter", "pyarrow.parquet.write_table", "os.replace", "os.rename", "os.link",
               "os.symlink", "boto.put_object", "boto.upload_file", "boto.upload_fileobj", "boto.copy_object",
               "os.truncate", "os.ftruncate"}

SINK_OWNERS: Dict[str, str] = {
    "datashard.storage_backend.LocalStorageBackend.write_file": "the atomic publisher (temp + fsync + rename)",
    "datashard.data_operations.DataFileWriter.open": "data-file temp creation (renamed in close)",
    "datashard.data_operations.DataFileWriter.close": "data-file publisher (fsync + rename)",
    "datashard.file_lock.FileLock._try_acquire_once": "lock file only",
    "datashard.file_lock.FileLock._try_acquire_excl_fallback": "fallback lock file only",
    "datashard.storage_backend.S3StorageBackend.write_file": "whole-object PUT",
    "datashard.storage_backend.S3StorageBackend.write_file_cas": "conditional whole-object PUT",
    "datashard.lock_provider.S3LockProvider._try_acquire": "lock object",
    "datashard.lock_provider.S3LockProvider._try_takeover_expired": "lock object",
    "datashard.lock_provider.S3LockProvider._renew_once": "lock object",
    "datashard.lock_provider.S3PollingLockProvider._try_acquire": "lock object (best-effort provider)",
    "datashard.lock_provider.S3PollingLockProvider._renew_once": "lock object (best-effort provider)",
}


def _open_mode_writes(call: ast.Call) -> Optional[bool]:
    mode = kwarg(call, "mode", 1)
    if mode is None:
        return False
    if isinstance(mode, ast.Constant) and isinstance(mode.value, str):
        return any(c in mode.value for c in "wax+")
    return None  # dynamic mode: unknown


def _os_open_writes(call: ast.Call) -> bool:
    flags = kwarg(call, "flags", 1)
    txt = norm_text(flags) if flags is not None else ""
    return any(x in txt for x in ("O_CREAT", "O_WRONLY", "O_RDWR", "O_APPEND", "O_TRUNC")) or flags is None


def write_sinks(ctx: Ctx) -> List[Tuple[FunctionInfo, Node, str]]:
    out = []
    for f in ctx.prog.functions.values():
        for n in ctx.cfg(f).calls():
            c = n.callee
            if c is None or c.kind != "prim" or not isinstance(n.ast, ast.Call):
                continue
            nm = c.name
            if nm in WRITE_PRIMS or nm.startswith("shutil.") and nm != "shutil.disk_usage":
                out.append((f, n, nm))
            elif nm == "builtins.open":
                w = _open_mode_writes(n.ast)
                if w is None or w:
                    out.append((f, n, "open(write mode)"))
            elif nm == "os.open" and _os_open_writes(n.ast):
                out.append((f, n, "os.open(create/write)"))
            elif nm.startswith("method.") and nm.split(".")[1] in ("write_text", "write_bytes", "touch", "mkdir_p"):
                out.append((f, n, nm))
    return out


def top_of(f: FunctionInfo) -> FunctionInfo:
    while f.parent is not None:
        f = f.parent
    return f


def r1(ctx: Ctx, rid: str) -> None:
    ctx.rule(rid, "atomic publish: every write-capable sink lies in a sanctioned owner; the two local publishers create "
             "the temp file in dirname(final), and rename exactly that temp onto the resolved final path", 14)
    for f, n, what in write_sinks(ctx):
        owners = owner_tops(ctx, f)
        reasons = [SINK_OWNERS.get(ctx.prog.anchor(o)) for o in owners]
        reason = reasons[0] if owners and all(r is not None for r in reasons) else None
        ctx.ob(rid, f, f"{what} site", n, reason is not None,
               (f"sanctioned: {reason}" if reason else
                "a file-creating / overwriting call outside the atomic publishers: a crash can expose a partial file"),
               nontrivial=False)
    # shape of LocalStorageBackend.write_file
    wf = ctx.fn("storage_backend.LocalStorageBackend.write_file")
    g = ctx.cfg(wf)
    sl = ctx.slicer(wf)
    mk = ctx.calls(wf, prim="tempfile.mkstemp")
    rp = ctx.calls(wf, prim="os.replace")
    if not mk or not rp:
        ctx.ob(rid, wf, "write_file publishes by temp + os.replace", None, False,
               "LocalStorageBackend.write_file must create a temp file and os.replace it onto the target")
    for m in mk:
        d = kwarg(m.ast, "dir")
        org = sl.origins(d, m.id)
        ok = any(isinstance(c, ast.Call) and (dotted(c.func) or "") == "os.path.dirname" for c in org["calls"]) and \
            any(isinstance(c, ast.Call) and (dotted(c.func) or "").endswith("_resolve_path") for c in org["calls"])
        ctx.ob(rid, wf, "temp file is created in dirname(resolved final path)", m, ok,
               "same directory => same filesystem => os.replace is atomic")
    for r in rp:
        call = r.ast
        assert isinstance(call, ast.Call)
        src, dst = (call.args + [None, None])[:2]
        so = sl.origins(src, r.id)
        do = sl.origins(dst, r.id)
        ok_src = any(isinstance(c, ast.Call) and (dotted(c.func) or "") == "tempfile.mkstemp" for c in so["calls"])
        ok_dst = any(isinstance(c, ast.Call) and (dotted(c.func) or "").endswith("_resolve_path") for c in do["calls"]) \
            and not any(isinstance(c, ast.Call) and (dotted(c.func) or "") == "tempfile.mkstemp" for c in do["calls"])
        ctx.ob(rid, wf, "os.replace(source = that temp, destination = resolved path)", r, ok_src and ok_dst,
               "the rename publishes exactly the temp file that was written")
        from .common import temp_fd_writes
        wr = temp_fd_writes(ctx, wf)  # os.write(fd, ..) or fh.write(..) with fh = os.fdopen(fd)
        dom = ctx.dom(wf, NORMAL)
        ctx.ob(rid, wf, "content is written to the temp fd before the rename", r,
               bool(wr) and any(w.id in dom[r.id] for w, _fd, _fl in wr) and all(
                   any(isinstance(c, ast.Call) and (dotted(c.func) or "") == "tempfile.mkstemp"
                       for c in sl.origins(fd_, w.id)["calls"]) for w, fd_, _fl in wr),
               "os.write targets the mkstemp descriptor and dominates os.replace")
    # every other creating method of the local backend goes through write_file
    lb = ctx.prog.cls("storage_backend.LocalStorageBackend")
    wj = lb.methods.get("write_json")
    if wj is not None:
        ctx.ob(rid, wj, "write_json delegates to write_file", None, bool(ctx.calls(wj, name="write_file")),
               "JSON files are published by the same atomic primitive")
    # shape of DataFileWriter
    op = ctx.fn("data_operations.DataFileWriter.open")
    cl = ctx.fn("data_operations.DataFileWriter.close")
    osl = ctx.slicer(op)
    for m in ctx.calls(op, prim="tempfile.NamedTemporaryFile"):
        d = kwarg(m.ast, "dir")
        org = osl.origins(d, m.id)
        ok = any(isinstance(c, ast.Call) and (dotted(c.func) or "") == "os.path.dirname" for c in org["calls"]) \
            and "self.file_path" in org["names"]
        dele = kwarg(m.ast, "delete")
        ctx.ob(rid, op, "data temp file is created in dirname(final path), delete=False", m,
               ok and isinstance(dele, ast.Constant) and dele.value is False,
               "the parquet temp file lives next to its final name")
    for w in ctx.calls(op, prim="pyarrow.parquet.ParquetWriter"):
        a0 = w.ast.args[0] if isinstance(w.ast, ast.Call) and w.ast.args else None
        t = norm_text(a0) if a0 is not None else ""
        fs = kwarg(w.ast, "filesystem")
        ok = ("_temp_file" in t) or fs is not None
        ctx.ob(rid, op, "ParquetWriter writes the temp name (local) or through the object-store filesystem", w, ok,
               "a local data file is never written under its final name")
    csl = ctx.slicer(cl)
    for r in ctx.calls(cl, prim="os.replace"):
        call = r.ast
        assert isinstance(call, ast.Call)
        src, dst = (call.args + [None, None])[:2]
        so = csl.origins(src, r.id)
        ok = "self._temp_file.name" in so["names"] or "self._temp_file" in so["names"]
        ctx.ob(rid, cl, "close renames the temp file onto self.file_path", r,
               ok and norm_text(dst) == "self.file_path", "the data file appears atomically under its final name")


# ------------------------------------------------------------------------ R2
def r2(ctx: Ctx, rid: str) -> None:
    ctx.rule(rid, "one commit point, and it is last: the version hint is written by exactly two functions; in each the "
             "metadata-file write dominates the pointer write; manifests -> manifest list -> snapshot commit is "
             "the only order in _commit_file_ops", 6)
    writers = {ctx.prog.anchor(o) for w in hint_writers(ctx) for o in (owner_tops(ctx, w) or [w])}
    expected = {"datashard.metadata_manager.MetadataManager.initialize_table",
                "datashard.metadata_manager.MetadataManager._write_hint_at_commit_point"}
    ctx.ob(rid, None, "hint writer census", None, writers == expected,
           f"functions writing the version hint: {sorted(writers)} (expected exactly {sorted(expected)})",
           text="hint-writers", file="src/datashard/metadata_manager.py", line=0)
    wq = {w.qname for w in hint_writers(ctx)}
    for q in ("metadata_manager.MetadataManager.commit", "metadata_manager.MetadataManager.initialize_table"):
        f = ctx.fn(q)
        g = ctx.cfg(f)
        dom = ctx.dom(f, NORMAL)
        cps = hint_write_nodes(ctx, f) or [n for n in g.calls() if any(t.qname in wq for t in ctx.eff.callees(f, n))]
        mw = ctx.calls(f, name="_write_metadata_file")
        for cp in cps:
            ok = any(m.id in dom[cp.id] for m in mw)
            ctx.ob(rid, f, "metadata file write dominates the pointer write", cp, ok,
                   "the pointer never names a metadata file that has not been completely written")
            # the pointer content names the file just written
            sl = ctx.slicer(f)
            call = cp.ast
            assert isinstance(call, ast.Call)
            content_arg = call.args[1] if len(call.args) > 1 and hint_write_nodes(ctx, f) else (call.args[0] if call.args else None)
            org = sl.origins(content_arg, cp.id)
            morg = sl.origins(path_arg(mw[0]), mw[0].id) if mw else {"calls": set()}
            shared = {id(c) for c in org["calls"]} & {id(c) for c in morg["calls"]}
            ctx.ob(rid, f, "pointer content and metadata path derive from the same new file name", cp, bool(shared),
                   "the name written into the pointer is the name of the metadata file written by this call")
    cf = ctx.fn("transaction.Transaction._commit_file_ops")
    g = ctx.cfg(cf)
    dom = ctx.dom(cf, NORMAL)
    cs = ctx.calls(cf, name="create_snapshot")
    ml = ctx.calls(cf, name="create_manifest_list_file")
    mf = ctx.calls(cf, name="create_manifest_file")
    if not cs or not ml or not mf:
        raise AnalysisError("anchor calls vanished in _commit_file_ops")
    ctx.ob(rid, cf, "manifest list is written before the snapshot commit", cs[0], all(m.id in dom[cs[0].id] for m in ml),
           "create_manifest_list_file dominates create_snapshot")
    for m in mf:
        w = find_path(g, ml[0].id, [m.id], labels=NORMAL)
        ctx.ob(rid, cf, "no manifest is written after the manifest list", m, w is None,
               "every create_manifest_file precedes create_manifest_list_file", witness=ctx.path_witness(cf, w))
    sl = ctx.slicer(cf)
    arg = kwarg(cs[0].ast, "manifest_list_path", 0)
    org = sl.origins(arg, cs[0].id)
    ctx.ob(rid, cf, "the snapshot references the list written by this attempt", cs[0],
           any(isinstance(c, ast.Call) and (dotted(c.func) or "").endswith("create_manifest_list_file") for c in org["calls"]),
           "manifest_list_path is the return value of create_manifest_list_file")
    # create_snapshot: the commit is the last storage effect
    sn = ctx.fn("snapshot_manager.SnapshotManager.create_snapshot")
    sg = ctx.cfg(sn)
    cm = [n for n in sg.calls() if any(t.qname == "datashard.metadata_manager.MetadataManager.commit" for t in ctx.eff.callees(sn, n))]
    later = []
    for c in cm:
        for n in sg.calls():
            if n.id != c.id and n.id in reachable_from(sg, c.id, NORMAL) and ctx.eff.callees(sn, n):
                later.append(n)
    ctx.ob(rid, sn, "create_snapshot ends with the metadata commit", cm[0] if cm else None, bool(cm) and not later,
           "nothing is written after the commit inside create_snapshot")


# ------------------------------------------------------------------------ R3
def regex_first_literal_and_anchors(pattern) -> Tuple[Optional[str], bool, bool]:  # type: ignore[no-untyped-def]
    try:
        import re._parser as sre_parse  # py311+
    except ImportError:  # pragma: no cover
        import sre_parse  # type: ignore
    p = sre_parse.parse(pattern.pattern, pattern.flags) if hasattr(pattern, "pattern") else sre_parse.parse(pattern)
    items = list(p)
    anchored_start = bool(items) and str(items[0][0]) == "AT" and "BEGINNING" in str(items[0][1])
    anchored_end = bool(items) and str(items[-1][0]) == "AT" and "END" in str(items[-1][1])
    first = None
    for op, av in items:
        if str(op) == "AT":
            continue
        if str(op) == "LITERAL":
            first = chr(av)
        break
    return first, anchored_start, anchored_end


def metadata_regex(ctx: Ctx):  # type: ignore[no-untyped-def]
    """The metadata-file regex as a compiled pattern (flags such as re.VERBOSE honoured, named groups kept)."""
    from .common import compiled_regex
    m = ctx.prog.modules["datashard.metadata_manager"]
    e = m.consts.get("_METADATA_FILE_RE")
    rx = compiled_regex(ctx, m, e)
    if rx is None:
        raise AnalysisError("anchor vanished: _METADATA_FILE_RE is not re.compile(<constant pattern>[, <flags>])")
    return rx


def r3(ctx: Ctx, rid: str) -> None:
    ctx.rule(rid, "leftovers are invisible to recovery: temp-file names cannot match the (anchored) metadata-file regex; "
             "recovery only accepts basenames that match it, directly under metadata/", 4)
    pat = metadata_regex(ctx)
    first, a0, a1 = regex_first_literal_and_anchors(pat)
    ctx.ob(rid, None, "metadata regex anchored at both ends", None, a0 and a1 and first is not None,
           f"_METADATA_FILE_RE = {pat!r}: first literal {first!r}, ^={a0}, $={a1}", text="_METADATA_FILE_RE",
           file="src/datashard/metadata_manager.py", line=getattr(ctx.prog.modules['datashard.metadata_manager'].consts.get('_METADATA_FILE_RE'), 'lineno', 0))
    wf = ctx.fn("storage_backend.LocalStorageBackend.write_file")
    for m in ctx.calls(wf, prim="tempfile.mkstemp"):
        pre = kwarg(m.ast, "prefix")
        s = ctx.prog.const_str(pre, wf.module, wf) if pre is not None else "tmp"
        ok = s is not None and len(s) > 0 and s[0] != first and a0
        ctx.ob(rid, wf, "temp name's first character differs from the regex's first literal", m, ok,
               f"temp prefix {s!r} vs regex first literal {first!r}: an interrupted write never looks like a metadata version")
    op = ctx.fn("data_operations.DataFileWriter.open")
    for m in ctx.calls(op, prim="tempfile.NamedTemporaryFile"):
        suf = kwarg(m.ast, "suffix")
        s = ctx.prog.const_str(suf, op.module, op) if suf is not None else ""
        pre = kwarg(m.ast, "prefix")
        ps = ctx.prog.const_str(pre, op.module, op) if pre is not None else "tmp"
        ok = (s is not None and not re.search(r"\.metadata\.json$", s or "") and a1) or (ps is not None and ps[:1] != first)
        ctx.ob(rid, op, "data temp names cannot match the metadata regex", m, ok,
               f"NamedTemporaryFile(prefix={ps!r}, suffix={s!r}) vs {pat!r}")
    rc = ctx.fn("metadata_manager.MetadataManager._recover_version_from_files")
    g = ctx.cfg(rc)
    dom = ctx.dom(rc, NORMAL)
    # (the candidate set is examined below by role: statements that read the regex's version group)
    # scenario evaluation of one loop iteration: a listed entry in a SUB-directory of metadata/ whose basename would match
    # the regex must never be accepted; an entry directly in metadata/ must be acceptable
    rsl = ctx.slicer(rc)
    lps = [l for l in g.nodes if l.kind == "loop" and isinstance(l.ast, ast.For) and isinstance(l.ast.target, ast.Name)
           and any(isinstance(c, ast.Call) and (dotted(c.func) or "").endswith("list_files") for c in rsl.origins(l.ast.iter, l.id)["calls"])]
    if not lps:
        raise AnalysisError("listing loop vanished from _recover_version_from_files")
    lp = lps[0]
    mvars = {t.id for n in g.nodes if n.kind == "stmt" and isinstance(n.ast, ast.Assign) and "_METADATA_FILE_RE" in norm_text(n.ast.value)
             for t in n.ast.targets if isinstance(t, ast.Name)}
    accept = [n for n in g.nodes if n.ast is not None and n.kind in ("stmt", "call", "branch", "return")
              and any(isinstance(x, ast.Call) and isinstance(x.func, ast.Attribute) and x.func.attr == "group"
                      and isinstance(x.func.value, ast.Name) and x.func.value.id in mvars for x in ast.walk(n.ast))]
    for a in accept:
        matched = any(pol in ("true", "nonnull") and isinstance(e, ast.Name) and e.id in mvars for pol, e, _at in facts_at(ctx, rc, a))
        ctx.ob(rid, rc, "recovery candidate is accepted only under a regex match", a, matched,
               "a version is only read from a basename that matched _METADATA_FILE_RE")
    if not accept:
        raise AnalysisError("_recover_version_from_files no longer reads the version group of the metadata regex")
    mpaths = {dotted(x) for x in ast.walk(rc.node) if isinstance(x, ast.Attribute) and x.attr == "metadata_path" and dotted(x)}
    mpaths |= {dotted(x) for n_ in g.nodes if n_.ast is not None and n_.kind in ("stmt", "branch", "call", "return")
               for x in ast.walk(n_.ast) if isinstance(x, ast.Attribute) and x.attr == "metadata_path" and dotted(x)}  # helpers analysed in place
    body = edge_target(g, lp, "true")
    res = {}
    sample = next((c for c in ("v3-0a1b2c3d.metadata.json", "v3.metadata.json", "v3-0a1b.metadata.json") if re.match(metadata_regex(ctx), c)), None)
    if sample is None:
        raise AnalysisError("no sample metadata file name matches the metadata regex")
    for label, entry in (("root", "metadata/" + sample), ("sub-directory", "metadata/manifests/" + sample)):
        env = {lp.ast.target.id: entry}  # type: ignore[union-attr]
        env.update({p: "metadata" for p in mpaths})
        outs = explore(ctx, rc, [body] if body is not None else [], env, stop=[lp.id] + [a.id for a in accept])
        hits = [st for nid, st, _asm in outs if nid in {a.id for a in accept}]
        decided_hit = any(not any(isinstance(k, tuple) and k[0] == "undecided" for k in st) for st in hits)
        res[label] = (bool(hits), bool(hits) and not decided_hit)
    ctx.ob(rid, rc, "recovery considers files directly in metadata/ only", lp,
           bool(accept) and res["root"][0] and (res["sub-directory"][1] or not res["sub-directory"][0]),
           f"scenario 'metadata/v3-*.metadata.json': candidate accepted = {res['root'][0]}; scenario "
           f"'metadata/manifests/v3-*.metadata.json': candidate accepted = {res['sub-directory'][0]}"
           + (" [guard not evaluable: undecided]" if res["sub-directory"][1] else "")
           + " - files in sub-directories (manifests, inflight) are never taken for metadata versions")
