"""C04 - a failed, interrupted or ambiguous commit never damages committed data."""
from __future__ import annotations

import ast
import re
from typing import Dict, List, Optional, Set, Tuple

from ..cfg import NORMAL, Node, handler_classes
from ..flow import ALL
from ..core import Ctx
from ..flow import names_in
from ..model import AnalysisError, FunctionInfo, norm_text
from .common import (facts_at, owner_tops, pure_guard, judged_in_callers, cleanup_in_reraising_handler, branch_nodes, edge_target, escaping_after, handler_always_raises, handler_exits, handler_key,
                     handler_nodes, hint_write_nodes, hint_writers, in_handler, is_const, kwarg,
                     normal_continuation, reachable_from)

EXPLANATION = (
    "Static analysis of the commit path (Transaction.commit -> _commit_file_ops -> create_snapshot -> "
    "MetadataManager.commit -> _write_hint_at_commit_point, and LocalStorageBackend.write_file): the error "
    "classification at the commit-point write is extracted from the CFG as a decision table; the normal "
    "continuation after every commit-point call is proved escape-free with the exception-escape fixpoint; the "
    "rollback policy (which handler may reach a deleting rollback, what _rollback may delete) is checked by "
    "dominance and def-use; asynchronous BaseException is routed from every node of the commit-point region "
    "through the enclosing try frames; every handler on the pre-commit path is classified re-raise / convert / "
    "swallow against a frozen allow-list."
    ' Also: (R6) on the AmbiguousCommitError route no handler/finally deletes, and no handler along the chain converts or swallows the ambiguous error; (R7) the conditional pointer PUT is not retried.'
    ' (R8) who-may-delete census (shared with C09.R3).'
    ' (R10) a reused Transaction object starts empty: begin() resets _written_files / _inflight_markers (a non-deleting rollback keeps them on purpose) - shared with C01.R5.'
    " R1 also requires the local backend (rename-published, nothing raising after the rename) to report clean write failures as clean; R7 requires the CAS conflict code set to be exactly S3's precondition-failure answers."
    ' R1 is decided by scenario for the three backend kinds (which write is reached; what a precondition failure / any other failure is reported as); R3 / R4 decide whether a _rollback(...) call deletes by binding its arguments (bool or enum) and walking _rollback.'
    " (R11) a memo consulted instead of a read (a parsed-metadata cache behind refresh()) is keyed by everything that selects what is read: each parameter of the memoising function that reaches the arguments of the computation on a miss also reaches the key - a cache keyed by the version number while the read is selected by the unique file name serves a failed commit's file for the winner's version."
)
NOT_DECIDED = ("the resulting table state after each fault; what S3 does with an errored PUT; double faults "
               "at run time")

# C04.R5 allow-list: handlers on the commit path that may complete normally, each with its reason.
SWALLOW_OK: Dict[Tuple[str, str], str] = {
    ("datashard.transaction.Transaction.commit", "ConcurrentModificationException"):
        "clean conflict: the loop retries against a freshly read base (C01.R3); the final attempt rolls back and re-raises",
    ("datashard.metadata_manager.MetadataManager.commit", "FileNotFoundError"):
        "no pointer object: etag=None means create-if-absent, which fails if a pointer exists (conservative)",
    ("datashard.metadata_manager.MetadataManager._append_metadata_log", "TypeError,ValueError"):
        "int() parse of a table property; default bound used; no storage involved",
    ("datashard.snapshot_manager.SnapshotManager._apply_retention", "TypeError,ValueError"):
        "int() parse of the opt-in retention property; invalid value => no pruning (conservative)",
    ("datashard.metadata_manager.MetadataManager._recover_version_from_files", "Exception#get_modified_time"):
        "mtime only breaks ties among same-version files",
    ("datashard.metadata_manager.MetadataManager._parse_hint_content", "UnicodeDecodeError"):
        "an undecodable pointer is 'no usable hint': recovery by scanning follows (C10)",
    ("datashard.file_manager.FileManager.read_manifest_file", "ValueError,IndexError,StopIteration,OSError"):
        "Avro parse failure falls through to the JSON parser, whose own failure raises (C14.R2)",
    ("datashard.file_manager.FileManager.read_manifest_list_file", "ValueError,IndexError,StopIteration,OSError"):
        "Avro parse failure falls through to the JSON parser, whose own failure raises (C14.R2)",
    ("datashard.file_manager.FileManager._decode_bound", "ValueError,TypeError"):
        "bound decoding falls back to the legacy/raw value; bounds only drive pruning (C13.R4)",
    ("datashard.file_manager.FileManager._safe_int", "ValueError,TypeError"):
        "statistics counters only; never drive reachability or content",
    ("datashard.file_manager.FileManager._infer_value_legacy", "ValueError"):
        "legacy bound inference chain float() -> bool -> str",
}


def commit_chain(ctx: Ctx) -> List[Tuple[FunctionInfo, Node, bool]]:
    """(function, commit-point call node, is_hint_write) for every link of the chain from
    Transaction.commit down to the storage write of the version hint."""
    writers = hint_writers(ctx)
    wq = {w.qname for w in writers}
    out: List[Tuple[FunctionInfo, Node, bool]] = []
    seen: Set[str] = set()
    work = [ctx.fn("transaction.Transaction.commit")]
    while work:
        f = work.pop()
        if f.qname in seen:
            continue
        seen.add(f.qname)
        for n in hint_write_nodes(ctx, f):
            out.append((f, n, True))
        for n in ctx.cfg(f).calls():
            tg = ctx.eff.callees(f, n)
            if not tg:
                continue
            if any(t.qname in wq for t in tg) or ctx.eff.reaches_function(f, wq, n):
                out.append((f, n, False))
                for t in tg:
                    if t.qname in wq or ctx.eff.reaches_function(t, wq):
                        work.append(t)
    return out


def check(ctx: Ctx) -> None:
    _CTX_REF[:] = [ctx]
    _DELETING_CACHE.clear()
    r1(ctx)
    r2(ctx)
    r3(ctx)
    r4(ctx)
    r5(ctx)
    r6(ctx)
    # the conditional pointer write must not be retried: a retry that loses against its own first attempt turns an
    # ambiguous outcome into a clean conflict (C08.R3)
    from .c08 import r3 as c08_r3
    n0 = len(ctx.obs)
    c08_r3(ctx)
    for o in ctx.obs[n0:]:
        o.rule = "C04.R7"
    ctx.rule_text["C04.R7"] = ctx.rule_text.pop("C08.R3")
    ctx.floors["C04.R7"] = ctx.floors.pop("C08.R3")
    # "each file referenced by any retained snapshot is still present": only the sanctioned owners delete - a purge / sweep
    # step added elsewhere (maintenance API, begin_transaction, __init__) deletes on its own judgement, outside the rollback rules
    from .c09 import r3 as c09_r3
    ctx.shared(c09_r3, "C09.R3", "C04.R8", "files of retained snapshots survive failed commits only if nobody else deletes")
    # "including lock release": a release whose delete failed must still let the lock expire, or the table accepts no further commit
    from .c19 import release_always_lets_go
    release_always_lets_go(ctx, "C04.R9")
    # a non-deleting rollback (ambiguous commit / interrupt) deliberately KEEPS _written_files: a reused Transaction object
    # must start empty, or its next deleting rollback removes the files of the snapshot that did become durable
    from .c01 import r5 as c01_r5
    c01_r5(ctx, "C04.R10")
    # "state equal to the last acknowledged commit": a cache of parsed metadata consulted by refresh() must be keyed by the unique
    # file name the pointer resolved to - a failed commit's v<N+1> file and the winner's v<N+1> file share the version number
    from .common import memo_key_covers_computation
    memo_key_covers_computation(ctx, "C04.R11", ("metadata_manager", "snapshot_manager", "transaction"),
                                "(a failed commit's file and the winner's file share one version number)")


# ----------------------------------------------------------------------- R1
def r1(ctx: Ctx) -> None:
    if not _CTX_REF or _CTX_REF[0] is not ctx:
        _CTX_REF[:] = [ctx]
        _DELETING_CACHE.clear()
    ctx.rule("C04.R1", "commit-point error classification: CAS conflict -> retryable conflict; any other error "
             "on a CAS / non-atomic backend -> AmbiguousCommitError; clean re-raise only under "
             "storage.atomic_write_failures, which is True only where an exception implies 'not renamed'", 4)
    f = ctx.fn("metadata_manager.MetadataManager._write_hint_at_commit_point")
    g = ctx.cfg(f)
    writes = hint_write_nodes(ctx, f)
    if not writes:
        raise AnalysisError("anchor vanished: no version-hint write in _write_hint_at_commit_point")
    scen = hint_write_scenarios(ctx)
    if scen is not None:
        # decided by scenario (independent of how the try / except / if nest is laid out)
        want = {"cas": (["write_file_cas"], ["ConcurrentModificationException"], ["AmbiguousCommitError"]),
                "local": (["write_file"], [], ["reraise"]),
                "plain": (["write_file"], [], ["AmbiguousCommitError"])}
        what = {"cas": "conditional-write backend (supports_cas)", "local": "temp + rename backend (atomic_write_failures)",
                "plain": "object store without conditional writes"}
        for label in ("cas", "local", "plain"):
            ops, conflict, other = scen[label]["ops"], scen[label]["conflict"], scen[label]["other"]
            w_ops, w_conf, w_other = want[label]
            ctx.ob("C04.R1", f, f"{what[label]}: the pointer is written with {w_ops[0]} only", writes[0], ops == w_ops,
                   f"writes reached: {ops}" + ("" if ops == w_ops else " - on a CAS backend the pointer is only written conditionally; "
                                              "elsewhere there is no ETag to condition on"), text=label + ":op")
            if label == "cas":
                ctx.ob("C04.R1", f, f"{what[label]}: a lost precondition is a clean, retryable conflict", writes[0], conflict == w_conf,
                       f"CASConflictError is reported as {conflict}", text=label + ":conflict")
            ctx.ob("C04.R1", f, f"{what[label]}: any other failure of the pointer write is reported as {w_other[0]}", writes[0], other == w_other,
                   f"reported as {other}" + ("" if other == w_other else (
                       " - temp + rename: an exception means the rename never happened, so the error must propagate unchanged (rollback + "
                       "cleanup run); reclassifying it keeps never-committed files" if label == "local" else
                       " - the write may have been applied before the client saw the error: reporting it as a clean failure (or "
                       "swallowing it) makes the committer delete files the pointer may already name")), text=label + ":other")
    for n in (writes if scen is None else []):
        op = ctx.eff.storage_op(n)
        esc, caught = ctx.eff.propagate(f, {"Exception"}, n.frames, record=False)
        ctx.ob("C04.R1", f, f"commit-point {op}: every Exception intercepted", n, not esc,
               "an exception of the commit-point write must be classified by a handler, none may escape unclassified"
               + (f"; escaping: {sorted(esc)}" if esc else ""))
        for h, _c in caught:
            hn = next(x for x in g.nodes if x.kind == "handler" and x.ast is h)
            hcs = handler_classes(h)
            ex = handler_exits(ctx, f, hn)
            swallow = bool(ex["fallthrough"] or ex["return"] or ex["loop"])
            if set(hcs) <= {"CASConflictError"}:
                ok = (not swallow) and all(r.raised == "ConcurrentModificationException" for r in ex["raise"]) and bool(ex["raise"])
                ctx.ob("C04.R1", f, f"{op}: except CASConflictError", hn, ok,
                       "a lost compare-and-swap is a clean, retryable conflict (ConcurrentModificationException)")
                continue
            # the general handler
            problems = []
            if swallow:
                problems.append("handler can complete normally (error swallowed: caller would report success)")
            for r in ex["raise"]:
                if r.raised == "AmbiguousCommitError":
                    continue
                if r.raised == "reraise":
                    # allowed only under the true-branch of a test on storage.atomic_write_failures
                    if op == "write_file_cas":
                        problems.append("CAS branch re-raises a non-conflict error as a clean failure")
                        continue
                    brs = [b for b in g.nodes if b.kind == "branch" and b.ast is not None
                           and "atomic_write_failures" in norm_text(b.ast) and in_handler(b, h)]
                    ok_path = False
                    for b in brs:
                        t = edge_target(g, b, "true")
                        fl = edge_target(g, b, "false")
                        if t is not None and r.id in reachable_from(g, t) and (fl is None or r.id not in reachable_from(g, fl)):
                            ok_path = True
                    if not ok_path:
                        problems.append("clean re-raise not guarded by storage.atomic_write_failures")
                    continue
                problems.append(f"raises {r.raised} instead of AmbiguousCommitError")
            ctx.ob("C04.R1", f, f"{op}: except {','.join(hcs)}", hn, not problems,
                   "non-conflict error at the commit point -> AmbiguousCommitError (or clean re-raise under "
                   "atomic_write_failures)" + ("; " + "; ".join(problems) if problems else ""))
    for b in [b for b in g.nodes if scen is None and b.kind == "branch" and b.ast is not None and "atomic_write_failures" in norm_text(b.ast)]:
        t = edge_target(g, b, "true")
        if t is None:
            continue
        rs = [g.nodes[x] for x in reachable_from(g, t) if g.nodes[x].kind == "raise"]
        ok = bool(rs) and all(r.raised == "reraise" for r in rs) and norm_text(b.ast).endswith("atomic_write_failures")
        ctx.ob("C04.R1", f, "on an atomic_write_failures backend a failed pointer write is a CLEAN failure", b, ok,
               "temp + rename: an exception means the rename never happened, so the error is re-raised unchanged (rollback + cleanup "
               "run); reclassifying it as ambiguous keeps the never-committed metadata file and data files on disk"
               + ("" if ok else f"; raises reachable from the true edge: {[r.raised for r in rs]}"))
    # supports_cas true-branch must only reach the CAS write, never the plain write
    for b in [b for b in g.nodes if scen is None and b.kind == "branch" and b.ast is not None and "supports_cas" in norm_text(b.ast)]:
        t = edge_target(g, b, "true")
        plain = [n for n in writes if ctx.eff.storage_op(n) != "write_file_cas"]
        if t is None:
            continue
        reach = reachable_from(g, t)
        hit = [n for n in plain if n.id in reach]
        ctx.ob("C04.R1", f, "supports_cas true-branch never falls through to the unconditional write", b, not hit,
               "on a CAS backend the pointer is only written conditionally")
    # atomic_write_failures == True  =>  write_file: exception implies the rename did not happen
    for ci in ctx.prog.classes.values():
        if not ctx.eff.is_storage_class(ci) or "atomic_write_failures" not in ci.methods:
            continue
        m = ci.methods["atomic_write_failures"]
        rets = [n for n in ast.walk(m.node) if isinstance(n, ast.Return)]
        if ci.name == "LocalStorageBackend":
            # the local backend publishes by temp file + rename and nothing can raise after the rename (proved below): it MUST
            # say so - a False here makes every cleanly failed pointer write 'ambiguous', the uncommitted metadata file is kept,
            # and hint-less recovery (highest version on disk) later surfaces a version that was never committed
            ctx.ob("C04.R1", m, "the local backend reports clean write failures as clean", None,
                   bool(rets) and all(is_const(r.value, True) for r in rets),
                   "LocalStorageBackend.atomic_write_failures is True" if rets and all(is_const(r.value, True) for r in rets) else
                   "a failed local write is classified ambiguous: commit() keeps the metadata file of a commit that did not happen")
        if not any(is_const(r.value, True) for r in rets):
            continue
        wf = ctx.prog.find_method(ci, "write_file")
        if wf is None:
            raise AnalysisError(f"{ci.qname} claims atomic_write_failures but has no write_file")
        reps = ctx.calls(wf, prim="os.replace") + ctx.calls(wf, prim="os.rename")
        ctx.ob("C04.R1", wf, "atomic_write_failures backend publishes by rename", reps[0] if reps else None,
               bool(reps), "a backend claiming atomic_write_failures publishes with os.replace")
        for rp in reps:
            bad = escaping_after(ctx, wf, rp)
            ctx.ob("C04.R1", wf, "nothing raises after os.replace", rp, not bad,
                   "after the rename every statement is non-raising (else an exception would NOT imply 'not visible')"
                   + (f"; fallible: {[(b.text[:50], c) for b, c in bad[:3]]}" if bad else ""),
                   witness=[f"{wf.file}:{b.lineno} {b.text[:80]} may raise {c}" for b, c in bad[:6]] or None)


def hint_write_scenarios(ctx: Ctx) -> Optional[Dict[str, Dict[str, object]]]:
    """Scenario evaluation of _write_hint_at_commit_point (nothing is run) for the three kinds of backend -
    (supports_cas, atomic_write_failures) = CAS object store (True, False), local temp+rename (False, True), plain object store
    (False, False): which write is reached, and what a precondition failure / any other failure of it is reported as.  None when
    a scenario cannot be decided."""
    from .common import explore
    f = ctx.fn("metadata_manager.MetadataManager._write_hint_at_commit_point")
    g = ctx.cfg(f)
    writes = hint_write_nodes(ctx, f)
    raises = [n.id for n in g.nodes if n.kind == "raise"]
    out: Dict[str, Dict[str, object]] = {}
    for label, cas, atomic in (("cas", True, False), ("local", False, True), ("plain", False, False)):
        env = {"self.storage.supports_cas": cas, "self.storage.atomic_write_failures": atomic}
        res = explore(ctx, f, [g.entry], env, stop=[w.id for w in writes])
        reached = {nid: store for nid, store, _a in res if nid in {w.id for w in writes}}
        if not reached:
            return None
        info: Dict[str, object] = {"ops": sorted({ctx.eff.storage_op(w) or "?" for w in writes if w.id in reached})}
        for kind, exc in (("conflict", "CASConflictError"), ("other", "OSError")):
            outcomes = set()
            for w in writes:
                if w.id not in reached:
                    continue
                if kind == "conflict" and ctx.eff.storage_op(w) != "write_file_cas":
                    continue
                esc, caught = ctx.eff.propagate(f, {exc}, w.frames, record=False)
                if esc:
                    outcomes.add("escapes:" + exc)
                hs = [h for h, _c in caught]
                if not hs:
                    continue
                hn = next((x for x in g.nodes if x.kind == "handler" and x.ast is hs[0]), None)
                if hn is None:
                    return None
                store0 = {k: v for k, v in reached[w.id].items() if isinstance(k, str)}
                for nid, _st, _a in explore(ctx, f, [hn.id], env, stop=raises, init=dict(store0)):
                    n_ = g.nodes[nid]
                    outcomes.add(n_.raised if n_.kind == "raise" else "completes normally")
                    # building the report must not fail itself: `"...%s" % cause.args` raises TypeError for an exception with no /
                    # several args, and that TypeError leaves the handler INSTEAD of the classification (as a "clean" failure)
                    if n_.kind == "raise" and n_.ast is not None:
                        from .common import resolve_value, module_const_value
                        exprs = [n_.ast] + [x for x, _a2 in resolve_value(ctx, f, getattr(n_.ast, "exc", None), nid) if x is not None]
                        for root in exprs:
                            for x in ast.walk(root):
                                if isinstance(x, ast.BinOp) and isinstance(x.op, ast.Mod):
                                    tmpl = x.left.value if isinstance(x.left, ast.Constant) else module_const_value(ctx, f.module, x.left)
                                    if tmpl is None and isinstance(x.left, ast.Attribute) and f.cls is not None:
                                        tmpl = module_const_value(ctx, f.module, f.cls.consts.get(x.left.attr))
                                    if isinstance(tmpl, str) or tmpl is None:
                                        n_spec = len(re.findall(r"%[^%]", tmpl.replace("%%", ""))) if isinstance(tmpl, str) else None
                                        safe = (isinstance(x.right, ast.Tuple) and (n_spec is None or len(x.right.elts) == n_spec)) \
                                            or (isinstance(x.right, (ast.Constant, ast.JoinedStr)) and n_spec in (None, 1))
                                        if not safe:
                                            outcomes.add("TypeError (formatting the report: `" + norm_text(x)[:40] + "`)")
            info[kind] = sorted(x or "?" for x in outcomes)
        out[label] = info
    return out


# ----------------------------------------------------------------------- R2
def r2(ctx: Ctx) -> None:
    if not _CTX_REF or _CTX_REF[0] is not ctx:
        _CTX_REF[:] = [ctx]
        _DELETING_CACHE.clear()
    ctx.rule("C04.R2", "nothing fallible after the commit point: the normal continuation of every commit-point call, "
             "from the pointer write up to Transaction.commit's `return True`, is exception-escape free", 5)
    chain = commit_chain(ctx)
    if len(chain) < 5:
        raise AnalysisError(f"commit chain has only {len(chain)} links - anchors moved")
    for f, n, is_write in chain:
        bad = escaping_after(ctx, f, n)
        # a retry loop's back edge is not part of the success continuation: keep only nodes from which exit is reachable
        ctx.ob("C04.R2", f, "continuation after commit-point " + ("write" if is_write else "call"), n, not bad,
               "every statement after the commit point is infallible or its exceptions are absorbed"
               + (f"; fallible: {[(b.text[:60], c) for b, c in bad[:3]]}" if bad else ""),
               witness=[f"{f.file}:{b.lineno} {b.text[:80]} may raise {c}" for b, c in bad[:8]] or None)
    for q in ("transaction.Transaction._finish_committed", "metadata_manager.MetadataManager._release_lock_safely"):
        f = ctx.fn(q)
        esc = ctx.eff.escapes[f.qname]
        ctx.ob("C04.R2", f, "exception-escape summary is empty", None, not esc,
               f"{f.name} runs after the commit point and must never raise; escapes: {sorted(esc)}")


# ----------------------------------------------------------------------- R3
def _rollback_calls(ctx: Ctx, f: FunctionInfo) -> List[Node]:
    if not _CTX_REF or _CTX_REF[0] is not ctx:
        _CTX_REF[:] = [ctx]
        _DELETING_CACHE.clear()
    return ctx.calls(f, name="_rollback")


_DELETING_CACHE: Dict[int, bool] = {}
_CTX_REF: List[Ctx] = []


def _is_deleting(n: Node) -> bool:
    """Does this `_rollback(...)` call delete files?  Decided by scenario: the call's arguments (a literal False / True, an enum
    member such as _WrittenFiles.KEEP, nothing = the default) are bound to _rollback's parameters and its body is walked path-
    sensitively - the call deletes iff a storage delete is passed on some path.  Falls back to the literal `delete_files=False`
    test when the arguments cannot be evaluated."""
    v = kwarg(n.ast, "delete_files", 0)
    literal = not is_const(v, False)
    if not _CTX_REF or not isinstance(n.ast, ast.Call):
        return literal
    ctx = _CTX_REF[0]
    key = id(n.ast)
    if key in _DELETING_CACHE:
        return _DELETING_CACHE[key]
    res = literal
    try:
        from .common import concrete_eval, explore, UNKNOWN
        rb = ctx.fn("transaction.Transaction._rollback")
        caller = next((f_ for f_ in ctx.prog.functions.values() if not isinstance(f_.node, ast.Lambda)
                       and any(x is n.ast for x in ast.walk(f_.node))), None)
        pnames = [p_ for p_ in rb.params if p_.name != "self"]
        env: Dict[str, object] = {}
        okb = caller is not None
        if caller is not None:
            cg = ctx.cfg(caller)
            host = next((x.id for x in cg.nodes if x.ast is not None and x.kind in ("call", "stmt", "return") and any(y is n.ast for y in ast.walk(x.ast))), cg.entry)
            for i_, a_ in enumerate(n.ast.args):
                if i_ < len(pnames):
                    env[pnames[i_].name] = concrete_eval(ctx, caller, a_, {}, host)
            for k in n.ast.keywords:
                if k.arg:
                    env[k.arg] = concrete_eval(ctx, caller, k.value, {}, host)
            for p_ in pnames:
                if p_.name not in env:
                    env[p_.name] = concrete_eval(ctx, rb, p_.default, {}, ctx.cfg(rb).entry) if p_.default is not None else UNKNOWN
        if okb and pnames and not any(v_ is UNKNOWN for v_ in env.values()):
            rg = ctx.cfg(rb)
            dels = [d for d in rg.calls() if ctx.eff.storage_op(d) == "delete_file"]
            out = explore(ctx, rb, [rg.entry], env, watch=[d.id for d in dels])
            if out and dels:
                res = any(store.get(("seen", d.id)) for _e, store, _a in out for d in dels)
    except Exception:
        res = literal
    _DELETING_CACHE[key] = res
    return res


def r3(ctx: Ctx) -> None:
    if not _CTX_REF or _CTX_REF[0] is not ctx:
        _CTX_REF[:] = [ctx]
        _DELETING_CACHE.clear()
    ctx.rule("C04.R3", "rollback policy: the ambiguous-outcome handler never reaches a deleting rollback and re-raises; "
             "_rollback deletes only under delete_files, and only paths this transaction wrote", 5)
    f = ctx.fn("transaction.Transaction.commit")
    g = ctx.cfg(f)
    amb = [hn for hn in handler_nodes(ctx, f) if "AmbiguousCommitError" in handler_classes(hn.ast)]  # type: ignore[arg-type]
    ctx.ob("C04.R3", f, "AmbiguousCommitError handler exists", amb[0] if amb else None, bool(amb),
           "Transaction.commit distinguishes the ambiguous outcome from clean failures", nontrivial=False)
    for hn in amb:
        h = hn.ast
        inside = [n for n in _rollback_calls(ctx, f) if in_handler(n, h)]  # type: ignore[arg-type]
        dele = [n for n in inside if _is_deleting(n)]
        ctx.ob("C04.R3", f, "ambiguous handler: no deleting rollback", hn, not dele and bool(inside),
               "on an ambiguous commit-point failure written files are kept (_rollback(delete_files=False))")
        ctx.ob("C04.R3", f, "ambiguous handler re-raises", hn, handler_always_raises(ctx, f, hn),
               "the ambiguous outcome is reported, never swallowed")
        # AmbiguousCommitError must be intercepted by THIS handler, not an earlier broader one
        t = hn.stmt
        order = [handler_classes(x) for x in t.handlers]  # type: ignore[union-attr]
        idx = next(i for i, x in enumerate(t.handlers) if x is h)  # type: ignore[union-attr]
        shadow = [cs for cs in order[:idx] if any(c in ("Exception", "BaseException") or
                                                 ctx.prog.exc_is_subclass("AmbiguousCommitError", c) for c in cs)]
        ctx.ob("C04.R3", f, "ambiguous handler not shadowed by an earlier handler (class hierarchy included)", hn, not shadow,
               "handler order: AmbiguousCommitError is matched before `except Exception`, and no earlier handler names one of its "
               f"base classes (earlier handlers: {order[:idx]}; AmbiguousCommitError bases: "
               f"{ctx.prog.exc_parent('AmbiguousCommitError')})")
    rb = ctx.fn("transaction.Transaction._rollback")
    rg = ctx.cfg(rb)
    dels = ctx.calls(rb, storage="delete_file")
    switch = next((p_.name for p_ in rb.params if p_.name != "self"), "delete_files")
    brs = [b for b in rg.nodes if b.kind == "branch" and b.ast is not None and switch in names_in(b.ast)]
    ctx.ob("C04.R3", rb, "_rollback tests delete_files", brs[0] if brs else None, bool(brs) and bool(dels),
           f"_rollback has a `{switch}` switch and delete sinks", nontrivial=False)
    if switch == "delete_files":
        for b in brs:
            fl = edge_target(rg, b, "false")  # delete_files is False
            if fl is None:
                continue
            reach = reachable_from(rg, fl)
            hit = [d for d in dels if d.id in reach]
            ctx.ob("C04.R3", rb, "no delete reachable when delete_files is False", b, not hit,
                   "with delete_files=False neither files nor markers are deleted",
                   witness=[f"{rb.file}:{d.lineno} {d.text}" for d in hit] or None)
    else:
        # the switch is spelled differently (an enum, a mode string): decided per call site by scenario (_is_deleting) - both
        # modes must exist among the transaction's own calls
        calls_ = [n for m_ in ctx.prog.cls("transaction.Transaction").methods.values() for n in _rollback_calls(ctx, m_)]
        modes = {_is_deleting(n) for n in calls_}
        ctx.ob("C04.R3", rb, "no delete reachable when delete_files is False", brs[0] if brs else None, modes == {True, False},
               f"the `{switch}` switch distinguishes a deleting from a keeping rollback at the transaction's call sites: modes seen {sorted(modes)}")
    sl = ctx.slicer(rb)
    for d in dels:
        arg = d.ast.args[0] if isinstance(d.ast, ast.Call) and d.ast.args else None
        org = sl.origins(arg, d.id)
        names = org["names"]
        ok = any(x in names for x in ("self._written_files", "self._inflight_markers")) and not org["params"] - {"self"}
        ctx.ob("C04.R3", rb, "delete sink argument provenance", d, ok,
               "deleted paths are elements of self._written_files / self._inflight_markers only "
               f"(slice names: {sorted(n for n in names if n.startswith('self.'))})")
    # _written_files only receives paths this transaction wrote (append dominated by the write of the same path)
    tr = ctx.prog.cls("transaction.Transaction")
    for m in tr.methods.values():
        mg = ctx.cfg(m)
        for n in mg.calls():
            a = n.ast
            if not (isinstance(a, ast.Call) and isinstance(a.func, ast.Attribute) and a.func.attr in ("append", "extend")
                    and norm_text(a.func.value) == "self._written_files"):
                continue
            var = names_in(a.args[0]) if a.args else set()
            writes = [w for w in ctx.calls(m, name="write_data_file")
                      if var & names_in(kwarg(w.ast, "file_path", 0))]
            dom = ctx.dom(m, NORMAL)
            ok = any(w.id in dom.get(n.id, set()) for w in writes)
            ctx.ob("C04.R3", m, "_written_files.append follows the write of that path", n, ok,
                   "only files this transaction has written are registered for rollback deletion")


# ----------------------------------------------------------------------- R4
def deactivators(ctx: Ctx) -> Set[str]:
    """Transaction methods that set self._is_active = False on every normal path."""
    out = set()
    tr = ctx.prog.cls("transaction.Transaction")
    for m in tr.methods.values():
        g = ctx.cfg(m)
        sets = [n for n in g.nodes if n.kind == "stmt" and isinstance(n.ast, ast.Assign)
                and any(norm_text(t) == "self._is_active" for t in n.ast.targets) and is_const(n.ast.value, False)]
        if not sets:
            continue
        from ..flow import find_path
        if find_path(g, g.entry, [g.exit], avoid=[s.id for s in sets], labels=NORMAL) is None:
            out.add(m.name)
    return out


def r4(ctx: Ctx) -> None:
    if not _CTX_REF or _CTX_REF[0] is not ctx:
        _CTX_REF[:] = [ctx]
        _DELETING_CACHE.clear()
    ctx.rule("C04.R4", "asynchronous BaseException (KeyboardInterrupt/SystemExit) raised once the commit-point call "
             "has been entered is intercepted in Transaction.commit by a handler that deactivates the transaction "
             "without deleting, so the context manager's __exit__ cannot run a deleting rollback", 2)
    f = ctx.fn("transaction.Transaction.commit")
    g = ctx.cfg(f)
    deact = deactivators(ctx)
    chain = [(ff, n) for ff, n, _w in commit_chain(ctx) if ff.qname == f.qname]
    if not chain:
        raise AnalysisError("no commit-point call found in Transaction.commit")
    # precondition: __exit__ -> rollback() is a deleting rollback when still active (else R4 is vacuous)
    ex = ctx.fn("transaction.Transaction.__exit__")
    rb_pub = ctx.fn("transaction.Transaction.rollback")
    exit_rolls = bool(ctx.calls(ex, name="rollback")) and any(_is_deleting(n) for n in _rollback_calls(ctx, rb_pub))
    for _ff, n in chain:
        region = [n] + [m for m in normal_continuation(ctx, f, n)
                        if not (m.kind == "call" and any(t.name in deact for t in ctx.eff.callees(f, m)))
                        and m.kind not in ("exit",)]
        # region ends at the first deactivating call (inclusive of nodes before it)
        cut = []
        for m in [n] + normal_continuation(ctx, f, n):
            cut.append(m)
            if m.kind == "call" and any(t.name in deact for t in ctx.eff.callees(f, m)):
                break
        bad: List[str] = []
        for m in cut:
            esc, caught = ctx.eff.propagate(f, {"KeyboardInterrupt"}, m.frames, record=False)
            if esc and exit_rolls:
                bad.append(f"{f.file}:{m.lineno} `{m.text[:60]}`: KeyboardInterrupt escapes commit() with the "
                           f"transaction still active -> __exit__ -> rollback() deletes written files")
                continue
            for h, _c in caught:
                hn = next(x for x in g.nodes if x.kind == "handler" and x.ast is h)
                inside = [r for r in _rollback_calls(ctx, f) if in_handler(r, h)]
                if any(_is_deleting(r) for r in inside):
                    bad.append(f"{f.file}:{hn.lineno} handler for BaseException runs a deleting rollback")
                dcalls = [c for c in g.calls() if in_handler(c, h) and any(t.name in deact for t in ctx.eff.callees(f, c))]
                if not dcalls and exit_rolls:
                    bad.append(f"{f.file}:{hn.lineno} BaseException handler leaves the transaction active")
        ctx.ob("C04.R4", f, "async exception inside the commit-point region", n, not bad,
               "KeyboardInterrupt/SystemExit after the commit-point call was entered must not reach a deleting rollback"
               + (f"; {len(bad)} node(s) unprotected" if bad else ""), witness=bad[:8] or None)
    ctx.ob("C04.R4", ex, "__exit__ rolls back on any exception type (precondition of R4)", None, True,
           f"__exit__ -> rollback() deleting={exit_rolls}; deactivating methods: {sorted(deact)}", nontrivial=False)


# ----------------------------------------------------------------------- R5
COMMIT_PATH_MODULES = ("transaction", "snapshot_manager", "metadata_manager", "file_manager")
POST_COMMIT = {"_finish_committed", "_rollback", "_release_lock_safely", "rollback", "__exit__"}


def commit_path_functions(ctx: Ctx) -> List[FunctionInfo]:
    roots = [ctx.fn("transaction.Transaction.commit"), ctx.fn("transaction.Transaction.append_data"),
             ctx.fn("transaction.Transaction.append_files"), ctx.fn("snapshot_manager.SnapshotManager.delete_snapshot")]
    seen: Dict[str, FunctionInfo] = {}
    for r in roots:
        seen[r.qname] = r
        for f, n, _c in ctx.eff.transitive_calls(r):
            for t in ctx.eff.callees(f, n):
                seen.setdefault(t.qname, t)
    out = []
    for f in seen.values():
        top = f
        while top.parent is not None:
            top = top.parent
        owners = owner_tops(ctx, f) or [top]
        if top.module.short in COMMIT_PATH_MODULES and not all(o.name in POST_COMMIT for o in owners):
            out.append(f)
    return sorted(out, key=lambda x: x.qname)


def swallow_allow_key(ctx: Ctx, f: FunctionInfo, hn: Node) -> Tuple[str, str]:
    cs = ",".join(handler_classes(hn.ast))  # type: ignore[arg-type]
    top = f
    while top.parent is not None:
        top = top.parent
    if cs == "Exception":
        from .common import guarded_names
        gn = guarded_names(ctx, f, hn.stmt)
        if gn:
            cs = "Exception#" + "+".join(gn)
    return (ctx.prog.anchor(top), cs)


def r5(ctx: Ctx) -> None:
    if not _CTX_REF or _CTX_REF[0] is not ctx:
        _CTX_REF[:] = [ctx]
        _DELETING_CACHE.clear()
    ctx.rule("C04.R5", "no swallowing before the commit point: every except-handler on the commit path re-raises or "
             "converts; a handler that can complete normally must be in the reasoned allow-list", 12)
    fns = commit_path_functions(ctx)
    if len(fns) < 15:
        raise AnalysisError(f"commit path has only {len(fns)} functions - call graph broken")
    for f in fns:
        if judged_in_callers(ctx, f):
            continue  # a helper introduced later: its handlers are judged where it is inlined (in its callers)
        for hn in handler_nodes(ctx, f):
            if hn.id not in ctx.cfg(f).reachable():
                continue
            ex = handler_exits(ctx, f, hn)
            swallow = bool(ex["fallthrough"] or ex["return"] or ex["loop"])
            if not swallow:
                ctx.ob("C04.R5", f, handler_key(ctx, f, hn), hn, True, "handler re-raises / converts on every path", text="")
                continue
            k = swallow_allow_key(ctx, f, hn)
            reason = SWALLOW_OK.get(k)
            if reason is None:
                for o in owner_tops(ctx, f):
                    reason = reason or SWALLOW_OK.get((ctx.prog.anchor(o), k[1]))
            if reason is None and cleanup_in_reraising_handler(ctx, f, hn):
                reason = "best-effort cleanup nested in a handler that re-raises the original error on every path"
            if reason is None:
                from .common import cleanup_in_flagged_finally
                if cleanup_in_flagged_finally(ctx, f, hn):
                    reason = "best-effort cleanup in a `finally`, run only under `not <flag>` while the original error is still travelling"
            if reason is None and pure_guard(ctx, f, hn):
                reason = "guards a pure computation (builtins only, value errors only): no storage / parse failure can be hidden"
            ctx.ob("C04.R5", f, handler_key(ctx, f, hn), hn, reason is not None,
                   (f"allow-listed: {reason}" if reason else
                    f"handler can complete normally (error swallowed / default substituted) on the commit path; key={k}"),
                   text="")


def r6(ctx: Ctx) -> None:
    if not _CTX_REF or _CTX_REF[0] is not ctx:
        _CTX_REF[:] = [ctx]
        _DELETING_CACHE.clear()
    ctx.rule("C04.R6", "an ambiguous commit-point failure deletes nothing: on the AmbiguousCommitError route out of the commit chain "
             "no handler / finally body reaches a storage delete", 2)
    from ..flow import names_in as _names_in
    def route(f, n, _is_write, exc_cls):  # type: ignore[no-untyped-def]
        g = ctx.cfg(f)
        bad: List[str] = []
        # walk the frames outward as an exception of class exc_cls would
        live = True
        amb_handlers: Dict[int, ast.ExceptHandler] = {}
        for fr in reversed(n.frames):
            if not live:
                break
            if fr.kind != "try":
                continue
            t = fr.node
            if fr.part == "body":
                for h in t.handlers:  # type: ignore[attr-defined]
                    hcs = handler_classes(h)
                    full = any(ctx.prog.exc_is_subclass(exc_cls, hc) for hc in hcs)
                    if not full:
                        continue
                    amb_handlers[id(t)] = h
                    dels = [d for d in g.calls() if in_handler(d, h) and (ctx.eff.storage_op(d) == "delete_file"
                            or any(tt.name == "_rollback" and _is_deleting(d) for tt in ctx.eff.callees(f, d)))]
                    for d in dels:
                        bad.append(f"{f.file}:{d.lineno} `{d.text[:60]}` in `except {','.join(hcs)}` runs on this route")
                    hn = next((x for x in g.nodes if x.kind == "handler" and x.ast is h), None)
                    if hn is not None:
                        ex = handler_exits(ctx, f, hn)
                        if not ex["raise"]:
                            live = False
                        if f.qname != "datashard.transaction.Transaction.commit" and not _is_write:
                            conv = [r for r in ex["raise"] if r.raised not in ("reraise", "AmbiguousCommitError")]
                            for r in conv:
                                bad.append(f"{f.file}:{r.lineno} `except {','.join(hcs)}` converts the ambiguous error into {r.raised}: "
                                           f"Transaction.commit then treats it as a clean failure and runs the deleting rollback")
                            if ex["fallthrough"] or ex["return"]:
                                bad.append(f"{f.file}:{hn.lineno} `except {','.join(hcs)}` swallows the ambiguous error")
                    break  # first matching handler wins
            if fr.part in ("body", "handler", "else") and t.finalbody:  # type: ignore[attr-defined]
                fin_nodes = [d for d in g.calls() if any(x.kind == "try" and x.node is t and x.part == "final" for x in d.frames)
                             and "cleanup:exc" in "".join(sorted(g.nodes[d.id].flags)) or
                             (any(x.kind == "try" and x.node is t and x.part == "final" for x in d.frames))]
                for d in fin_nodes:
                    if ctx.eff.storage_op(d) != "delete_file":
                        continue
                    # tolerated only if guarded by a flag that the ambiguous path cannot satisfy: the delete runs under
                    # `not <flag>` and the AmbiguousCommitError handler of the SAME try sets `<flag> = True` before each raise
                    h_amb = amb_handlers.get(id(t))
                    flags_ = set()
                    for pol_, e_, _a in facts_at(ctx, f, d):
                        if pol_ == "false" and isinstance(e_, ast.Name):
                            flags_.add(e_.id)
                        if pol_ == "true" and isinstance(e_, ast.UnaryOp) and isinstance(e_.op, ast.Not) and isinstance(e_.operand, ast.Name):
                            flags_.add(e_.operand.id)
                    if h_amb is not None and flags_:
                        hn_ = next((x for x in g.nodes if x.kind == "handler" and x.ast is h_amb), None)
                        dom_ = ctx.dom(f, ALL)
                        rs_ = [x for x in g.nodes if x.kind == "raise" and in_handler(x, h_amb)]
                        sets_ = [x for x in g.nodes if x.kind == "stmt" and isinstance(x.ast, ast.Assign) and in_handler(x, h_amb)
                                 and any(isinstance(tg, ast.Name) and tg.id in flags_ for tg in x.ast.targets) and is_const(x.ast.value, True)]
                        resets_ = [x for x in g.nodes if x.kind == "stmt" and isinstance(x.ast, ast.Assign) and in_handler(x, h_amb)
                                   and any(isinstance(tg, ast.Name) and tg.id in flags_ for tg in x.ast.targets) and not is_const(x.ast.value, True)]
                        if hn_ is not None and rs_ and not resets_ and all(any(s_.id in dom_[r_.id] for s_ in sets_) for r_ in rs_):
                            continue
                    bad.append(f"{f.file}:{d.lineno} `{d.text[:60]}` in a `finally` the ambiguous error passes through")
        return bad

    for f, n, _is_write in commit_chain(ctx):
        bad = route(f, n, _is_write, "AmbiguousCommitError")
        # the same walk for an interrupt raised once the commit-point call was entered (the pointer may have moved): a
        # flag-guarded cleanup in a `finally` is fine only if a BaseException handler marks the outcome as unknown first
        bad_i = [b_ for b_ in route(f, n, _is_write, "KeyboardInterrupt") if "converts the ambiguous" not in b_ and "swallows the ambiguous" not in b_]
        ctx.ob("C04.R6", f, "no delete on the interrupt route from this commit-point call", n, not bad_i,
               "KeyboardInterrupt / SystemExit after the commit-point call was entered leaves every written file in place",
               witness=sorted(set(bad_i))[:6] or None, text="interrupt:" + n.text[:40])
        ctx.ob("C04.R6", f, "no delete on the ambiguous route from this commit-point call", n, not bad,
               "when the outcome of the pointer write is unknowable no file written by the transaction (incl. the new metadata "
               "file the pointer may already name) is deleted", witness=sorted(set(bad))[:6] or None)
