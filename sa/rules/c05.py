"""C05 - garbage collection never deletes anything reachable or in flight."""
from __future__ import annotations

import ast
from typing import Dict, List, Optional, Set, Tuple

from ..cfg import NORMAL, Node
from ..core import Ctx
from ..flow import ALL, find_path, names_in
from ..model import AnalysisError, FunctionInfo, dotted, norm_text
from .common import effective_compare, is_canonical_base_call, edge_target, fold_str, kwarg, path_arg, reachable_from

EXPLANATION = (
    "Static analysis of GarbageCollector: (R1) the reachability walk covers every retained snapshot - loop "
    "iterables and the branch conditions dominating each set insertion are extracted from the CFG (no filter on "
    "current_snapshot_id, no break); (R2a) def-use: every element inserted into a reachable/protected set and the "
    "key tested against it are results of the same normaliser; (R2b, PATHPREFIX) a startswith()/slice against a "
    "filesystem LOCATION must be separator-terminated - a bare prefix cannot tell the location '/data' from the "
    "entry '/data/x.parquet'; (R3) dominance: each delete sink is dominated by the not-reachable branch and the "
    "age branch, the reachable-set argument is a union containing the protected set; (R4) list_files and "
    "_resolve_path use the same canonical base; (R5) the collected prefixes equal the directories the writers use."
    ' Also: (R1b) no skip path in the reachability loops; (R7) marker read precedes the metadata read; (R8) markers are removed only after the commit point; (R9) S3 listings are complete (paginator / NextContinuationToken) and confined; (R10) the collector honours every fresh marker (each non-stale *.inflight entry reaches protected.add; a payload naming a path determines the protected path).'
    " (R11) the collector's handler table (shared with C07.R1): a marker it cannot list / stat / read keeps protection in force or aborts."
    ' (R12) who-may-delete census (shared with C09.R3); (R13) every data-file production site is dominated by _register_inflight for the same path (shared with C06.R10).'
    ' (R14) the manifest parsers drop no entry (shared with C14.R7).'
    " (R18) the marker abandonment window is never derived: call sites of collect / _load_inflight_protection omit it, name DEFAULT_INFLIGHT_TIMEOUT_MS or pass on a same-default parameter; (R19) no handler on the collector's read path (metadata resolution, manifest readers, backends) completes normally."
    ' (R20) recovery orders versions as integers; (R21) the metadata decoder reads every written key strictly; R18 also requires DEFAULT_INFLIGHT_TIMEOUT_MS to evaluate at compile time (literals, module constants, pure module helpers, timedelta) to an integer of milliseconds >= the default grace period; R3 reads the keep-set union through locals, a.union(b, c) and in-place update.'
    ' (R23) numbers (grace 0, cutoffs, mtimes) are never truth-tested; (R24) durations use total_seconds(); R2 reads the marker target through helpers and requires the legacy name to drop exactly the marker suffix; R18 evaluates the window at compile time (named constants, pure helpers, timedelta).'
    ' R1: a reach set is only ever EXTENDED inside the snapshot / manifest loops (|=, update, add) - an assignment there replaces what earlier snapshots contributed; R4 finds the canonical base by role (a fresh realpath(self.base_path), not a stored attribute).')
NOT_DECIDED = ("histories x location spellings at run time; that orphans are in fact removed; grace-period arithmetic")

GC = "garbage_collector.GarbageCollector"
LOCATION_ATTRS = ("table_path", "base_path", "prefix")


def check(ctx: Ctx) -> None:
    r1(ctx)
    r1_noskip(ctx, "C05.R1b")
    r2(ctx)
    r3(ctx, "C05.R3")
    r4(ctx, "C05.R4")
    r5(ctx)
    from .c06 import r1 as c06_r1, r2 as c06_r2, r3 as c06_r3, r_honoured
    c06_r1(ctx, "C05.R6")
    c06_r3(ctx, "C05.R7")
    c06_r2(ctx, "C05.R8")
    from .c20 import r5 as c20_r5
    c20_r5(ctx, "C05.R9")
    r_honoured(ctx, "C05.R10")
    # the collector's handling of markers it cannot list / stat / read keeps protection in force (fail closed)
    from .c07 import r1 as c07_r1
    c07_r1(ctx, "C05.R11")
    # the guarantee is about the files, whoever deletes them: a deleter outside the collector (eager clean-up in a snapshot
    # deletion / expiry API) does not consult all retained snapshots, and every later collection then aborts on the hole
    from .c09 import r3 as c09_r3
    ctx.shared(c09_r3, "C09.R3", "C05.R12", "only the collector (and the rollback of never-committed files) deletes")
    # "no file registered by a live transaction": every data file a transaction writes is registered the one way the collector
    # understands (a per-file marker written by _register_inflight)
    from .c06 import data_writes_protected
    data_writes_protected(ctx, "C05.R13")
    # the collector's reachable set is what the parsers hand it: a parser that drops entries makes live files look unreachable
    from .c14 import parsers_keep_every_entry
    parsers_keep_every_entry(ctx, "C05.R14")
    # the marker listing must be complete: a marker on page 2 that is never requested protects nothing
    from .c20 import r10_listing_exhaustive
    r10_listing_exhaustive(ctx, "C05.R15")
    # marker / file ages decide what is abandoned or collectable: on S3 they come from LastModified and must be UTC-correct
    from .c20 import r11_utc_ages
    r11_utc_ages(ctx, "C05.R16")
    # "for any spelling of the table location ... S3 prefix": keys are the plain prefix join, so what the collector lists is what
    # the manifests name
    from .c20 import r9_key_roundtrip
    r9_key_roundtrip(ctx, "C05.R17")
    abandonment_window_not_derived(ctx)
    # the reachable set is computed from what the collector is TOLD: a callee that answers a failure with an older metadata
    # version / a shorter list makes live files look unreachable
    from .c14 import READ_MODULES, r1 as c14_r1
    c14_r1(ctx, "C05.R19", [ctx.fn("garbage_collector.GarbageCollector.collect")], READ_MODULES + ("storage_backend", "s3_consistency"),
           "collector's inputs: every handler in a function GarbageCollector.collect reaches (outside the collector itself)", 10, 12)
    # the collector computes reachability from the version recovery resolves: a lexicographic 'latest' (v9 over v12) makes every later snapshot's files unreachable
    from .c10 import r11 as c10_r11
    c10_r11(ctx, "C05.R20")
    # reachability is computed from the decoded metadata: a lenient decoder hides retained snapshots
    from .c14 import metadata_reader_is_strict
    metadata_reader_is_strict(ctx, "C05.R21")
    # an unreadable manifest read as empty makes live files unreachable
    from .c14 import parsers_read_containers_strictly
    parsers_read_containers_strictly(ctx, "C05.R22")
    from .common import numbers_not_truth_tested
    numbers_not_truth_tested(ctx, "C05.R23", ("garbage_collector",), "grace period 0, cutoffs, modification times")
    from .c19 import durations_use_total_seconds
    durations_use_total_seconds(ctx, "C05.R24", ("garbage_collector",))


def abandonment_window_not_derived(ctx: Ctx, rid: str = "C05.R18") -> None:
    ctx.rule(rid, "the marker abandonment window is a constant of the design, never derived: every package call of "
             "GarbageCollector.collect / _load_inflight_protection either omits the in-flight timeout (default "
             "DEFAULT_INFLIGHT_TIMEOUT_MS), names that constant, or passes on its own parameter whose default is that constant (an "
             "explicit choice of the caller's caller) - a window computed from the grace period, a table property or a clock "
             "strips the markers of a transaction that is still running", 1)
    from .common import resolve_value
    n_sites = 0

    def is_const(e: Optional[ast.AST]) -> bool:
        return e is not None and (dotted(e) or "").split(".")[-1] == "DEFAULT_INFLIGHT_TIMEOUT_MS"

    def ok_value(f: FunctionInfo, e: ast.AST, at: int, depth: int = 0) -> Tuple[bool, str]:
        for src, sat in resolve_value(ctx, f, e, at):
            if src is None:
                return False, "unresolved"
            if is_const(src):
                continue
            if isinstance(src, ast.IfExp) and isinstance(src.test, ast.Compare) and len(src.test.ops) == 1 \
                    and isinstance(src.test.left, ast.Name) and any(p.name == src.test.left.id for p in f.params) \
                    and isinstance(src.test.comparators[0], ast.Constant) and src.test.comparators[0].value is None \
                    and isinstance(src.test.ops[0], (ast.Is, ast.IsNot)):
                # `DEFAULT if p is None else p`: the caller's explicit choice, the design constant when none was made
                none_arm, given_arm = (src.body, src.orelse) if isinstance(src.test.ops[0], ast.Is) else (src.orelse, src.body)
                par_ = next(p for p in f.params if p.name == src.test.left.id)
                if is_const(none_arm) and isinstance(given_arm, ast.Name) and given_arm.id == par_.name \
                        and isinstance(par_.default, ast.Constant) and par_.default.value is None:
                    continue
                return False, f"`{norm_text(src)[:70]}` in {f.name}"
            if isinstance(src, ast.Name) and any(p.name == src.id for p in f.params) and ctx.cfg(f).entry in ctx.rd(f).reaching(sat, src.id) \
                    and len(ctx.rd(f).reaching(sat, src.id)) == 1:
                par = next(p for p in f.params if p.name == src.id)
                if is_const(par.default):
                    continue
                if par.default is None and depth < 3:
                    # a required parameter: judged at this function's own call sites
                    sites = ctx.eff.call_sites.get(f.qname, [])
                    bad = None
                    for caller, n in sites:
                        a = ctx.eff.bind_arg(n.ast, f, par.name, True) if isinstance(n.ast, ast.Call) else None
                        if a is None:
                            bad = f"{caller.qname} passes nothing"
                            break
                        good, why = ok_value(caller, a, n.id, depth + 1)
                        if not good:
                            bad = why
                            break
                    if sites and bad is None:
                        continue
                    return False, bad or f"parameter `{par.name}` of {f.name} has no call site in the package"
                return False, f"parameter `{par.name}` of {f.name} defaults to `{norm_text(par.default) if par.default is not None else None}`"
            return False, f"`{norm_text(src)[:70]}` in {f.name}"
        return True, ""

    for q in ("garbage_collector.GarbageCollector.collect", "garbage_collector.GarbageCollector._load_inflight_protection"):
        t = ctx.fn(q)
        pn = next((p.name for p in t.params if "inflight" in p.name or "timeout" in p.name), None)
        if pn is None:
            raise AnalysisError(f"{q} has no in-flight timeout parameter")
        par = next(p for p in t.params if p.name == pn)
        if t.name == "collect":
            ctx.ob(rid, t, "collect()'s own default is the design constant", None, is_const(par.default),
                   f"default of `{pn}`: {norm_text(par.default) if par.default is not None else None}", text="default")
            # ... and the constant IS a constant: an integer literal expression of at least the default grace period, in
            # milliseconds (not an environment read, not a value in seconds)
            from .common import module_const_number
            cdef = t.module.consts.get("DEFAULT_INFLIGHT_TIMEOUT_MS")
            val = module_const_number(ctx, t.module, cdef)
            gdef = next((p_.default for p_ in t.params if "grace" in p_.name), None)
            gval = module_const_number(ctx, t.module, gdef)
            if gval is None:
                gval = 3600000
            okv = isinstance(val, int) and not isinstance(val, bool) and val >= gval
            ctx.ob(rid, t, "DEFAULT_INFLIGHT_TIMEOUT_MS is a compile-time integer of milliseconds >= the default grace period", None, okv,
                   f"value: {val if val is not None else norm_text(cdef)[:60] if cdef is not None else None}; default grace period: {gval} ms"
                   + ("" if okv else " - a window read from the environment / expressed in seconds strips the markers of transactions "
                      "that are still running"), text="const")
        for caller, n in ctx.eff.call_sites.get(t.qname, []):
            if not isinstance(n.ast, ast.Call):
                continue
            n_sites += 1
            a = ctx.eff.bind_arg(n.ast, t, pn, True)
            if a is None:
                ctx.ob(rid, caller, f"{t.name}() call leaves the window at its default", n, t.name == "collect", "omitted")
                continue
            good, why = ok_value(caller, a, n.id)
            ctx.ob(rid, caller, f"{t.name}() is handed the design constant or an explicit choice passed through", n, good,
                   "the in-flight timeout is DEFAULT_INFLIGHT_TIMEOUT_MS or the caller's own same-default parameter" if good else
                   f"the abandonment window is derived: {why} - markers of a transaction that is still open can be swept and its "
                   "files collected")
    if n_sites == 0:
        raise AnalysisError("no call site of GarbageCollector.collect found")


def _union_parts(ctx: Ctx, f: FunctionInfo, e: Optional[ast.AST], at: int, depth: int = 0) -> Tuple[List[Tuple[ast.AST, int]], bool]:
    """(leaf set expressions, pure) of a set-valued expression: `a | b`, `a.union(b, c)`, `set(a)`, a local built from those,
    and in-place extensions (`s.update(x)`, `s |= x`) that dominate the use.  pure is False when an intersection / difference
    (`&`, `-`, .intersection, .difference, .discard ...) takes part."""
    g = ctx.cfg(f)
    if e is None or depth > 6:
        return [], True
    if isinstance(e, ast.BinOp):
        if isinstance(e.op, ast.BitOr):
            l, pl = _union_parts(ctx, f, e.left, at, depth + 1)
            r, pr = _union_parts(ctx, f, e.right, at, depth + 1)
            return l + r, pl and pr
        return [(e, at)], False
    if isinstance(e, ast.Call) and isinstance(e.func, ast.Attribute) and e.func.attr == "union":
        out, pure = _union_parts(ctx, f, e.func.value, at, depth + 1)
        for a in e.args:
            o2, p2 = _union_parts(ctx, f, a, at, depth + 1)
            out, pure = out + o2, pure and p2
        return out, pure
    if isinstance(e, ast.Call) and isinstance(e.func, ast.Attribute) and e.func.attr in ("intersection", "difference", "symmetric_difference"):
        return [(e, at)], False
    if isinstance(e, ast.Call) and isinstance(e.func, ast.Name) and e.func.id in ("set", "frozenset") and len(e.args) == 1:
        return _union_parts(ctx, f, e.args[0], at, depth + 1)
    if isinstance(e, ast.Name):
        dom = ctx.dom(f, NORMAL)
        out: List[Tuple[ast.AST, int]] = [(e, at)]
        pure = True
        for d in ctx.rd(f).reaching(at, e.id):
            dn = g.nodes[d]
            if d != g.entry and isinstance(dn.ast, ast.Assign) and not isinstance(dn.ast.value, (ast.Name,)) \
                    and isinstance(dn.ast.value, (ast.BinOp, ast.Call)) and len(dn.ast.targets) == 1 and isinstance(dn.ast.targets[0], ast.Name):
                o2, p2 = _union_parts(ctx, f, dn.ast.value, d, depth + 1)
                if len(o2) >= 2 or not p2:
                    out, pure = out + o2, pure and p2
        for n in g.nodes:
            a = n.ast
            if n.id == at or n.id not in dom[at]:
                continue
            if n.kind == "call" and isinstance(a, ast.Call) and isinstance(a.func, ast.Attribute) and isinstance(a.func.value, ast.Name) \
                    and a.func.value.id == e.id:
                if a.func.attr == "update" and a.args and not isinstance(a.args[0], (ast.GeneratorExp, ast.ListComp, ast.SetComp)):
                    for x in a.args:
                        o2, p2 = _union_parts(ctx, f, x, n.id, depth + 1)
                        out, pure = out + o2, pure and p2
                elif a.func.attr in ("intersection_update", "difference_update", "discard", "remove", "clear", "pop"):
                    pure = False
            if n.kind == "stmt" and isinstance(a, ast.AugAssign) and isinstance(a.target, ast.Name) and a.target.id == e.id:
                if isinstance(a.op, ast.BitOr):
                    o2, p2 = _union_parts(ctx, f, a.value, n.id, depth + 1)
                    out, pure = out + o2, pure and p2
                else:
                    pure = False
        return out, pure
    return [(e, at)], True


class Contrib:
    """One way elements get into a set variable: `S.add(e)`, `S.update(<iterable / comprehension>)`, `S = {e for ...}`."""
    def __init__(self, sname: str, node: Node, elt: ast.AST, gens: List[Tuple[Optional[str], ast.AST]], filters: List[ast.AST]) -> None:
        self.sname, self.node, self.elt, self.gens, self.filters = sname, node, elt, gens, filters


def contributions(ctx: Ctx, f: FunctionInfo) -> List[Contrib]:
    out: List[Contrib] = []

    def comp_parts(e: ast.AST):
        if isinstance(e, (ast.SetComp, ast.ListComp, ast.GeneratorExp)):
            gens = [((g_.target.id if isinstance(g_.target, ast.Name) else None), g_.iter) for g_ in e.generators]
            filters = [c for g_ in e.generators for c in g_.ifs]
            return e.elt, gens, filters
        if isinstance(e, ast.Call) and isinstance(e.func, ast.Name) and e.func.id in ("set", "frozenset", "list") and len(e.args) == 1:
            return comp_parts(e.args[0])
        return None

    for n in ctx.cfg(f).nodes:
        a = n.ast
        if n.kind == "call" and isinstance(a, ast.Call) and isinstance(a.func, ast.Attribute) and a.func.attr in ("add", "update") \
                and a.args and isinstance(a.func.value, ast.Name):
            cp = comp_parts(a.args[0]) if a.func.attr == "update" else None
            if cp is None and a.func.attr == "update" and any(
                    isinstance(x, ast.Call) and (dotted(x.func) or "").endswith("_load_inflight_protection")
                    for x in ctx.slicer(f).origins(a.args[0], n.id)["calls"]):
                continue  # `reachable.update(protected)`: the keep-set union done in place (judged by R3), not a reachability source
            if cp is not None:
                out.append(Contrib(a.func.value.id, n, cp[0], cp[1], cp[2]))
            else:
                out.append(Contrib(a.func.value.id, n, a.args[0], [], []))
        elif n.kind == "stmt" and isinstance(a, ast.Assign) and len(a.targets) == 1 and isinstance(a.targets[0], ast.Name):
            cp = comp_parts(a.value)
            if cp is not None:
                c_ = Contrib(a.targets[0].id, n, cp[0], cp[1], cp[2])
                c_.overwrites = any(fr.kind == "loop" for fr in n.frames)  # type: ignore[attr-defined]  # `S = {...}` inside a loop
                out.append(c_)
        elif n.kind == "stmt" and isinstance(a, ast.AugAssign) and isinstance(a.op, ast.BitOr) and isinstance(a.target, ast.Name):
            # `S |= {e for ...}` / `S |= other`: an in-place union, the same as S.update(...)
            cp = comp_parts(a.value)
            if cp is not None:
                out.append(Contrib(a.target.id, n, cp[0], cp[1], cp[2]))
            else:
                out.append(Contrib(a.target.id, n, a.value, [], []))
    return out


def reach_sets(ctx: Ctx) -> Dict[str, str]:
    """{role attr: local set variable} for the three reachability sets of collect(), found by ROLE: the set whose
    inserted value derives from `.manifest_list` / `.manifest_path` / `.file_path` (insertion by add / update / a set
    comprehension, in collect() itself or in a helper analysed in place)."""
    f = ctx.fn(GC + ".collect")
    out: Dict[str, str] = {}
    g_ = ctx.cfg(f)
    ATTRS = ("manifest_list", "manifest_path", "file_path")
    for c in contributions(ctx, f):
        # the NEAREST source attribute on the def-use chain of the inserted value (breadth-first by hop distance)
        role = None
        frontier = [(c.elt, c.node.id)]
        for _hop in range(5):
            nxt = []
            for e, at in frontier:
                hit = [x.attr for x in ast.walk(e) if isinstance(x, ast.Attribute) and x.attr in ATTRS]
                if hit:
                    role = hit[0]
                    break
                for nm in names_in(e):
                    if nm == "self" or nm.startswith("self."):
                        continue
                    for d in ctx.rd(f).reaching(at, nm):
                        dn = g_.nodes[d]
                        if isinstance(dn.ast, ast.Assign):
                            nxt.append((dn.ast.value, d))
            if role or not nxt:
                break
            frontier = nxt
        if role and role not in out:
            out[role] = c.sname
    missing = {"manifest_list", "manifest_path", "file_path"} - set(out)
    if missing:
        raise AnalysisError(f"collect(): no reachability set is fed from {sorted(missing)} - anchors moved")
    return out


def membership_param(ctx: Ctx) -> str:
    """The parameter of _gc_prefix that the listed path is tested against (`x not in <param>`)."""
    gp = ctx.fn(GC + "._gc_prefix")
    params = {p.name for p in gp.params}
    for b in ctx.cfg(gp).nodes:
        if b.kind == "branch" and isinstance(b.ast, ast.Compare) and isinstance(b.ast.ops[0], (ast.NotIn, ast.In)) \
                and isinstance(b.ast.comparators[0], ast.Name) and b.ast.comparators[0].id in params:
            return b.ast.comparators[0].id
    raise AnalysisError("membership test against the reachable-set parameter vanished in _gc_prefix")


def set_adds(ctx: Ctx, f: FunctionInfo, setname: str) -> List[Node]:
    return [c.node for c in contributions(ctx, f) if c.sname == setname]


def contrib_of(ctx: Ctx, f: FunctionInfo, n: Node) -> Contrib:
    return next(c for c in contributions(ctx, f) if c.node is n)


def _iterates(ctx: Ctx, f: FunctionInfo, c: Contrib) -> List[Tuple[Optional[str], ast.AST]]:
    """All iterations an insertion sits in: the enclosing `for` loops of its node plus the generators of its comprehension."""
    g = ctx.cfg(f)
    encl = [fr.node for fr in c.node.frames if fr.kind == "loop"]
    outer = [((l.target.id if isinstance(l.target, ast.Name) else None), l.iter) for l in encl if isinstance(l, ast.For)]
    return outer + list(c.gens)


def fused_walk(ctx: Ctx, f: FunctionInfo, sname: str, reader: str) -> bool:
    """The walk reads an element in the SAME iteration that adds it to `sname`: every insertion into the set, inside a loop, is
    followed on every normal path back to that loop's head by `reader(<the inserted value>)` (a raising path leaves the walk).
    Then `V in sname` means 'already walked', and skipping such an element loses nothing."""
    g = ctx.cfg(f)
    loops = [n for n in g.nodes if n.kind == "loop" and isinstance(n.ast, ast.For)]
    mine = [c for c in contributions(ctx, f) if c.sname == sname]
    if not mine:
        return False
    for c in mine:
        a = c.node
        encl = [fr.node for fr in a.frames if fr.kind == "loop"]
        inner = [l for l in loops if l.ast in encl]
        if not inner or c.gens:
            return False
        il = max(inner, key=lambda l: l.lineno)
        vals = {n for n in names_in(c.elt) if n != "self" and not n.startswith("self.")}
        if isinstance(a.ast, ast.Call) and a.ast.args:
            vals |= {n for n in names_in(a.ast.args[0]) if n != "self"}
        rds = [r for r in ctx.calls(f, name=reader) if any(fr.kind == "loop" and fr.node is il.ast for fr in r.frames)
               and isinstance(r.ast, ast.Call) and r.ast.args and (names_in(r.ast.args[0]) & vals)]
        if not rds:
            return False
        if find_path(g, a.id, [il.id], avoid=[r.id for r in rds], labels=NORMAL) is not None:
            return False
    return True


def already_walked_guard(x: ast.AST, sname: str) -> bool:
    return isinstance(x, ast.Compare) and len(x.ops) == 1 and isinstance(x.ops[0], (ast.In, ast.NotIn)) \
        and isinstance(x.left, ast.Name) and norm_text(x.comparators[0]) == sname


def r1(ctx: Ctx, rid: str = "C05.R1") -> None:
    ctx.rule(rid, "reachability covers every retained snapshot: the walk iterates metadata.snapshots unfiltered, every "
             "manifest list feeds the manifest set and every manifest feeds the data-file set; the only conditions on an "
             "insertion test the inserted path itself", 6)
    f = ctx.fn(GC + ".collect")
    g = ctx.cfg(f)
    dom = ctx.dom(f, NORMAL)
    sl = ctx.slicer(f)
    loops = [n for n in g.nodes if n.kind == "loop" and isinstance(n.ast, ast.For)]
    cons = contributions(ctx, f)
    rs = reach_sets(ctx)
    snap_iter = [c for c in cons if c.sname == rs["manifest_list"] and any(norm_text(it).endswith(".snapshots") for _v, it in _iterates(ctx, f, c))]
    ctx.ob(rid, f, "iterates metadata.snapshots", snap_iter[0].node if snap_iter else None, bool(snap_iter),
           "the walk starts from ALL retained snapshots, not only the current one")
    sets = {rs["manifest_list"]: "manifest_list", rs["manifest_path"]: "manifest_path", rs["file_path"]: "file_path"}
    for sname, attr in sets.items():
        mine = [c for c in cons if c.sname == sname]
        ctx.ob(rid, f, f"{sname} is populated", mine[0].node if mine else None, bool(mine),
               f"{sname} receives elements", nontrivial=False, text=attr)
        for c in mine:
            if getattr(c, "overwrites", False):
                ctx.ob(rid, f, f"{sname} is only ever extended", c.node, False,
                       f"`{c.node.text[:60]}` re-assigns the set inside a loop: what earlier iterations (older retained snapshots) "
                       "contributed is dropped, their files look unreachable", text=attr + ":overwrite")
            a = c.node
            org = sl.origins(c.elt, a.id)
            ok_src = any(isinstance(x, ast.Attribute) and x.attr == attr for e in list(org["exprs"]) + [c.elt] for x in ast.walk(e))
            # conditions on the insertion (branches dominating it inside its loops, and the comprehension's `if`s) may only
            # test the inserted path
            encl = [fr.node for fr in a.frames if fr.kind == "loop"]
            conds: List[ast.AST] = [b.ast for b in g.nodes if b.kind == "branch" and b.ast is not None and b.id in dom[a.id]
                                    and any(fr.kind == "loop" and fr.node in encl for fr in b.frames)]
            cond_txt = [norm_text(x)[:40] for x in conds + c.filters]
            gen_vars = {v for v, _it in c.gens if v}
            argnames = {n for n in names_in(c.elt) if n != "self" and not n.startswith("self.")} | \
                {n for n in org["names"] if not n.startswith("self")}
            bad = [x for x in conds + c.filters if not (names_in(x) - {"self"}) <= argnames | {"self.storage"} | gen_vars
                   and "exists" not in norm_text(x)]
            # a FUSED walk (each list is read in the iteration that adds it to the set of walked lists): `V in <walked>` skips
            # what was walked before, and the empty-path guard of the upstream element guards this insertion too
            chain = [rs.get("manifest_list"), rs.get("manifest_path"), rs.get("file_path")]
            readers = {rs.get("manifest_list"): "read_manifest_list_file", rs.get("manifest_path"): "read_manifest_file"}
            ups = [u for u in chain[:chain.index(sname) + 1] if u] if sname in chain else []
            still = []
            for x in bad:
                okx = False
                for u in ups:
                    if u not in readers:
                        continue
                    if already_walked_guard(x, u) and (u == sname or fused_walk(ctx, f, u, readers[u])):
                        okx = True
                    elif u != sname and x in conds and fused_walk(ctx, f, u, readers[u]):
                        uargs = set()
                        for cu in [cu for cu in cons if cu.sname == u]:
                            uargs |= {n for n in names_in(cu.elt) if n != "self" and not n.startswith("self.")}
                            uargs |= {n for n in sl.origins(cu.elt, cu.node.id)["names"] if not n.startswith("self")}
                        if (names_in(x) - {"self"}) and (names_in(x) - {"self"}) <= uargs:
                            okx = True
                if not okx:
                    still.append(x)
            bad = still
            # a comprehension filter must test the element's own source (truthiness of the path), not another attribute
            bad += [x for x in c.filters if x not in bad and not any(
                isinstance(y, ast.Attribute) and y.attr == attr for y in ast.walk(x)) and not isinstance(x, ast.Name)]
            brk = [n for n in g.nodes if isinstance(n.ast, ast.Break) and any(fr.kind == "loop" and fr.node in encl for fr in n.frames)]
            ctx.ob(rid, f, f"{sname}: source field and unfiltered", a, ok_src and not bad and not brk,
                   f"inserted value derives from .{attr}; guarding conditions {cond_txt} only test the path; no break"
                   + (f"; filtering condition(s): {[norm_text(b)[:60] for b in bad]}" if bad else ""), text=attr)
    # each reachable set is then iterated to read the next level
    for sname, reader in ((rs["manifest_list"], "read_manifest_list_file"), (rs["manifest_path"], "read_manifest_file")):
        lp = [l for l in loops if norm_text(l.ast.iter) == sname]  # type: ignore[union-attr]
        rd = ctx.calls(f, name=reader)
        inl = [r for r in rd if lp and any(fr.kind == "loop" and fr.node is lp[0].ast for fr in r.frames)]
        ok = bool(lp) and bool(inl)
        if not lp and fused_walk(ctx, f, sname, reader):
            ok = True  # each element is read in the iteration that adds it
        ctx.ob(rid, f, f"every element of {sname} is read with {reader}", lp[0] if lp else None, ok,
               "no manifest (list) of a retained snapshot is skipped", text=reader)


def r1_noskip(ctx: Ctx, rid: str) -> None:
    ctx.rule(rid, "no skip path in the reachability walk: every iteration over the reachable manifest lists / manifests reads its "
             "element or raises - no `continue`/fall-through that leaves a retained snapshot's files out of the reachable set", 2)
    f = ctx.fn(GC + ".collect")
    g = ctx.cfg(f)
    loops = [n for n in g.nodes if n.kind == "loop" and isinstance(n.ast, ast.For)]
    rs = reach_sets(ctx)
    cons = contributions(ctx, f)
    for sname, reader in ((rs["manifest_list"], "read_manifest_list_file"), (rs["manifest_path"], "read_manifest_file")):
        lp = [l for l in loops if norm_text(l.ast.iter) == sname]  # type: ignore[union-attr]
        rd = [r for r in ctx.calls(f, name=reader) if lp and any(fr.kind == "loop" and fr.node is lp[0].ast for fr in r.frames)]
        if not lp and fused_walk(ctx, f, sname, reader):
            ctx.ob(rid, f, f"every element added to {sname} is read with {reader} in the same iteration", None, True,
                   "fused walk: the insertion is followed by the read on every normal path back to the loop head", text=reader)
            continue
        if not lp or not rd:
            ctx.ob(rid, f, f"loop over {sname} reads with {reader}", lp[0] if lp else None, False,
                   "the reachability walk must read every manifest (list) of every retained snapshot", text=reader)
            continue
        body = edge_target(g, lp[0], "true")
        w = None
        if body is not None:
            w = [body] if body == lp[0].id else find_path(g, body, [lp[0].id], avoid=[r.id for r in rd], labels=ALL)
        ctx.ob(rid, f, f"every iteration over {sname} reaches {reader} or raises", lp[0], w is None,
               "a path that skips the read (e.g. `continue` for a 'historical' snapshot whose list is missing) silently drops "
               "that snapshot's manifests and data files from the reachable set; the sweep then deletes them",
               witness=ctx.path_witness(f, w), text=reader)
        # and each element read is then consumed: the loop over its result feeds the next set
    roles = {rs["manifest_list"]: "manifest_list", rs["manifest_path"]: "manifest_path", rs["file_path"]: "file_path"}
    for sname in (rs["manifest_list"], rs["manifest_path"], rs["file_path"]):
        for c in [c for c in cons if c.sname == sname]:
            a = c.node
            encl = [fr.node for fr in a.frames if fr.kind == "loop"]
            inner = [l for l in loops if l.ast in encl]
            if c.gens:
                # a comprehension / update(generator): every element of its iterable is inserted unless a filter drops it;
                # filters are judged by R1 (they may only test the inserted path). Enclosing loops: the statement itself
                # must be reached on every iteration (path query below, with the insertion node as the target)
                pass
            if not inner:
                continue
            il = max(inner, key=lambda l: l.lineno)
            body = edge_target(g, il, "true")
            if body is None:
                continue
            # within the inner loop, a path back to the head that avoids the insertion may only leave through the
            # "empty path entry" guard (a branch testing the inserted path itself)
            srcnames = {n for n in ctx.slicer(f).origins(c.elt, a.id)["names"] if not n.startswith("self")}
            guard_false = {(b.id, d) for b in g.nodes if b.kind == "branch" and b.ast is not None
                           and (names_in(b.ast) - {"self"}) <= srcnames and (names_in(b.ast) - {"self"})
                           for d, l in g.succ[b.id] if l == "false"}
            # `if V in <this set>: continue` - the element IS in the set already; for a downstream set the skip is sound when the
            # upstream walk is fused (what is in the set of walked lists has been read)
            chain = [rs["manifest_list"], rs["manifest_path"], rs["file_path"]]
            rdr = {rs["manifest_list"]: "read_manifest_list_file", rs["manifest_path"]: "read_manifest_file"}
            for b in g.nodes:
                if b.kind != "branch" or b.ast is None:
                    continue
                for u in chain[:chain.index(sname) + 1]:
                    if u in rdr and already_walked_guard(b.ast, u) and (u == sname or fused_walk(ctx, f, u, rdr[u])):
                        lab = "true" if isinstance(b.ast.ops[0], ast.In) else "false"  # type: ignore[attr-defined]
                        guard_false |= {(b.id, d) for d, l in g.succ[b.id] if l == lab}
                    elif u in rdr and u != sname and fused_walk(ctx, f, u, rdr[u]):
                        # the empty-path guard of the upstream element (`if not snapshot.manifest_list: continue`)
                        uargs = set()
                        for cu in [cu for cu in cons if cu.sname == u]:
                            uargs |= {n for n in ctx.slicer(f).origins(cu.elt, cu.node.id)["names"] if not n.startswith("self")}
                        nb = names_in(b.ast) - {"self"}
                        if nb and nb <= uargs and any(isinstance(y, ast.Attribute) and y.attr in ("manifest_list", "manifest_path") for y in ast.walk(b.ast)):
                            guard_false |= {(b.id, d) for d, l in g.succ[b.id] if l in ("true", "false")}
            w = find_path(g, body, [il.id], avoid=[a.id], labels=NORMAL, edge_ok=lambda s_, d_, l_: (s_, d_) not in guard_false) \
                if body != a.id else None
            ctx.ob(rid, f, f"every entry read feeds {sname}", a, w is None,
                   "no manifest / data file entry is left out except an empty path", witness=ctx.path_witness(f, w),
                   text=roles[sname])


def normaliser_family(ctx: Ctx) -> Set[str]:
    """Names of the functions that ARE the collector's path normalisation: _normalize_path and every function of the
    module that it delegates to / that delegates to it with the path passed through unchanged (`return N(path)`)."""
    gcmod = ctx.fn(GC + "._normalize_path").module
    fam = {"_normalize_path"}
    cands = [f for f in ctx.prog.functions.values() if f.module is gcmod and not isinstance(f.node, ast.Lambda)]
    changed = True
    while changed:
        changed = False
        for f in cands:
            rets = [n.value for n in ast.walk(f.node) if isinstance(n, ast.Return) and n.value is not None]
            pnames = {p.name for p in f.params if p.name != "self"}
            if not rets or len(pnames) != 1:
                continue
            pn = next(iter(pnames))
            deleg = [r.func for r in rets if isinstance(r, ast.Call) and len(r.args) == 1 and not r.keywords
                     and isinstance(r.args[0], ast.Name) and r.args[0].id == pn]
            if len(deleg) != len(rets):
                continue
            callee_names = {(dotted(d) or "").split(".")[-1] for d in deleg}
            if f.name in fam and not callee_names <= fam and all(c for c in callee_names):
                fam |= callee_names  # what a family member delegates to
                changed = True
            elif f.name not in fam and callee_names <= fam:
                fam.add(f.name)  # a thin wrapper around a family member
                changed = True
    return fam


def _is_norm_call(ctx: Ctx, c: ast.AST) -> bool:
    return isinstance(c, ast.Call) and (dotted(c.func) or "").split(".")[-1] in normaliser_family(ctx)


def r2(ctx: Ctx) -> None:
    ctx.rule("C05.R2", "one normalisation on both sides, depending on the path only: (a) inserted values and the tested key are "
             "results of _normalize_path; (b) PATHPREFIX: a prefix test against a location is separator-terminated", 6)
    f = ctx.fn(GC + ".collect")
    roles = {v: k for k, v in reach_sets(ctx).items()}
    for c in contributions(ctx, f):
        if c.sname not in roles:
            continue
        ok = _is_norm_call(ctx, c.elt)
        if not ok and isinstance(c.elt, ast.Name):
            # a local that holds the normalised path (`p = self._normalize_path(x) ... S.add(p)`): every definition reaching the
            # insertion is the normaliser's result
            from .common import resolve_value as _rv
            srcs_ = _rv(ctx, f, c.elt, c.node.id)
            ok = bool(srcs_) and all(v_ is not None and _is_norm_call(ctx, v_) for v_, _at in srcs_)
        ctx.ob("C05.R2", f, f"{c.sname} receives _normalize_path(...)", c.node, ok,
               "the reachable side is normalised by the same function as the listed side", text=roles[c.sname])
    gp = ctx.fn(GC + "._gc_prefix")
    g = ctx.cfg(gp)
    mp = membership_param(ctx)
    mem = [b for b in g.nodes if b.kind == "branch" and isinstance(b.ast, ast.Compare)
           and isinstance(b.ast.ops[0], (ast.NotIn, ast.In)) and mp in names_in(b.ast.comparators[0])]
    sl = ctx.slicer(gp)
    for b in mem:
        org = sl.origins(b.ast.left, b.id)  # type: ignore[union-attr]
        ok = any(_is_norm_call(ctx, c) for c in org["calls"])
        ctx.ob("C05.R2", gp, "tested key is _normalize_path(listed path)", b, ok,
               "the listed side is normalised by the same function as the reachable side")
    mt = ctx.fn(GC + "._marker_target")
    mg = ctx.cfg(mt)
    from .common import effective_returns, resolve_value
    for r, v0 in effective_returns(ctx, mt):
        srcs = [(x, a) for x, a in resolve_value(ctx, mt, v0, r.id)] if v0 is not None else []
        verdicts = []
        lossy = None
        for v, at_ in srcs or [(v0, r.id)]:
            is_norm = v is not None and _is_norm_call(ctx, v)
            s = fold_str(ctx, mt, v, at_) if v is not None else None
            is_fallback = s is not None and s.startswith("data/")
            # the legacy name is the marker's basename minus EXACTLY the suffix: a character-set strip (`rstrip('.inflight')`
            # eats the 't' of 'x.parquet') names a file that does not exist, and the real one loses its protection
            if is_fallback and v is not None:
                for x in ast.walk(v):
                    if isinstance(x, ast.Call) and isinstance(x.func, ast.Attribute) and x.func.attr in ("rstrip", "strip", "lstrip", "replace", "split", "partition"):
                        lossy = norm_text(x)[:60]
            verdicts.append(is_norm or is_fallback)
        ctx.ob("C05.R2", mt, "marker target is normalised (or the legacy data/<name> convention)", r, bool(verdicts) and all(verdicts) and lossy is None,
               "protected paths are comparable with listed paths; the single allow-listed literal is the legacy "
               "marker fallback 'data/' + basename" + (f"; `{lossy}` does not remove exactly the marker suffix" if lossy else ""))
    # (b) PATHPREFIX - generic over the package
    n_sites = 0
    for f2 in ctx.prog.functions.values():
        for n in ctx.cfg(f2).calls():
            a = n.ast
            if not (isinstance(a, ast.Call) and isinstance(a.func, ast.Attribute) and a.func.attr == "startswith" and a.args):
                continue
            arg = a.args[0]
            loc = None
            for x in ast.walk(arg):
                if isinstance(x, ast.Attribute) and x.attr in LOCATION_ATTRS:
                    loc = x
                elif isinstance(x, ast.Name) and x.id in LOCATION_ATTRS:
                    loc = x
            if loc is None:
                continue
            n_sites += 1
            terminated = isinstance(arg, ast.BinOp) and isinstance(arg.op, ast.Add) and (
                (isinstance(arg.right, ast.Constant) and arg.right.value in ("/", "\\")) or "sep" in norm_text(arg.right))
            if isinstance(arg, ast.JoinedStr):
                terminated = bool(arg.values) and isinstance(arg.values[-1], ast.Constant) and str(arg.values[-1].value).endswith("/")
            ctx.ob("C05.R2", f2, "PATHPREFIX: startswith(<location>) is separator-terminated", n, terminated,
                   f"`{norm_text(a)}`: a bare string-prefix test against a location cannot tell the location '/data' "
                   f"from the table-relative entry '/data/x.parquet' (two spellings of one file normalise differently)")
    ctx.ob("C05.R2", None, "PATHPREFIX sites enumerated", None, True, f"{n_sites} startswith(<location>) site(s) in the package",
           nontrivial=False, text="pathprefix-census", file="src/datashard", line=0)
    # _normalize_path depends on the path only (modulo leading-slash stripping): idempotent shape
    np_ = ctx.fn(GC + "._normalize_path")
    rets = [n for n in ctx.cfg(np_).nodes if n.kind == "return"]

    def _strips(fn: FunctionInfo, depth: int = 0) -> bool:
        rs = [n.value for n in ast.walk(fn.node) if isinstance(n, ast.Return)]
        if not rs or depth > 3:
            return False
        for v in rs:
            if isinstance(v, ast.Call) and isinstance(v.func, ast.Attribute) and v.func.attr == "lstrip":
                continue
            if _is_norm_call(ctx, v):
                c = ctx.prog.resolve_call(v, fn)  # type: ignore[arg-type]
                if c.kind == "func" and c.funcs and all(_strips(t, depth + 1) for t in c.funcs):
                    continue
            return False
        return True

    ok = _strips(np_)
    ctx.ob("C05.R2", np_, "_normalize_path strips leading slashes on every return", rets[0] if rets else None, ok and bool(rets),
           "'/data/x' (manifest spelling) and 'data/x' (listing spelling) normalise to the same key")
    fam_fns = [f_ for f_ in ctx.prog.functions.values() if f_.module is np_.module and f_.name in normaliser_family(ctx)]
    locs = sorted({x.attr for f_ in fam_fns for x in ast.walk(f_.node)
                   if isinstance(x, ast.Attribute) and x.attr in ("table_path", "base_path", "location", "prefix")})
    ctx.ob("C05.R2", np_, "_normalize_path depends on the path only (no table-location rewriting)", None, not locs,
           ("manifest, marker and listing paths are table-relative everywhere" if not locs else
            f"reads {locs}: stripping / rebasing by the table LOCATION (even with a '/' boundary) makes the two spellings of one file "
            f"differ whenever the location coincides with an internal directory name (a relative table location 'data': listing "
            f"'data/x' -> 'x', manifest '/data/x' -> 'data/x'): nothing listed is reachable and live files are deleted"))


def r3(ctx: Ctx, rid: str) -> None:
    ctx.rule(rid, "delete guard: the collector's delete sinks are dominated by `not in reachable_set` AND the age test; both "
             "_gc_prefix calls receive a union containing the reachable set and the protected set; the abandoned-marker "
             "delete is dominated by the expired-age branch", 5)
    gp = ctx.fn(GC + "._gc_prefix")
    g = ctx.cfg(gp)
    dels = ctx.calls(gp, storage="delete_file")
    if not dels:
        raise AnalysisError("no delete sink in _gc_prefix")
    mp = membership_param(ctx)
    mem = [b for b in g.nodes if b.kind == "branch" and isinstance(b.ast, ast.Compare)
           and isinstance(b.ast.ops[0], (ast.NotIn, ast.In)) and mp in names_in(b.ast.comparators[0])]
    gsl = ctx.slicer(gp)

    def has_stat(org) -> bool:
        return any(isinstance(c, ast.Call) and isinstance(c.func, ast.Attribute) and c.func.attr == "get_modified_time" for c in org["calls"])

    # age branches: an ordering comparison with the file's modification time on exactly one side (found by data flow)
    age_info = {}
    for b in g.nodes:
        ec = effective_compare(ctx, gp, b) if b.id in g.reachable() else None
        if ec is not None and len(ec[0].ops) == 1 and isinstance(ec[0].ops[0], (ast.Lt, ast.LtE, ast.Gt, ast.GtE)):
            lo, ro = gsl.origins(ec[0].left, ec[1]), gsl.origins(ec[0].comparators[0], ec[1])
            if has_stat(lo) != has_stat(ro):
                age_info[b.id] = (has_stat(lo), ro if has_stat(lo) else lo, ec[0])
    age = [g.nodes[i] for i in age_info]
    for d in dels:
        ok_mem = False
        for b in mem:
            notin = isinstance(b.ast.ops[0], ast.NotIn)  # type: ignore[union-attr]
            lab_ok, lab_bad = ("true", "false") if notin else ("false", "true")
            t, fl = edge_target(g, b, lab_ok), edge_target(g, b, lab_bad)
            loops = [n.id for n in g.nodes if n.kind == "loop"]
            if t is not None and d.id in reachable_from(g, t, NORMAL, avoid=loops) and \
                    (fl is None or d.id not in reachable_from(g, fl, NORMAL, avoid=loops)):
                ok_mem = True
        ctx.ob(rid, gp, "delete only on the not-reachable branch", d, ok_mem,
               "a listed file is deleted only if its normalised path is NOT in the reachable/protected set")
        ok_age = False
        for b in age:
            cmp_ = age_info[b.id][2]
            stat_left = age_info[b.id][0]
            is_lt = isinstance(cmp_.ops[0], (ast.Lt, ast.LtE))
            older_on_true = (is_lt and stat_left) or (not is_lt and not stat_left)  # mtime < cutoff  /  cutoff > mtime
            lab_ok, lab_bad = ("true", "false") if older_on_true else ("false", "true")
            t, fl = edge_target(g, b, lab_ok), edge_target(g, b, lab_bad)
            loops = [n.id for n in g.nodes if n.kind == "loop"]
            if t is not None and d.id in reachable_from(g, t, NORMAL, avoid=loops) and \
                    (fl is None or d.id not in reachable_from(g, fl, NORMAL, avoid=loops)):
                ok_age = True
        ctx.ob(rid, gp, "delete only when older than the grace-period cutoff", d, ok_age,
               "mtime*1000 < now - grace_period dominates the delete (files younger than the grace period survive)")
        pa = path_arg(d)
        stat = [n for n in ctx.calls(gp, storage="get_modified_time")]
        ctx.ob(rid, gp, "the file deleted is the file whose age was tested", d,
               bool(stat) and all(norm_text(path_arg(s)) == norm_text(pa) for s in stat), "same path expression in stat and delete")
    gparam = next((p.name for p in gp.params if "grace" in p.name), None)
    if gparam is None:
        raise AnalysisError("anchor vanished: _gc_prefix has no grace-period parameter")
    okc = bool(age)
    wit = None
    for b in age:
        corg = age_info[b.id][1]
        subs = [x for e in corg["exprs"] for x in ast.walk(e) if isinstance(x, ast.BinOp) and isinstance(x.op, ast.Sub)]
        good = False
        for x in subs:
            at = b.id
            ro_ = gsl.origins(x.right, at)
            lo_ = gsl.origins(x.left, at)
            if (gparam in ro_["params"] or gparam in names_in(x.right)) and \
                    any((dotted(c.func) or "").endswith("time.time") or (dotted(c.func) or "") == "time" for c in lo_["calls"] | {y for y in ast.walk(x.left) if isinstance(y, ast.Call)}) and \
                    gparam not in lo_["params"] and gparam not in names_in(x.left):
                good = True
        if not good:
            okc = False
            wit = b
    ctx.ob(rid, gp, "cutoff = now - grace period", wit or (age[0] if age else None), okc,
           "the cutoff is the current time minus the grace period")
    col = ctx.fn(GC + ".collect")
    sl = ctx.slicer(col)
    prot_defs = [n for n in ctx.cfg(col).calls() if any(t.name == "_load_inflight_protection" for t in ctx.eff.callees(col, n))]
    gcalls = ctx.calls(col, name="_gc_prefix")
    if len(gcalls) < 2:
        raise AnalysisError("expected two _gc_prefix calls in collect")
    for c in gcalls:
        arg = kwarg(c.ast, mp, 1)
        org = sl.origins(arg, c.id)
        has_prot = any(isinstance(x, ast.Call) and (dotted(x.func) or "").endswith("_load_inflight_protection") for x in org["calls"])
        has_reach = bool(set(reach_sets(ctx).values()) & org["names"])
        union = isinstance(arg, ast.BinOp) and isinstance(arg.op, ast.BitOr) or (isinstance(arg, ast.Call) and "union" in norm_text(arg.func))
        if not (has_prot and has_reach and union):
            # the same union built another way: a.union(b, c), an earlier `keep = a | b`, or the set extended in place
            # (`reachable.update(protected)`) before it is handed over
            leaves, pure = _union_parts(ctx, col, arg, c.id)
            lorg = [(x, sl.origins(x, at_)) for x, at_ in leaves]
            has_prot = any(any(isinstance(y, ast.Call) and (dotted(y.func) or "").endswith("_load_inflight_protection") for y in o["calls"] | ({x} if isinstance(x, ast.Call) else set()))
                           for x, o in lorg)
            has_reach = any((set(reach_sets(ctx).values()) & (o["names"] | set(names_in(x)))) for x, o in lorg)
            union = pure and len(leaves) >= 2
        ctx.ob(rid, col, "reachable_set argument = reachable ∪ protected", c, has_prot and has_reach and bool(union),
               "in-flight protection and reachability are both applied to this prefix (no intersection / difference)")
    lp = ctx.fn(GC + "._load_inflight_protection")
    lg = ctx.cfg(lp)
    from .c06 import sweep_model
    from .common import explore
    sm = sweep_model(ctx)
    res = explore(ctx, lp, [sm["body"]] if sm["body"] is not None else [], assume=sm["fresh"], stop=[sm["loop"].id],
                  watch=[d_.id for d_ in sm["deletes"]])
    for d in ctx.calls(lp, storage="delete_file"):
        removed_fresh = any(store.get(("seen", d.id)) for _e, store, _a in res)
        ctx.ob(rid, lp, "marker deleted only when older than the abandonment timeout", d, bool(sm["fresh"]) and bool(res) and not removed_fresh,
               "a fresh marker is never removed by the collector (path-sensitive walk of the sweep under the scenario 'the marker is "
               "fresh')")
        org = ctx.slicer(lp).origins(path_arg(d), d.id)
        via_target = any(isinstance(c, ast.Call) and (dotted(c.func) or "").endswith("_marker_target") for c in org["calls"])
        listed = any(isinstance(c, ast.Call) and (dotted(c.func) or "").endswith("list_files") for c in org["calls"])
        ctx.ob(rid, lp, "the marker sweep deletes the marker file itself, never the file it names", d, listed and not via_target,
               "an old marker does not prove its transaction never committed (a writer killed after the pointer flip leaves its "
               "markers behind): deleting the named file here removes files of a committed snapshot before reachability is known")


def r4(ctx: Ctx, rid: str) -> None:
    ctx.rule(rid, "canonical base agreement (#45): list_files computes relative paths against _real_base_path(), the same base "
             "_resolve_path's containment test uses", 2)
    lf = ctx.fn("storage_backend.LocalStorageBackend.list_files")
    sl = ctx.slicer(lf)
    rel = ctx.calls(lf, prim="os.path.relpath")
    ctx.ob(rid, lf, "relpath present", rel[0] if rel else None, bool(rel), "listings are table-relative", nontrivial=False)
    for r in rel:
        base = r.ast.args[1] if isinstance(r.ast, ast.Call) and len(r.ast.args) > 1 else kwarg(r.ast, "start")
        org = sl.origins(base, r.id)
        ok = any(is_canonical_base_call(ctx, lf, c) for c in org["calls"])
        ctx.ob(rid, lf, "relpath base is the canonical base", r, ok,
               "relative paths are computed against realpath(base), matching the walk root")
        walk = ctx.calls(lf, prim="os.walk") + ctx.calls(lf, prim="os.scandir")
        wo = sl.origins(walk[0].ast.args[0], walk[0].id) if walk and isinstance(walk[0].ast, ast.Call) and walk[0].ast.args else {"calls": set()}
        wnode = walk[0] if walk else None
        if not walk:
            # the directory walk may live in a (generator) helper introduced later: judge the argument handed to it
            for n in ctx.cfg(lf).calls():
                for t in (n.callee.funcs if n.callee is not None and n.callee.kind == "func" else []):
                    if ctx.prog.is_known(t):
                        continue
                    for wn in ctx.calls(t, prim="os.walk") + ctx.calls(t, prim="os.scandir"):
                        a0 = wn.ast.args[0] if isinstance(wn.ast, ast.Call) and wn.ast.args else None
                        for p_ in t.params:
                            if isinstance(a0, ast.Name) and a0.id == p_.name:
                                arg = ctx.eff.bind_arg(n.ast, t, p_.name, isinstance(n.ast.func, ast.Attribute))  # type: ignore[arg-type,union-attr]
                                if arg is not None:
                                    wo = sl.origins(arg, n.id)
                                    wnode = n
        ctx.ob(rid, lf, "walk root is the resolved (canonical) prefix", wnode,
               any(isinstance(c, ast.Call) and (dotted(c.func) or "").endswith("_resolve_path") for c in wo["calls"]),
               "os.walk starts from _resolve_path(prefix)", text="walk-root")
    rp = ctx.fn("storage_backend.LocalStorageBackend._resolve_path")
    rsl = ctx.slicer(rp)
    for c in ctx.calls(rp, prim="os.path.commonpath"):
        org = rsl.origins(c.ast, c.id)
        ok = any(is_canonical_base_call(ctx, rp, x) for x in org["calls"])
        ctx.ob(rid, rp, "containment test uses the canonical base", c, ok, "commonpath([realpath(base), realpath(joined)])")


def r5(ctx: Ctx) -> None:
    ctx.rule("C05.R5", "non-vacuity (#32): the prefixes handed to _gc_prefix are the directories the writers write to", 3)
    col = ctx.fn(GC + ".collect")
    prefixes = []
    for c in ctx.calls(col, name="_gc_prefix"):
        s = fold_str(ctx, col, kwarg(c.ast, "prefix", 0), c.id)
        if s is None:
            # self.file_manager.manifests_path
            a = kwarg(c.ast, "prefix", 0)
            if isinstance(a, ast.Attribute) and a.attr == "manifests_path":
                fm = ctx.prog.cls("file_manager.FileManager")
                init = fm.methods["__init__"]
                for n in ast.walk(init.node):
                    if isinstance(n, ast.Assign) and isinstance(n.targets[0], ast.Attribute) and n.targets[0].attr == "manifests_path":
                        s = ctx.prog.const_str(n.value, fm.module, init)
        prefixes.append((c, s))
    ad = ctx.fn("transaction.Transaction.append_data")
    w = ctx.calls(ad, name="write_data_file")
    data_dir = None
    if w:
        p = fold_str(ctx, ad, kwarg(w[0].ast, "file_path", 0), w[0].id)
        data_dir = p.split("/")[0] if p else None
    fm = ctx.prog.cls("file_manager.FileManager")
    init = fm.methods["__init__"]
    man_dir = None
    for n in ast.walk(init.node):
        if isinstance(n, ast.Assign) and isinstance(n.targets[0], ast.Attribute) and n.targets[0].attr == "manifests_path":
            man_dir = ctx.prog.const_str(n.value, fm.module, init)
    cm = ctx.fn("file_manager.FileManager.create_manifest_file")
    wm = ctx.calls(cm, storage="write_file")
    mp = fold_str(ctx, cm, path_arg(wm[0]), wm[0].id) if wm else None
    got = sorted(s or "?" for _c, s in prefixes)
    ctx.ob("C05.R5", col, "data prefix equals the data writer's directory", prefixes[0][0] if prefixes else None,
           data_dir is not None and data_dir in got, f"_gc_prefix prefixes {got}; data files are written under {data_dir!r}/")
    ctx.ob("C05.R5", col, "manifest prefix equals the manifest writer's directory", prefixes[-1][0] if prefixes else None,
           man_dir is not None and man_dir in got and mp is not None and mp.startswith(man_dir + "/"),
           f"manifests are written under {man_dir!r}/ (path pattern {mp!r})")
    ctx.ob("C05.R5", col, "both a data and a manifest sweep exist", None, len(prefixes) >= 2,
           "two _gc_prefix calls", nontrivial=False)
