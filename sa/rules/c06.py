"""C06 - garbage collection is safe against concurrently committing transactions."""
from __future__ import annotations

import ast
from typing import Dict, List, Optional, Set, Tuple

from ..cfg import NORMAL, Node
from ..core import Ctx
from ..flow import ALL, find_path, names_in
from ..model import AnalysisError, FunctionInfo, dotted, norm_text
from .common import judged_in_callers, edge_target, effective_test, explore, handler_exits, null_edges, eval3, kwarg, path_arg, reachable_from, str_consts

EXPLANATION = (
    "Static analysis of the in-flight marker protocol: (R1) dominance + def-use: every write of a data file, manifest "
    "or manifest list by a transaction is dominated by the marker write for the same path variable, the marker "
    "write's failure propagates, and every transaction call site passes pre_write_hook=_register_inflight; (R2) "
    "marker deletion sites are exactly _finish_committed (whose call sites are dominated by the commit point or lie "
    "on the empty-transaction branch) and the deleting branch of _rollback, after the files; (R3) in the collector "
    "the marker read dominates the metadata read (a transaction whose marker is gone has finished, so a LATER "
    "metadata read sees its snapshot; the opposite order has a window); (R4) protection is applied to both sweeps."
    " Also: (R5) the collector's marker handling fails closed (handler table of C07.R1); (R6) marker listings are complete and confined; "
    "(R7) the collector honours every fresh marker: each listed *.inflight entry that is not stale reaches "
    "protected.add(<target>), and the target of a marker whose payload names a path is that path."
    " R1 requires the hook that runs to be the writer's OWN pre_write_hook parameter (a helper's defaulted None does not count)."
    " (R8) who-may-delete census (C09.R3); (R9) the collector's metadata read is never served from a cache (C10.R7); (R10) census of data-file production sites: marker registered first, failure propagates, one uuid per loop iteration."
    ' (R11) a file that vanished between queueing and commit fails the commit: commit-time validate_data_files dominates the manifest (shared with C11.R8).'
    " (R15) retry discipline incl. 'not found stays retryable' (C20.R3): a fresh marker that briefly reads as missing is not taken for a finished transaction; (R16) the abandonment window is the design constant (C05.R18)."
    " R1 also decides, by scenario for two files, that the marker lands in the collector's directory with its suffix, that markers differ per file and that the payload names the table-relative path."
    ' R3 places a lazy (generator) marker loader at the statement that CONSUMES it; a generator consumed on the spot is read as its collecting form, a renamed loader is read under its audited name.'
    ' R1 / R10 accept the marker travelling as a callback: pre_write_hook=_register_inflight, and the producer calls the hook with its own file_path parameter before it creates the writer.')
NOT_DECIDED = "grace-period arithmetic versus run duration; the interleavings themselves"

GC = "garbage_collector.GarbageCollector"


def check(ctx: Ctx) -> None:
    r1(ctx, "C06.R1")
    r2(ctx)
    r3(ctx)
    r4(ctx)
    # the collector's handling of markers it cannot list / stat / read must keep protection in force (fail closed), and the
    # marker listing it relies on must be complete
    from .c07 import r1 as c07_r1
    c07_r1(ctx, "C06.R5")
    from .c20 import r5 as c20_r5
    c20_r5(ctx, "C06.R6")
    r_honoured(ctx, "C06.R7")
    # markers are removed by their owning transaction (or by the collector once expired) - nobody else
    from .c09 import r3 as c09_r3
    ctx.shared(c09_r3, "C09.R3", "C06.R8", "a sweep that removes another transaction's marker or file un-protects a live commit")
    # the collector decides on the metadata it reads from storage AFTER the markers: a remembered / cached metadata view is older
    from .c10 import r7 as c10_r7
    ctx.shared(c10_r7, "C10.R7", "C06.R9", "the collector's metadata read is never served from a cache")
    data_writes_protected(ctx, "C06.R10")
    # a file that disappeared between queueing and commit (e.g. collected after its marker expired) fails the commit: the
    # commit-time existence check dominates the manifest that would reference it
    from .c11 import appended_files_must_exist
    appended_files_must_exist(ctx, "C06.R11")
    from .c20 import r10_listing_exhaustive
    r10_listing_exhaustive(ctx, "C06.R12")
    from .c20 import r11_utc_ages
    r11_utc_ages(ctx, "C06.R13")
    # an ambiguous commit keeps its files AND their markers: the pointer write may still land
    from .c04 import r3 as c04_r3
    ctx.shared(c04_r3, "C04.R3", "C06.R14", "nothing of an ambiguous commit is deleted or un-protected")
    # the collector reads "marker not found" as "its transaction finished": on S3 a just-written marker can briefly read as
    # missing, so a not-found answer must stay retryable (it is an answer only after the retry budget), and the retry layer's
    # budget / classification is what keeps a live transaction's marker readable
    from .c20 import r3 as c20_r3
    ctx.shared(c20_r3, "C20.R3", "C06.R15", "a marker that briefly reads as missing is retried, not taken for a finished transaction")
    # the abandonment window that strips a live transaction's markers is the design constant, never derived
    from .c05 import abandonment_window_not_derived
    abandonment_window_not_derived(ctx, "C06.R16")


def hook_protects_write(ctx: Ctx, caller: FunctionInfo, w: Node) -> Tuple[bool, str]:
    """The marker travels as a callback: the producer is called with `pre_write_hook=<...>._register_inflight`, and inside the
    producer `pre_write_hook(<the file_path parameter itself>)` - skipped only when no hook was given - dominates the
    construction of the writer (the same contract the manifest writers have)."""
    hk = kwarg(w.ast, "pre_write_hook")
    if hk is None or not (dotted(hk) or "").endswith("_register_inflight"):
        return False, "no pre_write_hook=_register_inflight"
    for t in ctx.eff.callees(caller, w):
        tg = ctx.cfg(t)
        pname = next((p.name for p in t.params if p.name == "file_path"), None)
        writers = [n for n in tg.calls() if n.callee and n.callee.kind == "ctor" and n.callee.cls and n.callee.cls.name == "DataFileWriter"]
        hooks = [n for n in tg.calls() if isinstance(n.ast, ast.Call) and isinstance(n.ast.func, ast.Name) and n.ast.func.id == "pre_write_hook"]
        if pname is None or not writers or not hooks:
            return False, f"{t.name} never calls the hook before creating the writer"
        for h in hooks:
            a0 = h.ast.args[0] if h.ast.args else None  # type: ignore[union-attr]
            if not (isinstance(a0, ast.Name) and a0.id == pname and tg.entry in ctx.rd(t).reaching(h.id, pname) and len(ctx.rd(t).reaching(h.id, pname)) == 1):
                return False, (f"{t.name} calls the hook with `{norm_text(a0) if a0 is not None else None}`, not with the table-relative "
                               "file_path it was given: the marker's payload never matches what the collector lists")
        none_false = null_edges(tg, "pre_write_hook")
        for wr in writers:
            wpath = find_path(tg, tg.entry, [wr.id], avoid=[h.id for h in hooks], labels=NORMAL, edge_ok=lambda s_, d_, l_: (s_, d_) not in none_false)
            if wpath is not None:
                return False, f"a path of {t.name} creates the writer without having called the hook"
        for h in hooks:
            esc, _ = ctx.eff.propagate(t, {"Exception"}, h.frames, record=False)
            if not esc:
                return False, "a failing hook is swallowed: the file would be written unprotected"
    return True, "pre_write_hook=_register_inflight; the producer calls it with its file_path before creating the writer"


def data_writes_protected(ctx: Ctx, rid: str) -> None:
    ctx.rule(rid, "every data-file production site is protected like append_data: each call (from outside data_operations) of a "
             "function that constructs a DataFileWriter is dominated by _register_inflight(<the same path>), the registration "
             "failure propagates, and - the marker being named after the file's basename - a site inside a loop draws the name's "
             "uuid inside that loop (one marker per file, not one per call)", 1)
    producers = {f.qname for f in ctx.prog.functions.values() if f.module.short == "data_operations" and not isinstance(f.node, ast.Lambda)
                 and any(n.callee and n.callee.kind == "ctor" and n.callee.cls and n.callee.cls.name == "DataFileWriter" for n in ctx.cfg(f).calls())}
    if not producers:
        raise AnalysisError("no DataFileWriter construction found in data_operations")
    n_sites = 0
    for f in sorted(ctx.prog.functions.values(), key=lambda x: x.qname):
        if isinstance(f.node, ast.Lambda) or f.module.short == "data_operations" or judged_in_callers(ctx, f):
            continue
        g = ctx.cfg(f)
        sites = [n for n in g.calls() if n.id in g.reachable() and any(t.qname in producers for t in ctx.eff.callees(f, n))]
        if not sites:
            continue
        dom = ctx.dom(f, NORMAL)
        regs = [n for n in g.calls() if any(t.name == "_register_inflight" for t in ctx.eff.callees(f, n))]
        sl = ctx.slicer(f)
        for w in sites:
            n_sites += 1
            parg = kwarg(w.ast, "file_path", 0)
            pv = names_in(parg) if parg is not None else set()
            mine = [r for r in regs if r.id in dom[w.id] and pv & names_in(path_arg(r))]
            ok = bool(mine)
            why = "_register_inflight(path) dominates the write of the same path"
            if not mine:
                why = ("no _register_inflight call for this path dominates the write: a collection running before the commit "
                       "deletes the file (a marker written by hand is not what the collector's _marker_target reads)")
                if kwarg(w.ast, "pre_write_hook") is not None:
                    ok, why = hook_protects_write(ctx, f, w)
            for r in mine:
                esc, _ = ctx.eff.propagate(f, {"Exception"}, r.frames, record=False)
                if not esc:
                    ok, why = False, "a failed marker write is swallowed: the file would be written unprotected"
            loops = [fr.node for fr in w.frames if fr.kind == "loop"]
            if ok and loops:
                inner = loops[-1]
                org = sl.origins(parg, w.id)
                fresh_nodes = [g.nodes[d] for d in org["nodes"] if g.nodes[d].ast is not None and any(
                    isinstance(x, ast.Call) and (dotted(x.func) or "").endswith("uuid4") for x in ast.walk(g.nodes[d].ast))]
                inline_fresh = any(isinstance(x, ast.Call) and (dotted(x.func) or "").endswith("uuid4") for x in ast.walk(parg)) if parg is not None else False
                in_loop = inline_fresh or any(any(fr.kind == "loop" and fr.node is inner for fr in d.frames) for d in fresh_nodes)
                if not in_loop:
                    ok, why = False, ("the file names of all iterations share one uuid drawn outside the loop: files with equal "
                                      "basenames share ONE marker (named after the basename), which protects only the last of them")
            ctx.ob(rid, f, "data-file write is marker-protected", w, ok, why)
    ctx.ob(rid, None, "data-file production sites enumerated", None, n_sites >= 1, f"{n_sites} site(s), producers {sorted(producers)}",
           nontrivial=False)


def r1(ctx: Ctx, rid: str) -> None:
    ctx.rule(rid, "marker before file: each write of a not-yet-reachable file is dominated by the marker write for the same "
             "path; marker-write failures propagate; transactions always pass pre_write_hook=_register_inflight", 7)
    ad = ctx.fn("transaction.Transaction.append_data")
    g = ctx.cfg(ad)
    dom = ctx.dom(ad, NORMAL)
    regs = ctx.calls(ad, name="_register_inflight")
    for w in ctx.calls(ad, name="write_data_file"):
        pv = names_in(kwarg(w.ast, "file_path", 0))
        ok = any(r.id in dom[w.id] and pv & names_in(path_arg(r)) for r in regs)
        if not ok and kwarg(w.ast, "pre_write_hook") is not None:
            ok = hook_protects_write(ctx, ad, w)[0]
        ctx.ob(rid, ad, "append_data: marker registered before the data file is written", w, ok,
               "_register_inflight(file_path) dominates write_data_file(file_path=file_path)")
    for r in regs:
        esc, _ = ctx.eff.propagate(ad, {"Exception"}, r.frames, record=False)
        ctx.ob(rid, ad, "append_data: marker-write failure propagates", r, bool(esc),
               "no handler swallows a failed marker write (a file is never written unprotected)")
    for q in ("file_manager.FileManager.create_manifest_file", "file_manager.FileManager.create_manifest_list_file"):
        f = ctx.fn(q)
        fg = ctx.cfg(f)
        # calls of THIS function's own pre_write_hook parameter (directly, or through a helper the parameter was forwarded to:
        # the callable's reaching definitions lead back to the parameter - a helper's defaulted `=None` does not)
        fsl = ctx.slicer(f)
        hooks = []
        for n in fg.calls():
            if not (isinstance(n.ast, ast.Call) and isinstance(n.ast.func, ast.Name)):
                continue
            if n.callee is None or n.callee.kind != "param":
                continue
            if n.ast.func.id == "pre_write_hook" or "pre_write_hook" in fsl.origins(n.ast.func, n.id)["params"]:
                hooks.append(n)
        writes = ctx.calls(f, storage="write_file")
        if not writes:
            raise AnalysisError(f"no storage write in {q}")
        guard_false = null_edges(fg, "pre_write_hook")
        for w in writes:
            pv = names_in(path_arg(w))
            same = [h for h in hooks if isinstance(h.ast, ast.Call) and h.ast.args and names_in(h.ast.args[0]) & pv]
            wp = find_path(fg, fg.entry, [w.id], avoid=[h.id for h in same], labels=NORMAL,
                           edge_ok=lambda s, d, l: (s, d) not in guard_false)
            ctx.ob(rid, f, "pre_write_hook(path) dominates storage.write_file(path)", w, bool(same) and wp is None,
                   "when a hook is supplied it runs with the same path before the file is written",
                   witness=ctx.path_witness(f, wp))
        for h in hooks:
            esc, _ = ctx.eff.propagate(f, {"Exception"}, h.frames, record=False)
            ctx.ob(rid, f, "hook failure propagates", h, bool(esc), "a failing marker write aborts the manifest write")
        # every call from the transaction passes the hook
        for caller, n in ctx.eff.call_sites.get(f.qname, []):
            if caller.module.short != "transaction":
                continue
            arg = ctx.eff.bind_arg(n.ast, f, "pre_write_hook", True)  # type: ignore[arg-type]
            vals = ctx.eff.function_values(arg, caller) if arg is not None else []
            ok = bool(vals) and all(v.name == "_register_inflight" for v in vals)
            ctx.ob(rid, caller, f"{f.name}(pre_write_hook=_register_inflight)", n, ok,
                   "commit-time manifests / lists are protected like data files")
    ri = ctx.fn("transaction.Transaction._register_inflight")
    for w in ctx.calls(ri, storage="write_file"):
        esc, _ = ctx.eff.propagate(ri, {"Exception"}, w.frames, record=False)
        ctx.ob(rid, ri, "_register_inflight: write failure propagates", w, bool(esc), "fail closed")
    rg = ctx.cfg(ri)
    hook_param = next((p.name for p in ri.params if p.name != "self"), None)
    mws = ctx.calls(ri, storage="write_file")
    pay_ok = bool(mws) and hook_param is not None
    for w in mws:
        content = kwarg(w.ast, "content", 1) or kwarg(w.ast, "data", 1)
        org = ctx.slicer(ri).origins(content, w.id) if content is not None else {"params": set(), "consts": set()}
        if hook_param not in org["params"] or "file_path" not in org["consts"]:
            pay_ok = False
    ctx.ob(rid, ri, "marker payload names the protected path", mws[0] if mws else None, pay_ok,
           "the collector learns WHICH file the marker protects: the marker content derives from the hook's path argument "
           "under the 'file_path' key")
    # writer / reader agreement by scenario (nothing is run): for two files the marker lands under the collector's marker
    # directory with the suffix the collector requires, the two markers differ, and the payload's 'file_path' is the
    # table-relative path itself (what _marker_target normalises and protects)
    from .common import concrete_eval, explore, resolve_value, UNKNOWN
    gcm = ctx.prog.modules.get("datashard.garbage_collector")
    inflight_dir = ctx.prog.const_str(ast.Name(id="INFLIGHT_PATH", ctx=ast.Load()), gcm, None) if gcm is not None else None
    if inflight_dir is None and gcm is not None and isinstance(gcm.consts.get("INFLIGHT_PATH"), ast.Constant):
        inflight_dir = gcm.consts["INFLIGHT_PATH"].value  # type: ignore[union-attr]
    seen_markers = {}
    for scen_path in ("data/ab/x-1.parquet", "/metadata/m-2.avro"):
        for w in mws:
            if hook_param is None or inflight_dir is None:
                continue
            env = {hook_param: scen_path}
            hits = [(nid, store) for nid, store, _asm in explore(ctx, ri, [rg.entry], env, stop=[w.id]) if nid == w.id]
            for nid, store in hits:
                scen = dict(env)
                scen.update({k: v for k, v in store.items() if isinstance(k, str)})
                mp = concrete_eval(ctx, ri, path_arg(w), scen, nid)
                if mp is UNKNOWN or not isinstance(mp, str):
                    ctx.ob(rid, ri, "marker name is the collector's: <marker dir>/<name>.inflight", w, True,
                           "marker path not evaluable under the scenario (not judged)", nontrivial=False, text=scen_path)
                else:
                    okm = mp.lstrip("/").startswith(str(inflight_dir).strip("/") + "/") and mp.endswith(".inflight") \
                        and len(mp.lstrip("/")) > len(str(inflight_dir).strip("/")) + 1 + len(".inflight")
                    seen_markers[scen_path] = mp
                    ctx.ob(rid, ri, "marker name is the collector's: <marker dir>/<name>.inflight", w, okm,
                           f"{scen_path!r} -> marker {mp!r} (collector lists {inflight_dir!r} and honours *.inflight)", text=scen_path)
                content = kwarg(w.ast, "content", 1) or kwarg(w.ast, "data", 1)
                vals = []
                for src, sat in (resolve_value(ctx, ri, content, nid) if content is not None else []):
                    for d in [x for x in ast.walk(src)] if src is not None else []:
                        if isinstance(d, ast.Dict):
                            for k, v in zip(d.keys, d.values):
                                if isinstance(k, ast.Constant) and k.value == "file_path":
                                    vals.append(concrete_eval(ctx, ri, v, scen, sat))
                        elif isinstance(d, ast.Name) and d is not src:
                            for s2, sat2 in resolve_value(ctx, ri, d, sat):
                                if isinstance(s2, ast.Dict):
                                    for k, v in zip(s2.keys, s2.values):
                                        if isinstance(k, ast.Constant) and k.value == "file_path":
                                            vals.append(concrete_eval(ctx, ri, v, scen, sat2))
                if not vals or any(v is UNKNOWN for v in vals):
                    ctx.ob(rid, ri, "marker payload is the table-relative path of the file", w, True,
                           "payload not evaluable under the scenario (not judged)", nontrivial=False, text=scen_path)
                else:
                    okp = all(isinstance(v, str) and v.strip("/") == scen_path.strip("/") for v in vals)
                    ctx.ob(rid, ri, "marker payload is the table-relative path of the file", w, okp,
                           f"{scen_path!r} -> payload file_path {sorted(set(map(repr, vals)))}: the collector protects exactly that path",
                           text=scen_path)
    if len(seen_markers) == 2:
        a_, b_ = list(seen_markers.values())
        ctx.ob(rid, ri, "different files get different markers", mws[0] if mws else None, a_ != b_,
               f"{a_!r} vs {b_!r}: one shared marker is overwritten by the next registration and removed by the first commit")
    app = [n for n in rg.calls() if isinstance(n.ast, ast.Call) and isinstance(n.ast.func, ast.Attribute)
           and n.ast.func.attr == "append" and "_inflight_markers" in norm_text(n.ast.func.value)]
    ctx.ob(rid, ri, "marker path is remembered for cleanup", app[0] if app else None, bool(app),
           "self._inflight_markers.append(marker_path)", nontrivial=False)


def r2(ctx: Ctx, rid: str = "C06.R2") -> None:
    ctx.rule(rid, "marker removed only after the commit point: marker-deleting functions are _finish_committed and _rollback; "
             "_finish_committed is only called after a commit-point call or on the empty-transaction branch; _rollback "
             "removes markers after the files", 4)
    tr = ctx.prog.cls("transaction.Transaction")
    owners = []
    for m in tr.methods.values():
        sl = ctx.slicer(m)
        for d in ctx.calls(m, storage="delete_file"):
            org = sl.origins(path_arg(d), d.id)
            if "self._inflight_markers" in org["names"]:
                owners.append((m, d))
    from .common import owner_tops
    names = sorted({o.name for m, _d in owners for o in (owner_tops(ctx, m) or [m])})
    ctx.ob(rid, None, "marker-delete owners", None, names == ["_finish_committed", "_rollback"],
           f"functions deleting in-flight markers: {names}", text="marker-delete-census",
           file="src/datashard/transaction.py", line=0)
    from .c04 import commit_chain
    chain = commit_chain(ctx)
    fin_q = ctx.fn("transaction.Transaction._finish_committed").qname
    for caller, n in ctx.eff.call_sites.get(fin_q, []):
        g = ctx.cfg(caller)
        dom = ctx.dom(caller, NORMAL)
        cps = [c for ff, c, _w in chain if ff.qname == caller.qname]
        after_cp = any(c.id in dom[n.id] for c in cps)
        # or: on the empty-operations branch (dominated by the false edge of `self._operations`)
        empty = False
        for b in g.nodes:
            if b.kind == "branch" and norm_text(b.ast) == "self._operations" and b.id in dom[n.id]:
                fl = edge_target(g, b, "false")
                t = edge_target(g, b, "true")
                if fl is not None and n.id in reachable_from(g, fl, NORMAL) and (t is None or n.id not in reachable_from(g, t, NORMAL, avoid=[fl])):
                    empty = True
        # some path to this call must not bypass every commit point: require dominance by one cp OR all preds dominated
        if not after_cp and not empty and cps:
            w = find_path(g, g.entry, [n.id], avoid=[c.id for c in cps], labels=NORMAL)
            after_cp = w is None
        ctx.ob(rid, caller, "_finish_committed only after the commit point (or empty transaction)", n, after_cp or empty,
               "markers stay in place until the pointer flip has returned")
    rb = ctx.fn("transaction.Transaction._rollback")
    rg = ctx.cfg(rb)
    sl = ctx.slicer(rb)
    dels = ctx.calls(rb, storage="delete_file")
    file_d = [d for d in dels if "self._written_files" in sl.origins(path_arg(d), d.id)["names"]]
    mark_d = [d for d in dels if "self._inflight_markers" in sl.origins(path_arg(d), d.id)["names"]]
    ok = bool(file_d) and bool(mark_d) and all(find_path(rg, m.id, [f.id], labels=NORMAL) is None for m in mark_d for f in file_d)
    ctx.ob(rid, rb, "_rollback removes markers after the files", mark_d[0] if mark_d else None, ok,
           "a rolled-back file is deleted by its own transaction before its protection disappears")


def r3(ctx: Ctx, rid: str = "C06.R3") -> None:
    ctx.rule(rid, "collector read order: the in-flight marker read dominates the metadata read", 1)
    col = ctx.fn(GC + ".collect")
    g = ctx.cfg(col)
    dom = ctx.dom(col, NORMAL)
    prot = [n for n in g.calls() if any(t.name == "_load_inflight_protection" for t in ctx.eff.callees(col, n))]
    refr = [n for n in g.calls() if any(t.qname == "datashard.metadata_manager.MetadataManager.refresh" for t in ctx.eff.callees(col, n))
            or ctx.eff.reaches_function(col, {"datashard.metadata_manager.MetadataManager.refresh"}, n) and not
            any(t.name in ("_load_inflight_protection", "_gc_prefix", "read_manifest_file", "read_manifest_list_file", "exists") for t in ctx.eff.callees(col, n))]
    if not prot or not refr:
        raise AnalysisError("marker load / metadata refresh calls not found in collect")
    r0 = refr[0]
    # a GENERATOR's body runs where the generator object is consumed, not where it is created: for a loader that yields, the
    # marker read happens at the first statement that reads the variable holding the generator
    eff_prot = []
    for p in prot:
        lazy = any(any(isinstance(y, (ast.Yield, ast.YieldFrom)) for y in ast.walk(t.node)) for t in ctx.eff.callees(col, p)
                   if t.name == "_load_inflight_protection")
        st = p.stmt
        var = st.targets[0].id if lazy and isinstance(st, ast.Assign) and len(st.targets) == 1 and isinstance(st.targets[0], ast.Name) \
            and st.value is p.ast else None
        if var is None:
            eff_prot.append(p)
            continue
        eff_prot += [n for n in g.nodes if n.ast is not None and n.kind in ("stmt", "call", "branch", "loop", "return") and n.stmt is not st
                     and var in names_in(n.ast)]
    ok = any(p.id in dom[r0.id] for p in eff_prot)
    ctx.ob(rid, col, "marker read precedes the metadata read", r0, ok,
           "markers are removed only AFTER a commit's pointer flip, so reading markers first guarantees: marker gone => "
           "the later metadata read sees that commit. Reading metadata first leaves a window in which a commit lands and "
           "drops its markers between the two reads; its (old enough) files are then neither reachable nor protected.",
           witness=[f"{col.file}:{r0.lineno} {r0.text}", f"{col.file}:{prot[0].lineno} {prot[0].text}"] if not ok else None)


def fresh_edges(ctx: Ctx, f: FunctionInfo) -> Tuple[Set[Tuple[int, int]], Set[Tuple[int, int]], List[Node]]:
    """In the marker sweep: the CFG edges taken when the marker is FRESH / STALE, from branches on the age test
    (`mtime*1000 >= now - timeout`, directly or through a flag variable whose other definitions are the constant True)."""
    g = ctx.cfg(f)
    sl = ctx.slicer(f)
    rd = ctx.rd(f)

    def has_stat(org) -> bool:
        return any(isinstance(c, ast.Call) and isinstance(c.func, ast.Attribute) and c.func.attr == "get_modified_time" for c in org["calls"])

    def fresh_on_true(cmp_: ast.AST, at: int) -> Optional[bool]:
        if not (isinstance(cmp_, ast.Compare) and len(cmp_.ops) == 1 and isinstance(cmp_.ops[0], (ast.Lt, ast.LtE, ast.Gt, ast.GtE))):
            return None
        lo, ro = sl.origins(cmp_.left, at), sl.origins(cmp_.comparators[0], at)
        if has_stat(lo) == has_stat(ro):
            return None
        gt = isinstance(cmp_.ops[0], (ast.Gt, ast.GtE))
        return gt if has_stat(lo) else not gt  # mtime >= cutoff  <=>  fresh

    fresh: Set[Tuple[int, int]] = set()
    stale: Set[Tuple[int, int]] = set()
    brs: List[Node] = []
    for b in g.nodes:
        if b.kind != "branch" or b.ast is None or b.id not in g.reachable():
            continue
        fot: Optional[bool] = None
        if isinstance(b.ast, ast.Compare):
            fot = fresh_on_true(b.ast, b.id)
        elif isinstance(b.ast, ast.Name):
            vals = []
            for d in rd.reaching(b.id, b.ast.id):
                dn = g.nodes[d]
                if d == g.entry or not isinstance(dn.ast, ast.Assign):
                    vals.append(None)
                elif isinstance(dn.ast.value, ast.Constant) and dn.ast.value.value is True:
                    continue  # "cannot stat -> treat as fresh"
                else:
                    vals.append(fresh_on_true(dn.ast.value, d))
            if vals and all(v is not None for v in vals) and len(set(vals)) == 1:
                fot = vals[0]
        if fot is None:
            continue
        brs.append(b)
        for d, l in g.succ[b.id]:
            if l == ("true" if fot else "false"):
                fresh.add((b.id, d))
            elif l == ("false" if fot else "true"):
                stale.add((b.id, d))
    return fresh, stale, brs


def sweep_model(ctx: Ctx) -> Dict[str, object]:
    """The marker sweep of _load_inflight_protection by role: loop, insertions into the returned set, marker deletes, the
    freshness atoms (comparisons of the marker's mtime with the cutoff, oriented) and the `is a marker` atoms."""
    lp = ctx.fn(GC + "._load_inflight_protection")
    g = ctx.cfg(lp)
    lsl = ctx.slicer(lp)
    loops = [l for l in g.nodes if l.kind == "loop" and isinstance(l.ast, ast.For)]
    mloops = [l for l in loops if any(isinstance(c, ast.Call) and (dotted(c.func) or "").endswith("list_files")
                                      for c in lsl.origins(l.ast.iter, l.id)["calls"])]  # type: ignore[union-attr]
    if not mloops:
        raise AnalysisError("marker loop vanished from _load_inflight_protection")
    ml = mloops[0]
    rets = [n for n in g.nodes if n.kind == "return" and n.id in g.reachable()]
    rnames = {nm for r in rets for nm in names_in(r.ast.value)}  # type: ignore[union-attr]
    adds = [n for n in g.calls() if isinstance(n.ast, ast.Call) and isinstance(n.ast.func, ast.Attribute)
            and n.ast.func.attr in ("add", "update", "append", "extend") and dotted(n.ast.func.value) in rnames]
    deletes = [n for n in ctx.calls(lp, storage="delete_file") if any(fr.kind == "loop" and fr.node is ml.ast for fr in n.frames)]

    def has_stat(org) -> bool:
        return any(isinstance(c, ast.Call) and isinstance(c.func, ast.Attribute) and c.func.attr == "get_modified_time" for c in org["calls"])

    fresh: Dict[int, bool] = {}
    marker_atoms: Set[int] = set()
    for n in g.nodes:
        if n.ast is None or n.id not in g.reachable():
            continue
        for x in ast.walk(n.ast):
            if isinstance(x, ast.Compare) and len(x.ops) == 1 and isinstance(x.ops[0], (ast.Lt, ast.LtE, ast.Gt, ast.GtE)):
                lo, ro = lsl.origins(x.left, n.id), lsl.origins(x.comparators[0], n.id)
                if has_stat(lo) != has_stat(ro):
                    gt = isinstance(x.ops[0], (ast.Gt, ast.GtE))
                    fresh[id(x)] = gt if has_stat(lo) else not gt  # mtime >= cutoff  <=>  fresh
            if isinstance(x, ast.Call) and isinstance(x.func, ast.Attribute) and x.func.attr == "endswith" \
                    and any("inflight" in v for v in str_consts(ctx, lp, x)):
                marker_atoms.add(id(x))
    return {"fn": lp, "loop": ml, "body": edge_target(g, ml, "true"), "adds": adds, "deletes": deletes, "fresh": fresh,
            "marker_atoms": marker_atoms}


def r_honoured(ctx: Ctx, rid: str) -> None:
    ctx.rule(rid, "the collector honours every fresh marker: in the marker sweep each listed *.inflight entry that is not stale "
             "reaches protected.add(<its target>); the target of a marker with a payload is the payload's path", 3)
    lp = ctx.fn(GC + "._load_inflight_protection")
    g = ctx.cfg(lp)
    loops = [l for l in g.nodes if l.kind == "loop" and isinstance(l.ast, ast.For)]
    lsl = ctx.slicer(lp)
    mloops = [l for l in loops if any(isinstance(c, ast.Call) and (dotted(c.func) or "").endswith("list_files")
                                      for c in lsl.origins(l.ast.iter, l.id)["calls"])]  # type: ignore[union-attr]
    if not mloops:
        raise AnalysisError("marker loop vanished from _load_inflight_protection")
    ml = mloops[0]
    rets = [n for n in g.nodes if n.kind == "return" and n.id in g.reachable()]
    rnames = {nm for r in rets for nm in names_in(r.ast.value)}  # type: ignore[union-attr]
    adds = [n for n in g.calls() if isinstance(n.ast, ast.Call) and isinstance(n.ast.func, ast.Attribute)
            and n.ast.func.attr in ("add", "update", "append", "extend") and dotted(n.ast.func.value) in rnames]
    ctx.ob(rid, lp, "the returned set is populated inside the marker loop", adds[0] if adds else ml,
           bool(adds) and all(any(fr.kind == "loop" and fr.node is ml.ast for fr in a.frames) for a in adds), "", nontrivial=False)
    # the added value is the marker's target
    for a in adds:
        org = lsl.origins(a.ast.args[0] if a.ast.args else None, a.id)  # type: ignore[union-attr]
        ok = any(isinstance(c, ast.Call) and (dotted(c.func) or "").endswith("_marker_target") for c in org["calls"])
        ctx.ob(rid, lp, "what is protected is the marker's target", a, ok, "protected.add(self._marker_target(...))")
    sm = sweep_model(ctx)
    results = explore(ctx, lp, [sm["body"]] if sm["body"] is not None else [], assume=sm["fresh"], stop=[ml.id],
                      watch=[a.id for a in sm["adds"]] + [d.id for d in sm["deletes"]])
    unprotected = [(store, asm) for _end, store, asm in results
                   if not any(store.get(("seen", a.id)) for a in sm["adds"])
                   and not any(asm.get(k) is False for k in sm["marker_atoms"])]
    removed = [(store, asm) for _end, store, asm in results if any(store.get(("seen", d.id)) for d in sm["deletes"])]
    ctx.ob(rid, lp, "every fresh *.inflight entry reaches protected.add", ml,
           bool(sm["adds"]) and bool(sm["fresh"]) and bool(results) and not unprotected,
           f"path-sensitive walk of one sweep iteration under the scenario 'the marker is fresh' ({len(results)} paths): an "
           "iteration may end without protecting its file only for an entry that is not a marker; otherwise the files of a "
           "transaction in flight look like orphans to the sweep"
           + (f"; e.g. assumptions {dict(list(unprotected[0][1].items())[:3])}" if unprotected else ""))
    ctx.ob(rid, lp, "a fresh marker is never removed", ml, not removed,
           "under the same scenario no path reaches the marker delete")
    # _marker_target: a payload that names a path determines the result
    mt = ctx.fn(GC + "._marker_target")
    mg = ctx.cfg(mt)
    msl = ctx.slicer(mt)
    tdefs = [n for n in mg.nodes if n.kind == "stmt" and isinstance(n.ast, ast.Assign) and len(n.ast.targets) == 1
             and isinstance(n.ast.targets[0], ast.Name) and isinstance(n.ast.value, ast.Call)
             and isinstance(n.ast.value.func, ast.Attribute) and n.ast.value.func.attr == "get"
             and n.ast.value.args and ctx.prog.const_str(n.ast.value.args[0], mt.module, mt) == "file_path"]
    if not tdefs:
        sub = [n for n in mg.nodes if n.kind == "stmt" and isinstance(n.ast, ast.Assign) and len(n.ast.targets) == 1
               and isinstance(n.ast.targets[0], ast.Name) and isinstance(n.ast.value, ast.Subscript)
               and ctx.prog.const_str(n.ast.value.slice, mt.module, mt) == "file_path"]
        tdefs = sub
    if not tdefs:
        raise AnalysisError("_marker_target no longer reads the payload's 'file_path'")
    td = tdefs[0]
    tv = td.ast.targets[0].id  # type: ignore[union-attr]

    # path-sensitive walk from the payload read under the scenario "the payload names a path"
    scen = "metadata/manifests/m-0001.avro"
    rets = [n for n in mg.nodes if n.kind == "return" and n.id in mg.reachable()]
    starts = [d for d, l in mg.succ[td.id] if l in NORMAL]
    # seed the store through a pseudo-assignment: the walk starts after the read, with the payload variable bound
    res = explore(ctx, mt, starts, env={tv: scen}, stop=[r.id for r in rets], watch=[r.id for r in rets])
    bad = []
    for end, store, _asm in res:
        if end == mg.exit:
            continue
        r = mg.nodes[end]
        carriers = {tv} | {k for k, v in store.items() if isinstance(k, str) and v == scen}
        if not (set(names_in(r.ast.value)) & carriers):  # type: ignore[union-attr]
            bad.append(r)
    ctx.ob(rid, mt, "a marker payload naming a path determines the protected path", bad[0] if bad else td,
           bool(res) and not bad,
           f"path-sensitive walk under the scenario payload = {scen!r} ({len(res)} paths): every return reached derives from the "
           "payload (the legacy data/<basename> convention is only the fallback) - manifests and manifest lists of a commit in "
           "progress are protected under their own paths")


def marker_parse_tolerant(ctx: Ctx, rid: str) -> None:
    """C03: a writer that dies between creating a marker file and writing its payload leaves an empty / truncated marker."""
    ctx.rule(rid, "recovery tolerates leftover markers: a marker whose payload cannot be parsed (empty file of a writer that died "
             "mid-write, legacy marker) resolves to the legacy target - it never aborts every later collection", 1)
    mt = ctx.fn(GC + "._marker_target")
    g = ctx.cfg(mt)
    parses = ctx.calls(mt, prim="json.loads")
    parses += [n for n in ctx.cfg(mt).calls() if ctx.eff.storage_op(n) == "read_json"]  # read + decode in one storage call
    if not parses:
        raise AnalysisError("_marker_target no longer parses the marker payload with json.loads")
    for p in parses:
        decode_errors = {"ValueError"} if ctx.eff.storage_op(p) != "read_json" else {"json.JSONDecodeError", "UnicodeDecodeError"}
        esc, caught = ctx.eff.propagate(mt, decode_errors, p.frames, record=False)
        ok = not esc and bool(caught)
        # (a class caught by an earlier, narrower handler never reaches the later ones: judge the first catcher of each class)
        first_for = {}
        for h, c_ in caught:
            first_for.setdefault(c_, h)
        for h in {id(v): v for v in first_for.values()}.values():
            hn = next((x for x in g.nodes if x.kind == "handler" and x.ast is h), None)
            if hn is None:
                ok = False
                continue
            ex = handler_exits(ctx, mt, hn)
            if ex["raise"] or not (ex["return"] or ex["fallthrough"]):
                ok = False
        ctx.ob(rid, mt, "an unparseable payload falls back (does not raise)", p, ok,
               "json.loads / decode errors are handled by returning the legacy data/<basename> target; raising here makes every "
               "later garbage_collect() abort on the leftover of one dead writer")


def r4(ctx: Ctx) -> None:
    ctx.rule("C06.R4", "protection is applied to both sweeps", 2)
    col = ctx.fn(GC + ".collect")
    sl = ctx.slicer(col)
    for c in ctx.calls(col, name="_gc_prefix"):
        from .c05 import membership_param
        arg = kwarg(c.ast, membership_param(ctx), 1)
        org = sl.origins(arg, c.id)
        ok = any(isinstance(x, ast.Call) and (dotted(x.func) or "").endswith("_load_inflight_protection") for x in org["calls"])
        ctx.ob("C06.R4", col, "sweep receives the protected set", c, ok, "reachable ∪ protected for data AND manifests")
