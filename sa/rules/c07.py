"""C07 - garbage collection fails closed."""
from __future__ import annotations

import ast
from typing import Callable, Dict, List, Optional, Set, Tuple

from ..cfg import NORMAL, Node, handler_classes
from ..core import Ctx
from ..effects import STORAGE_READS
from ..flow import ALL, find_path, names_in
from ..model import AnalysisError, FunctionInfo, dotted, norm_text
from .common import (pure_guard, edge_target, guarded_names, handler_exits, handler_key, handler_nodes, in_handler, owner_tops,
                     in_try_body, reachable_from, try_body_calls)

EXPLANATION = (
    "Static analysis of every except-handler in garbage_collector.py: each handler guarding a storage read / list / stat "
    "must raise GarbageCollectionAborted or be one of the frozen conservative shapes, whose conservative effect is itself "
    "checked (age_ok forced True, protection re-added, nothing deleted); all abort sites and the marker load dominate "
    "the first delete-capable call; the escaping-path test dominates the membership test and raises."
    " Also: (R5) no skip path in the reachability loops; (R6) no fail-open version resolution under the collector's metadata read."
    ' (R7) who-may-delete census (C09.R3); (R8) no function the collector reaches (metadata resolution, manifest readers, backends) converts a failure into a default answer.'
    ' (R9) the manifest parsers drop no entry (C14.R7).'
    " (R12) recovery orders versions as integers; (R13) strict metadata decoder; (R14) no lexical path normalisation before the collector's `..` guard (C17.R4). R1 accepts a handler that guards a pure computation and raises on every path."
    " (R16) the legacy marker target is comparable with listed paths (C05.R2); R3 requires the '..' guard to test the NORMALISED path; R1 follows sentinel results (NaN) of stat helpers through the comparisons that use them."
    " (R17) the listing the sweep iterates is materialised inside the (retried) listing operation - never a generator whose later pages are fetched between deletions (C20.R8). R3 accepts the two-pass form (entries screened by the '..' guard into a list that the classification loop iterates).")
NOT_DECIDED = "run-time fault enumeration; corruption classes of files that still parse"

GC = "garbage_collector.GarbageCollector"
ABORT = "GarbageCollectionAborted"


def check(ctx: Ctx) -> None:
    r1(ctx)
    r2(ctx)
    r3(ctx)
    from .c14 import r2_parsers
    r2_parsers(ctx, "C07.R4")
    from .c05 import r1_noskip
    r1_noskip(ctx, "C07.R5")
    from .c10 import r4 as c10_r4
    c10_r4(ctx, "C07.R6")
    # failing closed is a property of THE deleter: a second deleter (maintenance API, eager clean-up) has none of these guards
    from .c09 import r3 as c09_r3
    ctx.shared(c09_r3, "C09.R3", "C07.R7", "every deleter is the fail-closed collector or a sanctioned owner")
    # what the collector is TOLD must be trustworthy: no function it calls (metadata resolution, manifest readers, the storage
    # backends' stat / list / read) turns a failure into a default answer (an older version, an empty list, mtime 0)
    from .c14 import READ_MODULES, r1 as c14_r1
    c14_r1(ctx, "C07.R8", [ctx.fn("garbage_collector.GarbageCollector.collect")], READ_MODULES + ("storage_backend", "s3_consistency"),
           "collector's inputs: every handler in a function GarbageCollector.collect reaches (outside the collector itself)", 10, 12)
    from .c14 import parsers_keep_every_entry
    parsers_keep_every_entry(ctx, "C07.R9")
    from .c20 import r10_listing_exhaustive
    r10_listing_exhaustive(ctx, "C07.R10")
    from .c20 import r2 as c20_r2
    ctx.shared(c20_r2, "C20.R2", "C07.R11", "an unreadable (403 / throttled) marker or manifest is not a missing one")
    from .c20 import r12_stream_faithful
    r12_stream_faithful(ctx, "C07.R12")
    # fail closed includes resolving the right version when the pointer is lost: recovery orders versions as integers
    from .c10 import r11 as c10_r11
    c10_r11(ctx, "C07.R12")
    # a metadata file that lost a section must fail to load, not load as 'no snapshots' (the collector would delete everything)
    from .c14 import metadata_reader_is_strict
    metadata_reader_is_strict(ctx, "C07.R13")
    # "a listing that returns a path outside the table" must reach the collector's `..` guard unfolded: no lexical normalisation
    from .c17 import no_lexical_normalisation
    no_lexical_normalisation(ctx, "C07.R14")
    # a document that is not a manifest must abort the collection, not count as 'nothing reachable'
    from .c14 import parsers_read_containers_strictly
    parsers_read_containers_strictly(ctx, "C07.R15")
    # "keeps the affected protection in force": what a marker with an unusable payload protects is a path the listing can match
    from .c05 import r2 as c05_r2
    ctx.shared(c05_r2, "C05.R2", "C07.R16", "a marker that cannot be read in full still protects the file it was written for")
    # "a storage failure raises and deletes nothing": the listing the sweep iterates is complete BEFORE the first deletion - it is
    # materialised inside the (retried) listing operation, not a generator whose later pages are fetched between deletes
    from .c20 import r8_work
    r8_work(ctx, "C07.R17")


def _assigns(ctx: Ctx, f: FunctionInfo, h: ast.ExceptHandler, name: str, value: object) -> bool:
    """The handler forces the flag that the guarded try-body computes to `value` (the flag is found by role: the variable
    the try body assigns)."""
    g = ctx.cfg(f)
    t = next((x.stmt for x in g.nodes if x.kind == "handler" and x.ast is h), None)
    body_vars = {tg.id for n in g.nodes if n.kind == "stmt" and t is not None and in_try_body(n, t) and isinstance(n.ast, ast.Assign)
                 for tg in n.ast.targets if isinstance(tg, ast.Name)}
    for n in g.nodes:
        if n.kind == "stmt" and in_handler(n, h) and isinstance(n.ast, ast.Assign) \
                and any(isinstance(tg, ast.Name) and tg.id in body_vars for tg in n.ast.targets) \
                and isinstance(n.ast.value, ast.Constant) and n.ast.value.value is value:
            return True
    return False


def _keeps_protection(ctx: Ctx, f: FunctionInfo, h: ast.ExceptHandler, may_delete: bool) -> bool:
    """Path-sensitive walk from the handler to the end of the sweep iteration: the marker's file ends up protected."""
    from .c06 import sweep_model
    from .common import explore
    sm = sweep_model(ctx)
    if sm["fn"] is not f:
        return False
    g = ctx.cfg(f)
    hn = next((x for x in g.nodes if x.kind == "handler" and x.ast is h), None)
    if hn is None:
        return False
    adds, dels = sm["adds"], sm["deletes"]
    res = explore(ctx, f, [hn.id], stop=[sm["loop"].id], watch=[a.id for a in adds] + [d.id for d in dels])
    marker_atoms = sm["marker_atoms"]
    for _end, store, asm in res:
        if any(asm.get(k) is False for k in marker_atoms):
            continue  # not a marker at all
        if not any(store.get(("seen", a.id)) for a in adds):
            return False
        if not may_delete and any(store.get(("seen", d.id)) for d in dels):
            return False
    return bool(res)


def _no_delete_after(ctx: Ctx, f: FunctionInfo, h: ast.ExceptHandler) -> bool:
    """Path-sensitive walk from the handler (its sentinel result carried along) to the next loop iteration / the exit: no
    storage delete is passed."""
    from .common import explore
    g = ctx.cfg(f)
    hn = next((x for x in g.nodes if x.kind == "handler" and x.ast is h), None)
    if hn is None:
        return False
    loops = [fr.node for fr in hn.frames if fr.kind == "loop"]
    stop = [n.id for n in g.nodes if n.kind == "loop" and loops and n.ast is loops[-1]]
    dels = [n for n in g.calls() if ctx.eff.storage_op(n) == "delete_file"]
    res = explore(ctx, f, [hn.id], stop=stop, watch=[d.id for d in dels])
    return bool(res) and not any(store.get(("seen", d.id)) for _e, store, _a in res for d in dels)


def _returned_names(ctx: Ctx, f: FunctionInfo) -> Set[str]:
    return {norm_text(n.ast.value) for n in ctx.cfg(f).nodes if n.kind == "return" and n.ast is not None and n.ast.value is not None}  # type: ignore[union-attr]


def _calls_in_handler(ctx: Ctx, f: FunctionInfo, h: ast.ExceptHandler) -> List[Node]:
    return [n for n in ctx.cfg(f).calls() if in_handler(n, h)]


def _no_delete(ctx: Ctx, f: FunctionInfo, h: ast.ExceptHandler) -> bool:
    return not any(ctx.eff.storage_op(n) == "delete_file" for n in _calls_in_handler(ctx, f, h))


# (function name, guarded storage op) -> (reason, conservative-effect predicate)
def conservative_table() -> Dict[Tuple[str, str], Tuple[str, Callable[[Ctx, FunctionInfo, ast.ExceptHandler], bool]]]:
    return {
        ("_load_inflight_protection", "get_modified_time"): (
            "cannot stat the marker: protection is kept (every path from the handler to the end of the iteration passes "
            "protected.add and none deletes the marker)",
            lambda c, f, h: _keeps_protection(c, f, h, may_delete=False)),
        ("_load_inflight_protection", "delete_file"): (
            "stale marker could not be removed: its file stays protected (every path from the handler passes protected.add)",
            lambda c, f, h: _keeps_protection(c, f, h, may_delete=True)),
        ("_gc_prefix", "get_modified_time"): (
            "stat of one orphan failed: it is not deleted (no path from the handler to the next iteration passes a delete)",
            lambda c, f, h: _no_delete(c, f, h) and _no_delete_after(c, f, h)),
        ("_gc_prefix", "delete_file"): (
            "delete of one orphan failed: nothing else is decided by it",
            lambda c, f, h: _no_delete(c, f, h)),
        ("_gc_prefix", "delete_file+get_modified_time"): (
            "stat/delete of one orphan failed: nothing is deleted for it, nothing live is at risk",
            lambda c, f, h: _no_delete(c, f, h)),
        ("_marker_target", "read_file:FileNotFoundError"): (
            "marker vanished between listing and read: its transaction finished; the legacy data/<name> guess only ADDS protection",
            lambda c, f, h: _no_delete(c, f, h)),
        ("_marker_target", "parse"): (
            "payload-less legacy marker: the historical data/<name> convention applies",
            lambda c, f, h: _no_delete(c, f, h)),
    }


def r1(ctx: Ctx, rid: str = "C07.R1") -> None:
    ctx.rule(rid, "handler discipline in the collector: a handler guarding a storage read/list/stat raises "
             "GarbageCollectionAborted or is a frozen conservative shape whose effect is verified", 7)
    table = conservative_table()
    gc = ctx.prog.cls(GC)
    for m in sorted(gc.methods.values(), key=lambda x: x.lineno):
        if ctx.prog.is_transparent(m) and owner_tops(ctx, m):
            continue  # a helper introduced later: its handlers are judged in the methods it is analysed in place in
        g = ctx.cfg(m)
        for hn in handler_nodes(ctx, m):
            h = hn.ast
            assert isinstance(h, ast.ExceptHandler)
            t = hn.stmt
            ops = sorted({ctx.eff.storage_op(n) for n in try_body_calls(ctx, m, t) if ctx.eff.storage_op(n)})
            ex = handler_exits(ctx, m, hn)
            swallow = bool(ex["fallthrough"] or ex["return"] or ex["loop"])
            aborts = bool(ex["raise"]) and not swallow and all(r.raised == ABORT for r in ex["raise"])
            role = f"except({','.join(handler_classes(h))}) guarding storage ops {ops or guarded_names(ctx, m, t)}"
            if aborts:
                ctx.ob(rid, m, role, hn, True, "aborts the collection (GarbageCollectionAborted) - nothing is deleted", text="")
                continue
            if bool(ex["raise"]) and not swallow and all(r.raised == "reraise" for r in ex["raise"]):
                ctx.ob(rid, m, role, hn, True, "re-raises the failure unchanged on every path (bookkeeping only): it propagates out "
                       "of the collection exactly as without the handler", text="")
                continue
            if bool(ex["raise"]) and not swallow and not ops and pure_guard(ctx, m, hn):
                ctx.ob(rid, m, role, hn, True, "guards a pure computation (argument / configuration parsing) and raises on every path: the "
                       "collection fails before anything is decided", text="")
                continue
            cs = handler_classes(h)
            key: Optional[Tuple[str, str]] = None
            if ops:
                key = (m.name, "+".join(ops))
                if key not in table and len(ops) == 1 and set(cs) <= {"FileNotFoundError"}:
                    key = (m.name, f"{ops[0]}:FileNotFoundError")
                    if key not in table and ops[0] == "read_json":
                        key = (m.name, "read_file:FileNotFoundError")  # read_json = read_file + decode: the same 'vanished' case
                if key not in table and ops == ["read_json"] and set(c_.split(".")[-1] for c_ in cs) <= {"JSONDecodeError", "UnicodeDecodeError", "ValueError"}:
                    key = (m.name, "parse")  # only the decode half of read_json is handled here
            else:
                key = (m.name, "parse")
            ent = table.get(key) if key else None
            if ent is None:
                ctx.ob(rid, m, role, hn, False,
                       "a storage failure is neither turned into GarbageCollectionAborted nor handled by a verified "
                       f"conservative shape (handler completes normally: {swallow}); deciding on incomplete knowledge "
                       "can delete live or in-flight files", text="")
                continue
            reason, pred = ent
            ok = pred(ctx, m, h)
            ctx.ob(rid, m, role, hn, ok,
                   (f"conservative shape: {reason}" if ok else f"expected conservative effect missing: {reason}"), text="")
        # a storage read outside any try whose failure would be silently defaulted is impossible; but a read whose
        # exception escapes is an abort as well (propagates out of collect) - nothing to check.


def r2(ctx: Ctx) -> None:
    ctx.rule("C07.R2", "decide before deleting: every abort site, all reachability reads and the marker load dominate the "
             "first delete-capable call of collect; _gc_prefix is only called from collect", 4)
    col = ctx.fn(GC + ".collect")
    g = ctx.cfg(col)
    dom = ctx.dom(col, NORMAL)
    gcalls = ctx.calls(col, name="_gc_prefix")
    if not gcalls:
        raise AnalysisError("_gc_prefix calls vanished from collect")
    first = min(gcalls, key=lambda n: len(dom[n.id]))
    must = ctx.calls(col, name="read_manifest_list_file") + ctx.calls(col, name="read_manifest_file") + \
        [n for n in g.calls() if any(t.name == "_load_inflight_protection" for t in ctx.eff.callees(col, n))]
    for m in must:
        # loops: the read sits in a loop that must have completed: the loop head dominates first
        encl = [fr.node for fr in m.frames if fr.kind == "loop"]
        heads = [n for n in g.nodes if n.kind == "loop" and n.ast in encl]
        ok = all(h.id in dom[first.id] for h in heads) if heads else m.id in dom[first.id]
        # and no delete-capable call reachable before it
        early = find_path(g, g.entry, [first.id], avoid=[h.id for h in heads] or [m.id], labels=NORMAL)
        ctx.ob("C07.R2", col, "reachability input completes before the first sweep", m, ok and early is None,
               "no delete is reachable before this read (and its loop) has completed normally",
               witness=ctx.path_witness(col, early))
    direct = [n for n in g.calls() if ctx.eff.storage_op(n) == "delete_file"]
    ctx.ob("C07.R2", col, "collect itself deletes nothing", direct[0] if direct else None, not direct,
           "deletes happen only inside _gc_prefix / the marker sweep")
    gp = ctx.fn(GC + "._gc_prefix")
    callers = sorted({ctx.prog.anchor(o) for c, _n in ctx.eff.call_sites.get(gp.qname, []) for o in (owner_tops(ctx, c) or [c])})
    ctx.ob("C07.R2", gp, "_gc_prefix is only called from collect", None, callers == [col.qname],
           f"callers: {callers}", nontrivial=False)
    # marker sweep deletes only markers
    lp = ctx.fn(GC + "._load_inflight_protection")
    sl = ctx.slicer(lp)
    for d in ctx.calls(lp, storage="delete_file"):
        org = sl.origins(d.ast.args[0] if isinstance(d.ast, ast.Call) and d.ast.args else None, d.id)
        ok = any(isinstance(c, ast.Call) and ctx.prog.const_str(c.args[0], lp.module, lp) == "metadata/inflight"
                 for c in org["calls"] if isinstance(c, ast.Call) and c.args and (dotted(c.func) or "").endswith("list_files")) \
            and not any(isinstance(c, ast.Call) and (dotted(c.func) or "").endswith("_marker_target") for c in org["calls"])
        ctx.ob("C07.R2", lp, "the marker sweep deletes only listed marker files", d, ok,
               "the only delete before reachability is known targets metadata/inflight/* entries")


def r3(ctx: Ctx) -> None:
    ctx.rule("C07.R3", "an escaping listing aborts: in _gc_prefix the '..' test dominates the membership test and raises", 1)
    gp = ctx.fn(GC + "._gc_prefix")
    g = ctx.cfg(gp)
    dom = ctx.dom(gp, NORMAL)
    esc = [b for b in g.nodes if b.kind == "branch" and b.ast is not None and ("'..'" in norm_text(b.ast) or "'../'" in norm_text(b.ast))]
    from .c05 import membership_param
    mp = membership_param(ctx)
    mem = [b for b in g.nodes if b.kind == "branch" and isinstance(b.ast, ast.Compare)
           and isinstance(b.ast.ops[0], (ast.NotIn, ast.In)) and mp in names_in(b.ast.comparators[0])]
    ok = bool(esc) and bool(mem)

    def _screened(m: Node, e: Node) -> bool:
        """two-pass form: the membership test runs in a loop over a list that an EARLIER loop filled, and every append to that list
        is dominated by the guard (only entries that passed it are classified)"""
        loops_m = [fr.node for fr in m.frames if fr.kind == "loop"]
        if not loops_m or not isinstance(loops_m[-1], ast.For):
            return False
        it = loops_m[-1].iter
        accs: Set[str] = set()
        if isinstance(it, ast.Name):
            accs = {it.id}
        elif isinstance(it, ast.Call) and id(it) in g.inline_returns:
            accs = {x.id for x, _n in g.inline_returns[id(it)] if isinstance(x, ast.Name)}
        apps = [c for c in g.calls() if isinstance(c.ast, ast.Call) and isinstance(c.ast.func, ast.Attribute) and c.ast.func.attr == "append"
                and isinstance(c.ast.func.value, ast.Name) and c.ast.func.value.id in accs]
        return bool(accs) and bool(apps) and all(e.id in dom[a.id] for a in apps)

    for m in mem:
        ok = ok and all(e.id in dom[m.id] or _screened(m, e) for e in esc)
    raises = True
    for e in esc:
        t = edge_target(g, e, "true")
        if t is None:
            raises = False
            continue
        reach = reachable_from(g, t, NORMAL)
        if any(m.id in reach for m in mem):
            raises = False
        rs = [g.nodes[x] for x in reach if g.nodes[x].kind == "raise"]
        if not rs or any(r.raised != ABORT for r in rs):
            raises = False
    ctx.ob("C07.R3", gp, "escaping listed path aborts before classification", esc[0] if esc else None, ok and raises,
           "a listed path that leaves the table root can never match the reachable set; classifying it would delete live files")
    # ... and what the guard looks at is the NORMALISED path (the key the membership test uses): a raw '/../t/data/x' only shows
    # its leading '..' after the slashes are stripped
    from .c05 import _is_norm_call
    gsl = ctx.slicer(gp)
    for e in esc:
        tested = []
        for x in ast.walk(e.ast):  # type: ignore[arg-type]
            if isinstance(x, ast.Compare) and any(isinstance(c, ast.Constant) and c.value in ("..", "../") for c in [x.left] + list(x.comparators)):
                tested += [y for y in [x.left] + list(x.comparators) if not isinstance(y, ast.Constant)]
            if isinstance(x, ast.Call) and isinstance(x.func, ast.Attribute) and x.func.attr == "startswith" and x.args \
                    and any(isinstance(c, ast.Constant) and c.value in ("..", "../") for c in ast.walk(x.args[0])):
                tested.append(x.func.value)
        okn = bool(tested) and all(any(_is_norm_call(ctx, c) for c in gsl.origins(t_, e.id)["calls"]) for t_ in tested)
        ctx.ob("C07.R3", gp, "the '..' guard tests the normalised path", e, okn,
               f"`{e.text[:60]}`: " + ("the tested value is a result of _normalize_path" if okn else
                                       "the tested value is the raw listed spelling - an entry like '/../t/data/x.parquet' passes the guard, "
                                       "never matches the reachable set and is deleted"), text=e.text[:40])
    lst = ctx.calls(gp, storage="list_files")
    for l in lst:
        escs, caught = ctx.eff.propagate(gp, {"Exception"}, l.frames, record=False)
        hs = [h for h, _c in caught]
        ok2 = bool(hs) and all(
            all(r.raised == ABORT for r in handler_exits(ctx, gp, next(x for x in g.nodes if x.kind == "handler" and x.ast is h))["raise"])
            and not handler_exits(ctx, gp, next(x for x in g.nodes if x.kind == "handler" and x.ast is h))["fallthrough"] for h in hs) or bool(escs)
        ctx.ob("C07.R3", gp, "a failing listing aborts", l, ok2, "list_files failure -> GarbageCollectionAborted (or propagates)")
