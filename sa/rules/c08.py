"""C08 - a stale lock holder or delayed pointer write cannot lose an update on S3."""
from __future__ import annotations

import ast
from typing import Dict, List, Optional, Set, Tuple

from ..cfg import NORMAL, Node, handler_classes
from ..core import Ctx
from ..flow import ALL, find_path, names_in
from ..model import AnalysisError, FunctionInfo, dotted, norm_text
from .common import (code_branches, effective_returns, facts_at, known_flag, edge_target, fold_str, handler_exits, handler_nodes, hint_value, hint_write_nodes, hint_writers,
                     in_handler, kwarg, path_arg, reachable_from)

EXPLANATION = (
    "Static analysis of the conditional pointer write: (R1) ETag provenance by def-use: the ETag handed to the conditional "
    "PUT comes from read r of the pointer; either the validated metadata is data-dependent on r's bytes, or an equality test "
    "between the name parsed from r and the name the validated metadata was loaded from dominates the commit point (mismatch "
    "raises the retryable conflict) - otherwise the CAS is keyed to a version that was never validated; (R2) the fence "
    "is_held() follows the metadata-file write, its false edge raises the conflict, and no storage call lies between fence "
    "and commit point; (R3) on supports_cas branches the pointer is only written conditionally, write_file_cas sets exactly one "
    "of IfNoneMatch/IfMatch on every path, maps precondition failures to CASConflictError and is not retried; (R4) conflict -> "
    "retryable (C04.R1); (R5) lock mutations are CAS (C19.R3)."
    ' Also: after a successful pointer read its ETag reaches the conditional write on every path; ETag reads are followed through helper functions; (R6) the fence returns decided constants only.'
    " R1 also requires the ETag read to sit on the supports_cas branch; R3 requires every pointer write's capability flag to be decided (conditional write iff supports_cas)."
    " (R7) every other function that reads the pointer's ETag and flips the pointer ties the validated version to that read; (R8) the lock owner token is a per-instance uuid4 (shared with C19.R8)."
    ' (R9) supports_cas returns exactly the flag create_lock branches on, and read_file_with_etag takes content and ETag from ONE get_object response. Conditional expressions (`x = read() if supports_cas else NONE`) are branches; records (NamedTuple) carrying the ETag / the owner test are looked through.'
    ' (R10) validation compares the base with a fresh read under the lock on every path (C01.R2): a definition of the validated object that is not a read is a violation.'
    ' (R11) metadata files get fresh uuid names (C09.R1): two racers never write the same key. R3: conflict codes are exactly {PreconditionFailed, 412, ConditionalRequestConflict}.'
    ' R3 reads error-code tables of (meaning, code) pairs and == chains.'
    ' R2 accepts the fence at the head of the commit-point function (its conflict must leave that function unhandled); R3 decides `p is not None` for an optional parameter of a helper analysed in place from what this call site gave.')
NOT_DECIDED = "the schedules themselves; S3's conditional-write semantics"


CAS_CONFLICT_CODES = {"PreconditionFailed", "412", "ConditionalRequestConflict"}
RESPONSE_KEYS_C08 = {"Error", "Code", "ResponseMetadata", "HTTPStatusCode", ""}


def check(ctx: Ctx) -> None:
    r1(ctx)
    r2(ctx)
    r3(ctx)
    r7_other_committers(ctx)
    # the fence (is_held) and the takeover protocol identify the holder by its owner token
    from .c19 import owner_token_unique
    owner_token_unique(ctx, "C08.R8")
    r9_cas_capability_consistent(ctx)
    from .c04 import r1 as c04_r1
    c04_r1(ctx)
    # re-label C04.R1 obligations produced just now under C08.R4
    for o in ctx.obs:
        if o.rule == "C04.R1":
            o.rule = "C08.R4"
    ctx.rule_text["C08.R4"] = ctx.rule_text.pop("C04.R1")
    ctx.floors["C08.R4"] = ctx.floors.pop("C04.R1")
    from .c19 import r3 as c19_r3, r4 as c19_r4
    c19_r3(ctx, "C08.R5")
    n0 = len(ctx.obs)
    c19_r4(ctx)
    for o in ctx.obs[n0:]:
        o.rule = "C08.R6"
    ctx.rule_text["C08.R6"] = ctx.rule_text.pop("C19.R4")
    ctx.floors["C08.R6"] = ctx.floors.pop("C19.R4")
    # the conditional write protects exactly the version that was VALIDATED: if validation compares the base with anything
    # but a fresh read under the lock (the base itself, a remembered object), a stale base is CAS-ed over a foreign commit
    from .c01 import r2 as c01_r2
    ctx.shared(c01_r2, "C01.R2", "C08.R10", "the version the CAS is keyed to was validated against a fresh read under the lock")
    # "even if the lock gives no exclusion at all": two racers write DIFFERENT metadata files (uuid4 names), so the CAS loser's
    # PUT and its cleanup never touch the file the winner's pointer names - a guessable / time-based name breaks exactly that
    from .c09 import r1_fresh_names
    r1_fresh_names(ctx, "C08.R11")


def pin_needs_hint(ctx: Ctx, rid: str) -> None:
    """Shared with C03 / C10: with NO pointer object (a creator died before the first pointer write) or an unparseable one,
    the 'pointer moved' conflict must not fire - the commit has to go ahead as create-if-absent / recovery."""
    ctx.rule(rid, "the 'pointer moved between validation and the ETag read' conflict is raised only when the ETag read "
             "produced a parsed pointer (its operand is known to be non-None at the comparison)", 1)
    if not getattr(ctx, "_c08_pins", None):
        n0, rt, fl = len(ctx.obs), dict(ctx.rule_text), dict(ctx.floors)
        r1(ctx)
        del ctx.obs[n0:]
        ctx.rule_text, ctx.floors = rt, fl
    f = ctx.fn("metadata_manager.MetadataManager.commit")
    sl = ctx.slicer(f)
    pins = getattr(ctx, "_c08_pins", [])
    if not pins:
        ctx.ob(rid, f, "no name-pinning comparison (the validated metadata itself derives from the ETag read)", None, True, "",
               nontrivial=False)
    for b, side in pins:
        names = set(names_in(side)) | {n for n in sl.origins(side, b.id)["names"] if "." not in n}
        nonnull = {e.id for pol, e, _at in facts_at(ctx, f, b) if pol in ("nonnull", "true") and isinstance(e, ast.Name)}
        ctx.ob(rid, f, "pinning comparison runs only on a parsed pointer", b, bool(names & nonnull),
               f"pointer-side operand `{norm_text(side)}` derives from {sorted(names)[:6]}; known non-None here: {sorted(nonnull)[:6]}. "
               "Comparing a missing / unparseable pointer (None) with the validated name always differs: every commit on a CAS "
               "backend then raises ConcurrentModificationException until someone writes the pointer by hand")


def r1(ctx: Ctx) -> None:
    ctx.rule("C08.R1", "ETag provenance: the conditional pointer write is keyed to the pointer state that was validated", 1)
    ctx._c08_pins = []  # type: ignore[attr-defined]
    f = ctx.fn("metadata_manager.MetadataManager.commit")
    g = ctx.cfg(f)
    sl = ctx.slicer(f)
    hv = hint_value(ctx)
    from .c01 import commit_point_call, validation
    cp = commit_point_call(ctx, f)
    read, cur, base, fields = validation(ctx, f)
    def _reads_hint_etag(fn: FunctionInfo) -> bool:
        for ff, m, _c in [(fn, x, None) for x in ctx.cfg(fn).calls()] + ctx.eff.transitive_calls(fn):
            if ctx.eff.storage_op(m) == "read_file_with_etag" and fold_str(ctx, ff, path_arg(m), m.id) == hv:
                return True
        return False

    etag_reads = [n for n in ctx.calls(f, storage="read_file_with_etag") if fold_str(ctx, f, path_arg(n), n.id) == hv]
    # ... or a helper of the package that performs that read (the ETag then flows through its return value)
    etag_reads += [n for n in g.calls() if n not in etag_reads and n.id != cp.id
                   and any(t.module.short == "metadata_manager" and t.qname != f.qname and _reads_hint_etag(t)
                           and not ctx.eff.reaches_function(t, {w.qname for w in hint_writers(ctx)})
                           for t in ctx.eff.callees(f, n))]
    call = cp.ast
    assert isinstance(call, ast.Call)
    etag_arg = call.args[-1] if call.args else None
    eo = sl.origins(etag_arg, cp.id)
    feeding = [n for n in etag_reads if n.ast in eo["calls"]]
    if not etag_reads:
        raise AnalysisError("no read of the pointer's ETag reaches MetadataManager.commit's conditional write")
    r = feeding[0] if feeding else etag_reads[0]
    flows = bool(feeding)
    # Option A: validated metadata depends on r
    b0 = next(iter(fields.values()))
    cur_org = sl.origins(ast.Name(id=cur, ctx=ast.Load()), b0.id)
    opt_a = r.ast in cur_org["calls"]
    # Option B: a name comparison dominating the commit point
    opt_b = False
    wit = None
    cands = []
    for b in g.nodes:
        if b.kind != "branch" or not isinstance(b.ast, ast.Compare) or len(b.ast.ops) != 1:
            continue
        if not isinstance(b.ast.ops[0], (ast.NotEq, ast.Eq)):
            continue
        lo = sl.origins(b.ast.left, b.id)
        ro = sl.origins(b.ast.comparators[0], b.id)
        from_r = (r.ast in lo["calls"]) != (r.ast in ro["calls"])
        if not from_r:
            continue
        other = ro if r.ast in lo["calls"] else lo
        shared = {id(c) for c in other["calls"]} & {id(c) for c in cur_org["calls"]}
        if not shared:
            continue
        mism = "true" if isinstance(b.ast.ops[0], ast.NotEq) else "false"
        t = edge_target(g, b, mism)
        if t is None:
            continue
        reach = reachable_from(g, t, NORMAL)
        rs = [g.nodes[x] for x in reach if g.nodes[x].kind == "raise"]
        if not rs or cp.id in reach or any(x.raised != "ConcurrentModificationException" for x in rs):
            continue
        cands.append(b)
        ctx._c08_pins.append((b, b.ast.left if r.ast in lo["calls"] else b.ast.comparators[0]))  # type: ignore[attr-defined]
    # the same comparison carried by a flag: `unmoved = validated is None or name == validated_file; if not unmoved: raise`
    for b in g.nodes:
        if b.kind != "branch" or b.ast is None:
            continue
        neg = isinstance(b.ast, ast.UnaryOp) and isinstance(b.ast.op, ast.Not)
        fl = b.ast.operand if neg else b.ast
        if not isinstance(fl, ast.Name):
            continue
        defs_ = ctx.rd(f).reaching(b.id, fl.id)
        if len(defs_) != 1:
            continue
        dn = g.nodes[next(iter(defs_))]
        v = dn.ast.value if isinstance(dn.ast, ast.Assign) else None
        parts = v.values if isinstance(v, ast.BoolOp) and isinstance(v.op, ast.Or) else ([v] if isinstance(v, ast.Compare) else [])
        eqs = [p_ for p_ in parts if isinstance(p_, ast.Compare) and len(p_.ops) == 1 and isinstance(p_.ops[0], ast.Eq)]
        guards = [p_ for p_ in parts if p_ not in eqs]
        if len(eqs) != 1 or not all(isinstance(p_, ast.Compare) and len(p_.ops) == 1 and isinstance(p_.ops[0], ast.Is)
                                    and isinstance(p_.comparators[0], ast.Constant) and p_.comparators[0].value is None for p_ in guards):
            continue
        eq = eqs[0]
        lo = sl.origins(eq.left, dn.id)
        ro = sl.origins(eq.comparators[0], dn.id)
        if (r.ast in lo["calls"]) == (r.ast in ro["calls"]):
            continue
        other = ro if r.ast in lo["calls"] else lo
        if not ({id(c) for c in other["calls"]} & {id(c) for c in cur_org["calls"]}):
            continue
        t = edge_target(g, b, "true" if neg else "false")  # the flag is False: the pointer moved
        if t is None:
            continue
        reach = reachable_from(g, t, NORMAL)
        rs = [g.nodes[x] for x in reach if g.nodes[x].kind == "raise"]
        if not rs or cp.id in reach or any(x.raised != "ConcurrentModificationException" for x in rs):
            continue
        cands.append(b)
        ctx._c08_pins.append((b, eq.left if r.ast in lo["calls"] else eq.comparators[0]))  # type: ignore[attr-defined]
    if cands:
        # every path r -> cp passes a candidate, except through an edge where the parsed hint is None / a guard on
        # the validated-name being None
        guard_edges = set()
        for b in g.nodes:
            if b.kind == "branch" and b.ast is not None and ("is not None" in b.text or "is None" in b.text):
                for d, l in g.succ[b.id]:
                    if l == ("false" if "is not None" in b.text else "true"):
                        guard_edges.add((b.id, d))
        wit = find_path(g, r.id, [cp.id], avoid=[c.id for c in cands], labels=NORMAL,
                        edge_ok=lambda s_, d_, l_: (s_, d_) not in guard_edges)
        opt_b = wit is None
    # the ETag of a successful pointer read always reaches the conditional write (an unparseable pointer is still a pointer:
    # dropping its ETag turns the write into create-if-absent, which fails forever)
    if isinstance(etag_arg, ast.Name) and r.kind == "call" and ctx.eff.storage_op(r) == "read_file_with_etag":
        defs_from_r = [n for n in g.nodes if n.kind == "stmt" and isinstance(n.ast, ast.Assign) and etag_arg.id in
                       [x for t in n.ast.targets for x in ([e.id for e in t.elts if isinstance(e, ast.Name)] if isinstance(t, ast.Tuple) else ([t.id] if isinstance(t, ast.Name) else []))]
                       and r.ast in sl.origins(n.ast.value, n.id)["calls"]]
        starts = [d for d, l in g.succ[r.id] if l in NORMAL]
        w2 = None
        for s_ in starts:
            w2 = None if s_ in [d.id for d in defs_from_r] else find_path(g, s_, [cp.id], avoid=[d.id for d in defs_from_r], labels=NORMAL)
            if w2:
                break
        ctx.ob("C08.R1", f, "after a successful pointer read its ETag reaches the conditional write on every path", r,
               bool(defs_from_r) and w2 is None,
               "the ETag variable handed to the commit point is (re)defined from the read's result on every path from the read",
               witness=ctx.path_witness(f, w2))
    if r.kind == "call" and ctx.eff.storage_op(r) == "read_file_with_etag":
        ctx.ob("C08.R1", f, "the ETag read runs on the supports_cas branch", r, known_flag(ctx, f, r, "supports_cas") is True,
               "on a CAS backend the pointer's ETag is always read before the commit point (an inverted / dropped capability "
               "test would send a create-if-absent PUT against an existing pointer: every commit conflicts forever)")
    ok = flows and (opt_a or opt_b)
    ctx.ob("C08.R1", f, "validated version == version whose ETag keys the conditional write", cp, ok,
           f"etag flows from the pointer read: {flows}; validated metadata depends on that read: {opt_a}; name comparison "
           f"dominating the commit point: {opt_b}. " + ("" if ok else
           "The validation read and the ETag read are independent pointer reads: a commit landing between them is "
           "validated-against-old but CAS-ed-against-new, so the conditional PUT succeeds and overwrites it."),
           witness=ctx.path_witness(f, wit))


def r7_other_committers(ctx: Ctx, rid: str = "C08.R7") -> None:
    ctx.rule(rid, "every OTHER function that reads the pointer's ETag and then flips the pointer (a second commit path: a "
             "metadata-only / maintenance commit) ties the two: the version it built on is derived from that ETag read, or a "
             "comparison of the read's content with the resolved version dominates the flip and raises on mismatch", 0)
    hv = hint_value(ctx)
    wq = {w.qname for w in hint_writers(ctx)}
    main = ctx.fn("metadata_manager.MetadataManager.commit")
    n_f = 0
    for f in sorted(ctx.prog.functions.values(), key=lambda x: x.qname):
        if isinstance(f.node, ast.Lambda) or f.qname == main.qname or f.qname in wq:
            continue
        g = ctx.cfg(f)
        reads = [n for n in g.calls() if n.id in g.reachable() and ctx.eff.storage_op(n) == "read_file_with_etag"
                 and fold_str(ctx, f, path_arg(n), n.id) == hv]
        cps = [n for n in g.calls() if n.id in g.reachable() and (any(t.qname in wq for t in ctx.eff.callees(f, n)))]
        if not reads or not cps:
            continue
        n_f += 1
        sl = ctx.slicer(f)
        resolved = [n for n in g.calls() if any(t.name in ("_current_version_info", "_read_version_hint", "refresh", "_read_metadata_file")
                                                 for t in ctx.eff.callees(f, n))]
        for cp in cps:
            r = reads[0]
            eo = sl.origins(cp.ast.args[-1] if isinstance(cp.ast, ast.Call) and cp.ast.args else None, cp.id)
            flows = r.ast in eo["calls"]
            opt_a = any(r.ast in sl.origins(a, v.id)["calls"] for v in resolved if isinstance(v.ast, ast.Call) for a in v.ast.args)
            cands = []
            for b in g.nodes:
                if b.kind != "branch" or not isinstance(b.ast, ast.Compare) or len(b.ast.ops) != 1 \
                        or not isinstance(b.ast.ops[0], (ast.NotEq, ast.Eq)):
                    continue
                lo, ro = sl.origins(b.ast.left, b.id), sl.origins(b.ast.comparators[0], b.id)
                if (r.ast in lo["calls"]) == (r.ast in ro["calls"]):
                    continue
                other = ro if r.ast in lo["calls"] else lo
                if not any(v.ast in other["calls"] for v in resolved):
                    continue
                t = edge_target(g, b, "true" if isinstance(b.ast.ops[0], ast.NotEq) else "false")
                if t is None:
                    continue
                reach = reachable_from(g, t, NORMAL)
                if cp.id in reach or not any(g.nodes[x].kind == "raise" for x in reach):
                    continue
                cands.append(b)
            opt_b = False
            wit = None
            if cands:
                guard_edges = {(b.id, d) for b in g.nodes if b.kind == "branch" and b.ast is not None and ("is not None" in b.text or "is None" in b.text)
                               for d, l in g.succ[b.id] if l == ("false" if "is not None" in b.text else "true")}
                wit = find_path(g, r.id, [cp.id], avoid=[c.id for c in cands], labels=NORMAL, edge_ok=lambda s_, d_, l_: (s_, d_) not in guard_edges)
                opt_b = wit is None
            ok = flows and (opt_a or opt_b)
            ctx.ob(rid, f, "second commit path: validated version == version whose ETag keys the conditional write", cp, ok,
                   f"etag flows from the pointer read: {flows}; version resolved from that read: {opt_a}; name comparison dominating "
                   f"the flip: {opt_b}. " + ("" if ok else "The version this function builds on and the ETag it conditions the write on "
                   "come from independent pointer reads: a commit landing between them (the lock gives no exclusion after a lapsed "
                   "lease) is overwritten although the conditional PUT succeeds."), witness=ctx.path_witness(f, wit))
    ctx.ob(rid, None, "second commit paths enumerated", None, True, f"{n_f} function(s) besides MetadataManager.commit read the "
           "pointer's ETag and flip the pointer", nontrivial=False)


def etag_same_response(ctx: Ctx, rf: FunctionInfo) -> Tuple[bool, List[str]]:
    """(content and ETag are two fields of ONE get_object response, the S3 requests the operation issues).  Looks through the
    helpers the operation hands its work to (private per-key methods, `partial(self._get, key, lambda r: (...))`)."""
    from .c20 import op_scopes
    scopes = op_scopes(ctx, rf)
    reqs: List[str] = []
    for f in scopes:
        for n in ctx.cfg(f).calls():
            if n.id in ctx.cfg(f).reachable() and n.callee is not None and n.callee.kind == "prim" and n.callee.name.startswith("boto."):
                reqs.append(n.callee.name)
    pair_ok = False
    for f in scopes:
        sl = ctx.slicer(f)
        g = ctx.cfg(f)
        for x in ast.walk(f.node):
            elts = x.elts if isinstance(x, ast.Tuple) and len(x.elts) == 2 else (x.args if isinstance(x, ast.Call) and len(x.args) == 2 and not x.keywords else None)
            if elts is None:
                continue
            c0 = {c.value for c in ast.walk(elts[0]) if isinstance(c, ast.Constant)}
            c1 = {c.value for c in ast.walk(elts[1]) if isinstance(c, ast.Constant)}
            # the statement that evaluates x (not an enclosing try / loop / with node, whose ast contains it too)
            hosts = [n for n in g.nodes if n.ast is not None and n.kind in ("stmt", "return", "call", "branch") and any(y is x for y in ast.walk(n.ast))]
            host = min(hosts, key=lambda n: sum(1 for _ in ast.walk(n.ast)), default=None) if hosts else None  # type: ignore[arg-type]
            if host is not None:
                o0, o1 = sl.origins(elts[0], host.id), sl.origins(elts[1], host.id)
                c0 |= {c for c in o0["consts"] if isinstance(c, str)}
                c1 |= {c for c in o1["consts"] if isinstance(c, str)}
                same_call = bool({id(c) for c in o0["calls"] if isinstance(c.func, ast.Attribute) and c.func.attr == "get_object"}
                                 & {id(c) for c in o1["calls"] if isinstance(c.func, ast.Attribute) and c.func.attr == "get_object"})
            else:
                same_call = False
            same_var = bool(names_in(elts[0]) & names_in(elts[1]))
            if "Body" in c0 and "ETag" in c1 and (same_call or same_var):
                pair_ok = True
    return pair_ok and reqs.count("boto.get_object") >= 1 and not [r for r in reqs if r != "boto.get_object"], reqs


def r9_cas_capability_consistent(ctx: Ctx, rid: str = "C08.R9") -> None:
    ctx.rule(rid, "one switch decides conditional writes: S3StorageBackend.supports_cas returns the very flag create_lock tests to "
             "hand out the conditional-write lock (use_conditional_writes) and nothing else - a backend that takes the CAS lock "
             "but flips the pointer unconditionally loses every update a stale holder overwrites; torn ETag reads are excluded: "
             "read_file_with_etag takes content and ETag from ONE response", 2)
    s3 = ctx.prog.cls("storage_backend.S3StorageBackend")
    sc = s3.methods.get("supports_cas")
    cl = s3.methods.get("create_lock")
    if sc is None or cl is None:
        raise AnalysisError("supports_cas / create_lock vanished from S3StorageBackend")
    flags = set()
    g = ctx.cfg(cl)
    for b in [x for x in g.nodes if x.kind == "branch" and x.ast is not None]:
        flags |= {nm for nm in names_in(b.ast) if nm.startswith("self.")}
    rets = [v for _r, v in effective_returns(ctx, sc)]
    ok = bool(rets) and bool(flags) and all(isinstance(v, ast.Attribute) and dotted(v) in flags for v in rets)
    ctx.ob(rid, sc, "supports_cas is exactly the lock-selection flag", None, ok,
           f"returns {[norm_text(v) for v in rets if v is not None]}; create_lock branches on {sorted(flags)}")
    rf = s3.methods.get("read_file_with_etag")
    if rf is None:
        raise AnalysisError("S3StorageBackend.read_file_with_etag vanished")
    same, reqs = etag_same_response(ctx, rf)
    ctx.ob(rid, rf, "content and ETag come from one request", None, same,
           f"S3 requests in read_file_with_etag: {reqs} - a second request (HEAD for the ETag) can describe a newer pointer than the "
           "content that was validated; both values must be fields of the same get_object response")


def r2(ctx: Ctx) -> None:
    ctx.rule("C08.R2", "fence: is_held() is tested after the metadata-file write, its false edge raises the retryable conflict, "
             "and nothing touches storage between the fence and the commit point", 3)
    f = ctx.fn("metadata_manager.MetadataManager.commit")
    g = ctx.cfg(f)
    dom = ctx.dom(f, ALL)
    from .c01 import commit_point_call
    cp = commit_point_call(ctx, f)
    held = ctx.calls(f, lock="is_held")
    mw = ctx.calls(f, name="_write_metadata_file")
    wf, wg, wtargets = f, g, [cp]
    if not held:
        # the fence may live next to the write it guards: at the head of the commit-point function itself
        for t in ctx.eff.callees(f, cp):
            h2 = ctx.calls(t, lock="is_held")
            hw = hint_write_nodes(ctx, t)
            if h2 and hw:
                wf, wg, wtargets, held = t, ctx.cfg(t), hw, h2
                dom = ctx.dom(t, ALL)
                break
    in_commit = wf is f
    ctx.ob("C08.R2", f, "fence exists and follows the metadata write", held[0] if held and in_commit else None,
           bool(held) and bool(mw) and (any(m.id in ctx.dom(f, ALL)[held[0].id] for m in mw) if in_commit else
                                        any(m.id in ctx.dom(f, ALL)[cp.id] for m in mw)) and all(held[0].id in dom[x.id] for x in wtargets),
           "lock ownership is re-validated after the (slow) metadata write and before the pointer flip")
    for h in held:
        brs = [b for b in wg.nodes if b.kind == "branch" and b.stmt is h.stmt]
        ok = False
        for b in brs:
            fl = edge_target(wg, b, "false")
            if fl is not None:
                reach = reachable_from(wg, fl, NORMAL)
                rs = [wg.nodes[x] for x in reach if wg.nodes[x].kind == "raise"]
                ok = bool(rs) and not any(x.id in reach for x in wtargets) and all(r.raised == "ConcurrentModificationException" for r in rs)
        # ... and the conflict leaves the function as it is (not re-labelled 'ambiguous' by a handler around the write)
        if ok and not in_commit:
            esc = ctx.eff.escapes.get(wf.qname, frozenset())
            ok = "ConcurrentModificationException" in esc or "Exception" in esc
            for b in brs:
                fl = edge_target(wg, b, "false")
                for x in reachable_from(wg, fl, NORMAL) if fl is not None else []:
                    nx = wg.nodes[x]
                    if nx.kind == "raise" and any(fr.kind == "try" and fr.part == "body" and getattr(fr.node, "handlers", None) for fr in nx.frames):
                        ok = False  # raised inside a try whose handlers re-classify it
        ctx.ob("C08.R2", wf, "lost lock -> ConcurrentModificationException", h, ok,
               "a holder whose lease was broken reports a retryable conflict, never success")
        between = [n for n in wg.calls() if n.id in reachable_from(wg, h.id, NORMAL) and any(x.id in reachable_from(wg, n.id, NORMAL) for x in wtargets)
                   and n.id not in [h.id] + [x.id for x in wtargets] and (ctx.eff.storage_op(n) or ctx.eff.callees(wf, n))
                   and not (n.callee and n.callee.kind == "ctor")]
        ctx.ob("C08.R2", wf, "no storage call between fence and commit point", h, not between,
               "the fence is immediately before the commit point",
               witness=[f"{wf.file}:{n.lineno} {n.text}" for n in between] or None)


PRECOND = ("IfMatch", "IfNoneMatch")


def _dict_keys(e: ast.AST) -> Set[frozenset]:
    """Possible precondition-key sets of a dict-valued expression ('?' = not understood)."""
    if isinstance(e, ast.Dict):
        ks = set()
        for k in e.keys:
            if k is None:
                return {frozenset({"?"})}
            if isinstance(k, ast.Constant) and k.value in PRECOND:
                ks.add(k.value)
        return {frozenset(ks)}
    if isinstance(e, ast.IfExp):
        return _dict_keys(e.body) | _dict_keys(e.orelse)
    if isinstance(e, ast.Call) and isinstance(e.func, ast.Name) and e.func.id == "dict" and not e.args:
        if any(k.arg is None for k in e.keywords):
            return {frozenset({"?"})}
        return {frozenset(k.arg for k in e.keywords if k.arg in PRECOND)}
    return {frozenset({"?"})}


def _decided_none_test(ctx: Ctx, f: FunctionInfo, b: Node) -> Optional[bool]:
    """The outcome of `<p> is [not] None` when p is the parameter of a helper analysed in place and THIS call site decides it:
    every definition reaching the test is the binding of a constant (None: omitted / default; "*": given), or of a caller's
    variable that is known not to be None on arrival (the call sits in the `else` of `if etag is None`)."""
    a = b.ast
    if not (isinstance(a, ast.Compare) and len(a.ops) == 1 and isinstance(a.ops[0], (ast.Is, ast.IsNot)) and isinstance(a.left, ast.Name)
            and isinstance(a.comparators[0], ast.Constant) and a.comparators[0].value is None):
        return None
    g = ctx.cfg(f)
    # the caller's own variable, substituted for the parameter: what is known about it on arrival (`else` of `if etag is None`)
    for pol, e, _a in facts_at(ctx, f, b):
        if isinstance(e, ast.Compare) and len(e.ops) == 1 and isinstance(e.left, ast.Name) and e.left.id == a.left.id \
                and isinstance(e.comparators[0], ast.Constant) and e.comparators[0].value is None and isinstance(e.ops[0], (ast.Is, ast.IsNot)) \
                and e is not a and pol in ("true", "false"):
            known_none = (pol == "true") == isinstance(e.ops[0], ast.Is)
            return known_none if isinstance(a.ops[0], ast.Is) else not known_none
    ds = ctx.rd(f).reaching(b.id, a.left.id)
    if not ds or g.entry in ds:
        return None
    is_none: Optional[bool] = None
    for d in ds:
        dn = g.nodes[d]
        v = dn.ast.value if isinstance(dn.ast, ast.Assign) and "inline-bind" in dn.flags else None
        if v is None:
            return None
        if isinstance(v, ast.Constant):
            this = v.value is None
        elif isinstance(v, (ast.JoinedStr, ast.Dict, ast.List, ast.Tuple)):
            this = False
        elif isinstance(v, ast.Name):
            nn = any(pol in ("nonnull",) and isinstance(e, ast.Name) and e.id == v.id for pol, e, _a in facts_at(ctx, f, dn)) or any(
                pol == "false" and isinstance(e, ast.Compare) and len(e.ops) == 1 and isinstance(e.ops[0], ast.Is) and isinstance(e.left, ast.Name)
                and e.left.id == v.id and isinstance(e.comparators[0], ast.Constant) and e.comparators[0].value is None
                for pol, e, _a in facts_at(ctx, f, dn)) or any(
                pol == "true" and isinstance(e, ast.Compare) and len(e.ops) == 1 and isinstance(e.ops[0], ast.IsNot) and isinstance(e.left, ast.Name)
                and e.left.id == v.id and isinstance(e.comparators[0], ast.Constant) and e.comparators[0].value is None
                for pol, e, _a in facts_at(ctx, f, dn))
            if not nn:
                return None
            this = False
        else:
            return None
        if is_none is None:
            is_none = this
        elif is_none != this:
            return None
    if is_none is None:
        return None
    return is_none if isinstance(a.ops[0], ast.Is) else not is_none


def _kwargs_states(ctx: Ctx, f: FunctionInfo, var: str, at: int) -> Set[frozenset]:
    """Forward may-analysis: the possible sets of precondition keys held by dict variable `var` on arrival at node `at`."""
    g = ctx.cfg(f)
    state: Dict[int, Set[frozenset]] = {g.entry: {frozenset({"?"})}}
    work = [g.entry]
    while work:
        n = work.pop()
        cur = state.get(n, set())
        node = g.nodes[n]
        out = cur
        a = node.ast
        if node.kind == "stmt" and isinstance(a, (ast.Assign, ast.AnnAssign)) and getattr(a, "value", None) is not None:
            tgts = a.targets if isinstance(a, ast.Assign) else [a.target]
            for t in tgts:
                if isinstance(t, ast.Name) and t.id == var:
                    out = _dict_keys(a.value)
                elif isinstance(t, ast.Subscript) and isinstance(t.value, ast.Name) and t.value.id == var:
                    if isinstance(t.slice, ast.Constant):
                        out = {st | ({t.slice.value} if t.slice.value in PRECOND else set()) for st in cur}
                    else:
                        out = {st | {"?"} for st in cur}
        elif node.kind == "call" and isinstance(a, ast.Call) and isinstance(a.func, ast.Attribute) \
                and isinstance(a.func.value, ast.Name) and a.func.value.id == var and a.func.attr in ("update", "setdefault", "pop", "clear", "popitem"):
            out = {st | {"?"} for st in cur}
        if n == at:
            continue
        decided = _decided_none_test(ctx, f, node) if node.kind == "branch" else None
        for d, lab in g.succ[n]:
            if lab not in NORMAL:
                continue
            if decided is not None and lab in ("true", "false") and lab != ("true" if decided else "false"):
                continue  # `p is not None` on an optional parameter of a helper analysed in place: this call site gave / omitted it
            old = state.get(d, set())
            new = old | out
            if new != old or d not in state:
                state[d] = new
                work.append(d)
    return state.get(at, set())


def r3(ctx: Ctx) -> None:
    ctx.rule("C08.R3", "conditional everywhere: on supports_cas branches the pointer is written only by write_file_cas; "
             "write_file_cas sets exactly one precondition on every path, maps precondition failures to CASConflictError, "
             "and is not wrapped in the retry helper", 5)
    for w in hint_writers(ctx):
        g = ctx.cfg(w)
        writes = hint_write_nodes(ctx, w)
        for b in [b for b in g.nodes if b.kind == "branch" and b.ast is not None and "supports_cas" in norm_text(b.ast)]:
            t = edge_target(g, b, "true")
            fl = edge_target(g, b, "false")
            if t is None:
                continue
            reach_t = reachable_from(g, t, NORMAL)
            reach_f = reachable_from(g, fl, NORMAL) if fl is not None else set()
            if not any(n.id in reach_t or n.id in reach_f for n in writes):
                continue  # a test of the capability AFTER the write (classifying its failure): it selects no write
            plain_on_true = [n for n in writes if ctx.eff.storage_op(n) != "write_file_cas" and n.id in reach_t
                             and (fl is None or True)]
            # a plain write reachable from the true edge is only acceptable if it is ALSO unreachable... no: never acceptable
            # unless the cas write returns first (all paths from t to it pass a return) - reachable_from follows NORMAL edges,
            # return nodes lead to exit only.
            cas_on_true = [n for n in writes if ctx.eff.storage_op(n) == "write_file_cas" and n.id in reach_t]
            ctx.ob("C08.R3", w, "supports_cas -> conditional pointer write only", b, bool(cas_on_true) and not plain_on_true,
                   "on a CAS backend even a fully broken lock cannot produce a silent lost update")
    n_cas = 0
    for w in hint_writers(ctx):
        for n in hint_write_nodes(ctx, w):
            is_cas = ctx.eff.storage_op(n) == "write_file_cas"
            n_cas += is_cas
            kf = known_flag(ctx, w, n, "supports_cas")
            ctx.ob("C08.R3", w, "conditional write iff supports_cas" if is_cas else "plain pointer write only without CAS support", n,
                   kf is (True if is_cas else False),
                   f"supports_cas known {kf} at this pointer write: the capability test selects the conditional write on CAS backends "
                   "and the plain write elsewhere (never constant, never inverted)")
    ctx.ob("C08.R3", hint_writers(ctx)[0], "a conditional pointer write exists", None, n_cas >= 1, f"{n_cas} write_file_cas site(s)",
           nontrivial=False)
    cas = ctx.fn("storage_backend.S3StorageBackend.write_file_cas")
    g = ctx.cfg(cas)
    puts = ctx.calls(cas, prim="boto.put_object")
    inner_puts = [(nf, n) for nf in ctx.eff._all_lambdas(cas) + list(cas.nested.values())
                  for n in ctx.cfg(nf).calls() if n.callee and n.callee.name == "boto.put_object"]
    if not puts and not inner_puts:
        # ... or in a closure of a helper introduced later (the helper itself is analysed in place, its closures are not)
        for cf, cn, _c in ctx.eff.transitive_calls(cas):
            if cf is not cas and not ctx.prog.is_known(cf) and cn.callee and cn.callee.name == "boto.put_object":
                inner_puts.append((cf, cn))
        for n in g.calls():
            if "inlined" in n.flags and n.callee is not None and n.callee.kind == "func":
                for t in n.callee.funcs:
                    for nf in list(t.nested.values()) + ctx.eff._all_lambdas(t):
                        for cn in ctx.cfg(nf).calls():
                            if cn.callee and cn.callee.name == "boto.put_object" and (nf, cn) not in inner_puts:
                                inner_puts.append((nf, cn))
    if not puts and not inner_puts:
        raise AnalysisError("put_object vanished from write_file_cas")
    for nf, n in inner_puts:
        ctx.ob("C08.R3", nf, "conditional PUT issued directly (not from a closure handed to a retry helper)", n, False,
               "the PUT lives in a closure/lambda: a retried conditional PUT after an ambiguous failure could conflict with "
               "its own first attempt, and its preconditions can no longer be checked per path")
    for p in puts:
        call = p.ast
        assert isinstance(call, ast.Call)
        star = [k.value for k in call.keywords if k.arg is None]
        direct = frozenset(k.arg for k in call.keywords if k.arg in PRECOND)
        ok = False
        detail = ""
        if star and isinstance(star[0], ast.Name):
            states = _kwargs_states(ctx, cas, star[0].id, p.id)
            states = {st | direct for st in states}
            ok = bool(states) and all(len(st) == 1 and "?" not in st for st in states)
            detail = f"possible precondition sets reaching the PUT through **{star[0].id}: {sorted(sorted(x) for x in states)}"
        elif direct and not star:
            ok = len(direct) == 1
            detail = f"direct keyword {sorted(direct)}"
        ctx.ob("C08.R3", cas, "exactly one of IfNoneMatch / IfMatch on every path", p, ok, detail)
    hs = handler_nodes(ctx, cas)
    okh = False
    bad_codes: List[str] = []
    for hn in hs:
        ex = handler_exits(ctx, cas, hn)
        raised = {r.raised for r in ex["raise"]}
        if "CASConflictError" in raised and "reraise" in raised and not ex["fallthrough"] and not ex["return"]:
            for _b, cs, mr, orr, _mo, _oo in code_branches(ctx, cas, hn):
                # exactly S3's precondition-failure answers: a code more (503 / SlowDown: the PUT may have landed - an ambiguous
                # outcome read as a clean conflict deletes the version the pointer now names) or a code less (409
                # ConditionalRequestConflict: the loser of a create race sees a raw ClientError) both break the contract
                if set(cs) - RESPONSE_KEYS_C08 == CAS_CONFLICT_CODES and mr == {"CASConflictError"} and "reraise" in orr \
                        and "CASConflictError" not in orr:
                    okh = True
                else:
                    bad_codes = sorted((set(cs) - RESPONSE_KEYS_C08) ^ CAS_CONFLICT_CODES)
    ctx.ob("C08.R3", cas, "precondition failure -> CASConflictError, everything else re-raised", hs[0] if hs else None, okh,
           "412 / PreconditionFailed / ConditionalRequestConflict are clean conflicts; other errors stay errors (ambiguous)"
           + (f"; codes that differ from that set: {bad_codes}" if bad_codes and not okh else ""))
    retry = [n for n in g.calls() if any(t.name in ("with_s3_retry", "retry_with_backoff") for t in ctx.eff.callees(cas, n))]
    nested = [nf for nf in cas.nested.values()]
    ctx.ob("C08.R3", cas, "the conditional PUT is not retried", retry[0] if retry else None, not retry and not nested,
           "a retried conditional PUT after an ambiguous failure could conflict with its own first attempt")
    # read_file_with_etag returns the ETag of the SAME response as the body
    rf = ctx.fn("storage_backend.S3StorageBackend.read_file_with_etag")
    ok = etag_same_response(ctx, rf)[0]
    ctx.ob("C08.R3", rf, "body and ETag come from one GET response", None, ok, "the ETag describes exactly the bytes returned")
