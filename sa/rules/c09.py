"""C09 - retained snapshots are immutable and time travel is stable."""
from __future__ import annotations

import ast
from typing import Dict, List, Optional, Set, Tuple

from ..cfg import NORMAL, Node
from ..core import Ctx
from ..effects import STORAGE_WRITES
from ..flow import names_in
from ..model import AnalysisError, FunctionInfo, dotted, norm_text
from .common import owner_tops, resolve_value, edge_target, fold_str, hint_value, hint_writers, kwarg, path_arg, reachable_from

EXPLANATION = (
    "Static analysis of the write-once namespace: every storage-API write site of the package is enumerated and "
    "the path argument classified by constant propagation + an interprocedural def-use slice: it must be the version "
    "hint (only in the two sanctioned functions), an in-flight marker, or carry a dependency on uuid.uuid4() (fresh "
    "name: racers and later commits can never overwrite a file a retained snapshot references). The delete branch "
    "of _commit_file_ops must not write or delete in place; every delete-capable sink of the package is censused "
    "against the sanctioned owners; current-snapshot repointing must follow snapshot_log recency, never max(id)."
    " Also: (R5) timestamp lookup resolves ties by commit order; (R6-R8) the collector's reachability / no-skip / delete-guard rules (collections must leave every retained snapshot readable)."
    ' (R9) nothing may raise after the commit point (shared with C04.R2): a raise there runs the deleting rollback over the files of a snapshot that IS committed.'
    ' (R10) every producer of a snapshot_log value keeps commit order on the sequence spine (no sorted / reversed / set / insert).'
    ' (R14) recovery orders versions as integers (C10.R11). R5: the as-of sort key is the timestamp alone.'
    " (R15) the snapshot-removal sites keep what the API says is retained, incl. a snapshot exactly at the expiry cutoff (C15.R1); (R16) a committed snapshot's files are never rolled back after an interrupt (C04.R4); R5 resolves named sort keys (attrgetter constants)."
    ' R1 accepts a dataclass record whose token field has a default_factory drawing the uuid (a plain default is evaluated once).')
NOT_DECIDED = ("content equality of re-read snapshots over histories; timestamp lookup under non-monotonic "
               "clocks (depends on run-time values)")

MARKER_PREFIX = "metadata/inflight/"


def check(ctx: Ctx) -> None:
    r1_fresh_names(ctx, "C09.R1")
    r2(ctx)
    r3(ctx)
    r4(ctx)
    r5(ctx)
    r10_log_order(ctx)
    # a lock broken while its holder is alive lets two commits land on one base: the second pointer write erases a committed
    # snapshot from history - lock ages (LastModified) must be UTC-correct
    from .c20 import r11_utc_ages
    r11_utc_ages(ctx, "C09.R11")
    from .c20 import r9_key_roundtrip
    r9_key_roundtrip(ctx, "C09.R12")
    from .c04 import r3 as c04_r3
    ctx.shared(c04_r3, "C04.R3", "C09.R13", "an ambiguous commit's files are kept: the snapshot may be committed")
    # collections must leave every retained snapshot readable: the collector's reachability / delete-guard rules are shared
    from .c05 import r1 as c05_r1, r1_noskip, r3 as c05_r3
    c05_r1(ctx, "C09.R6")
    r1_noskip(ctx, "C09.R7")
    c05_r3(ctx, "C09.R8")
    # "failed commits leave every retained snapshot readable": a raise after the commit point runs the deleting rollback
    # over the files of a snapshot that IS committed
    from .c04 import r2 as c04_r2
    ctx.shared(c04_r2, "C04.R2", "C09.R9", "a committed snapshot's files are never rolled back")
    # retained snapshots stay resolvable after a lost pointer: recovery picks the numerically latest version
    from .c10 import r11 as c10_r11
    c10_r11(ctx, "C09.R14")
    # "for as long as it is retained": the removal sites keep exactly what the API says is retained (current snapshot, snapshots
    # not strictly older than the cutoff) and repoint / filter the log consistently
    from .c15 import r1 as c15_r1
    ctx.shared(c15_r1, "C15.R1", "C09.R15", "a snapshot the caller asked to retain stays resolvable by id and by time")
    # a raise after the commit point / an interrupt on the ambiguous path must not reach a deleting rollback of a committed snapshot
    from .c04 import r4 as c04_r4
    ctx.shared(c04_r4, "C04.R4", "C09.R16", "the files of a snapshot that IS committed are never rolled back")


# ------------------------------------------------------------------ freshness
def returns_fresh(ctx: Ctx, f: FunctionInfo, depth: int = 0, penv: Optional[Dict[str, bool]] = None) -> bool:
    """Every return value of f depends on uuid.uuid4() (`penv`: the freshness of f's parameters at ONE call site - a
    path-building helper `_metadata_file_path(name)` returns a fresh path exactly where it is handed a fresh name)."""
    if depth > 12 or isinstance(f.node, ast.Lambda):
        return False
    g = ctx.cfg(f)
    rets = [n for n in g.nodes if n.kind == "return" and n.id in g.reachable()]
    if not rets:
        return False
    return all(is_fresh(ctx, f, r.ast.value, r.id, depth + 1, penv) for r in rets)  # type: ignore[union-attr]


def is_fresh(ctx: Ctx, f: FunctionInfo, e: Optional[ast.AST], at: int, depth: int = 0,
             penv: Optional[Dict[str, bool]] = None) -> bool:
    """Does the value of `e` at node `at` depend on a uuid4() call on every reaching definition chain?
    (may-depend over the slice is accepted only when EVERY reaching definition of each variable on the
    direct chain is fresh; implemented as: the slice contains a uuid4 call and no alternative definition of the
    top-level variable lacks one)."""
    if e is None or depth > 12:
        return False
    g = ctx.cfg(f)
    rd = ctx.rd(f)

    def direct(expr: ast.AST) -> bool:
        for sub in ast.walk(expr):
            if isinstance(sub, ast.Call):
                dn = dotted(sub.func) or ""
                if dn.endswith("uuid4"):
                    return True
                cal = ctx.prog.resolve_call(sub, f)
                if cal.kind == "ctor" and cal.cls is not None and getattr(cal.cls, "is_dataclass", False):
                    # a record whose field is drawn per INSTANCE: `token: str = field(default_factory=lambda: uuid4().hex[:8])`,
                    # not overridden by this construction (a plain `= uuid4()` default is evaluated once, at import)
                    given = {k.arg for k in sub.keywords if k.arg}
                    order = [st.target.id for st in cal.cls.node.body if isinstance(st, ast.AnnAssign) and isinstance(st.target, ast.Name)]
                    given |= set(order[:len(sub.args)])
                    for st in cal.cls.node.body:
                        if isinstance(st, ast.AnnAssign) and isinstance(st.target, ast.Name) and st.target.id not in given \
                                and isinstance(st.value, ast.Call) and (dotted(st.value.func) or "").split(".")[-1] == "field":
                            fac = next((k.value for k in st.value.keywords if k.arg == "default_factory"), None)
                            if fac is not None and any(isinstance(y, ast.Call) and (dotted(y.func) or "").endswith("uuid4") for y in ast.walk(fac)):
                                return True
                if cal.kind == "func" and cal.funcs and all(returns_fresh(ctx, t, depth + 1) for t in cal.funcs):
                    return True
                if cal.kind == "func" and cal.funcs and depth < 10:
                    ok = True
                    for t in cal.funcs:
                        env = {}
                        for pn in [q.name for q in t.params if q.name != t.self_name()]:
                            arg = ctx.eff.bind_arg(sub, t, pn, isinstance(sub.func, ast.Attribute))
                            env[pn] = arg is not None and is_fresh(ctx, f, arg, at, depth + 1, penv)
                        if not any(env.values()) or not returns_fresh(ctx, t, depth + 1, env):
                            ok = False
                    if ok:
                        return True
        return False

    if direct(e):
        return True
    # follow variables: every variable alternative must be fresh for at least one component
    for nm in sorted(names_in(e)):
        if nm == "self" or nm.startswith("self."):
            continue
        defs = rd.reaching(at, nm)
        if not defs:
            continue
        allfresh = True
        for d in defs:
            if d == g.entry:
                # `def name(stem, token=None): if token is None: token = uuid4().hex[:8]` called without the argument: the
                # parameter's own value (None) never reaches the use - the guarded re-assignment does
                par = next((p_ for p_ in f.params if p_.name == nm), None)
                if par is not None and isinstance(par.default, ast.Constant) and par.default.value is None and len(defs) > 1:
                    sites = ctx.eff.call_sites.get(f.qname, [])
                    omitted = bool(sites) and all(
                        (lambda a_: a_ is None or (isinstance(a_, ast.Constant) and a_.value is None))(
                            ctx.eff.bind_arg(n_.ast, f, nm, isinstance(n_.ast.func, ast.Attribute)) if isinstance(n_.ast, ast.Call) else None)
                        for _c, n_ in sites)
                    guarded = any(b.kind == "branch" and isinstance(b.ast, ast.Compare) and isinstance(b.ast.left, ast.Name) and b.ast.left.id == nm
                                  and isinstance(b.ast.ops[0], ast.Is) and isinstance(b.ast.comparators[0], ast.Constant)
                                  and b.ast.comparators[0].value is None
                                  and any(d2 != g.entry and d2 in [t_ for t_, l_ in g.succ[b.id] if l_ == "true"] + [
                                      t2 for t_, l_ in g.succ[b.id] if l_ == "true" for t2, _l2 in g.succ[t_]] for d2 in defs)
                                  for b in g.nodes)
                    if omitted and guarded:
                        continue
                if penv is not None and nm in penv:
                    if not penv[nm]:
                        allfresh = False
                    continue
                # parameter: every package call site must pass a fresh value
                if not param_fresh(ctx, f, nm, depth + 1):
                    allfresh = False
                continue
            dn = g.nodes[d]
            from ..flow import rhs_of
            rhs = rhs_of(dn, nm)
            if rhs is None or not is_fresh(ctx, f, rhs, d, depth + 1, penv):
                allfresh = False
        if allfresh:
            return True
    return False


def param_fresh(ctx: Ctx, f: FunctionInfo, pname: str, depth: int) -> bool:
    sites = ctx.eff.call_sites.get(f.qname, [])
    if not sites or depth > 12:
        return False
    for caller, n in sites:
        call = n.ast
        assert isinstance(call, ast.Call)
        arg = ctx.eff.bind_arg(call, f, pname, isinstance(call.func, ast.Attribute))
        if arg is None or not is_fresh(ctx, caller, arg, n.id, depth + 1):
            return False
    return True


def storage_write_sites(ctx: Ctx) -> List[Tuple[FunctionInfo, Node, str]]:
    out = []
    for f in ctx.prog.functions.values():
        if f.module.short == "storage_backend":
            continue  # backend internals (write_json -> write_file) are not new names
        for n in ctx.cfg(f).calls():
            op = ctx.eff.storage_op(n)
            if op in STORAGE_WRITES:
                out.append((f, n, op))
    return out


def r1_fresh_names(ctx: Ctx, rid: str) -> None:
    ctx.rule(rid, "write-once namespace: every storage write site targets the version hint (sanctioned functions only), "
             "an in-flight marker, or a name that depends on uuid4() - so no commit, racer or retry can overwrite a "
             "file that a committed version references", 8)
    hv = hint_value(ctx)
    sanctioned_hint = {"datashard.metadata_manager.MetadataManager.initialize_table",
                       "datashard.metadata_manager.MetadataManager._write_hint_at_commit_point"}
    for f, n, op in storage_write_sites(ctx):
        pa = path_arg(n)
        s = fold_str(ctx, f, pa, n.id)
        top = f
        while top.parent is not None:
            top = top.parent
        owners = owner_tops(ctx, f)
        if s == hv:
            ctx.ob(rid, f, f"{op}(HINT) only in sanctioned functions", n, bool(owners) and all(ctx.prog.anchor(o) in sanctioned_hint for o in owners),
                   "the version hint has exactly two writers: table initialisation and the commit point",
                   nontrivial=False)
            continue
        if s is not None and s.startswith(MARKER_PREFIX):
            ctx.ob(rid, f, f"{op}(in-flight marker)", n, bool(owners) and all(o.name == "_register_inflight" for o in owners),
                   "markers live under metadata/inflight/ and are written only by _register_inflight", nontrivial=False)
            continue
        fresh = is_fresh(ctx, f, pa, n.id)
        ctx.ob(rid, f, f"{op}(fresh name)", n, fresh,
               "the written path depends on uuid.uuid4() on every definition chain (incl. through callers)"
               + ("" if fresh else f"; path expression `{norm_text(pa) if pa is not None else '?'}` has a chain with no uuid4 dependency"))
    # the data-file sink: Transaction.append_data -> write_data_file(file_path=...)
    ad = ctx.fn("transaction.Transaction.append_data")
    for n in ctx.calls(ad, name="write_data_file"):
        pa = kwarg(n.ast, "file_path", 0)
        ctx.ob(rid, ad, "data file name is fresh", n, is_fresh(ctx, ad, pa, n.id),
               "auto-generated data file names depend on uuid4()")


# ------------------------------------------------------------------------ R2
def r2(ctx: Ctx) -> None:
    ctx.rule("C09.R2", "deletes rewrite, never mutate: _commit_file_ops performs no storage write/delete itself; a "
             "partially deleted manifest is replaced by a NEW manifest from create_manifest_file", 3)
    f = ctx.fn("transaction.Transaction._commit_file_ops")
    g = ctx.cfg(f)
    direct = [n for n in g.calls() if ctx.eff.storage_op(n) in STORAGE_WRITES | {"delete_file"}]
    ctx.ob("C09.R2", f, "no direct storage write/delete in _commit_file_ops", direct[0] if direct else None, not direct,
           "manifests of retained snapshots are never rewritten or removed in place",
           witness=[f"{f.file}:{n.lineno} {n.text}" for n in direct] or None)
    # no call passes a value derived from an existing manifest's path as the target of a writer
    sl = ctx.slicer(f)
    bad = []
    for n in g.calls():
        tg = ctx.eff.callees(f, n)
        if not any(t.name in ("create_manifest_file", "create_manifest_list_file") for t in tg):
            continue
        call = n.ast
        assert isinstance(call, ast.Call)
        for k in call.keywords:
            if k.arg and "path" in k.arg:
                bad.append(n)
    ctx.ob("C09.R2", f, "writers choose their own (fresh) path", bad[0] if bad else None, not bad,
           "create_manifest_file / create_manifest_list_file are never told to write to an existing path")
    # appended rewritten manifests come from create_manifest_file
    ml = ctx.calls(f, name="create_manifest_list_file")
    listvar = norm_text(ml[0].ast.args[0]) if ml and isinstance(ml[0].ast, ast.Call) and ml[0].ast.args else "final_manifests"
    for n in g.calls():
        a = n.ast
        if isinstance(a, ast.Call) and isinstance(a.func, ast.Attribute) and a.func.attr == "append" \
                and norm_text(a.func.value) == listvar and a.args:
            org = sl.origins(a.args[0], n.id)
            from_new = any(isinstance(c, ast.Call) and (dotted(c.func) or "").endswith("create_manifest_file") for c in org["calls"])
            from_old = any(isinstance(c, ast.Call) and (dotted(c.func) or "").endswith("read_manifest_list_file") for c in org["calls"]) and not from_new
            ctx.ob("C09.R2", f, "final_manifests.append source", n, from_new or from_old,
                   "a manifest in the new list is either an unchanged existing manifest or a newly created one "
                   f"({'new' if from_new else 'existing (unchanged)'})")


# ------------------------------------------------------------------------ R3
DELETE_OWNERS: Dict[str, str] = {
    "datashard.transaction.Transaction._rollback": "deletes only files/markers this transaction wrote (C04.R3)",
    "datashard.transaction.Transaction._finish_committed": "removes this transaction's own in-flight markers",
    "datashard.garbage_collector.GarbageCollector._gc_prefix": "orphan deletion under the C05.R3 guards",
    "datashard.garbage_collector.GarbageCollector._load_inflight_protection": "abandoned marker sweep (C05.R3b)",
    "datashard.metadata_manager.MetadataManager.commit": "removes the uncommitted metadata file this call wrote (C10.R5)",
    "datashard.metadata_manager.MetadataManager.initialize_table": "losing initializer removes its own v0 file (C10.R5)",
    "datashard.storage_backend.LocalStorageBackend.delete_file": "the backend primitive itself",
    "datashard.storage_backend.LocalStorageBackend.write_file": "temp-file cleanup on error",
    "datashard.storage_backend.S3StorageBackend.delete_file": "the backend primitive itself",
    "datashard.data_operations.DataFileWriter.open": "temp-file cleanup when the writer could not be constructed",
    "datashard.data_operations.DataFileWriter.close": "temp-file cleanup when the rename failed",
    "datashard.file_lock.FileLock._try_acquire_excl_fallback": "stale fallback lock file",
    "datashard.file_lock.FileLock.release": "fallback lock file (its existence IS the lock)",
    "datashard.lock_provider.S3LockProviderBase.release": "lock object, only when content == lock_id (C19.R5)",
    "datashard.lock_provider.S3PollingLockProvider._check_and_break_expired_lock": "best-effort provider (documented)",
}


def delete_sites(ctx: Ctx) -> List[Tuple[FunctionInfo, Node, str]]:
    out = []
    for f in ctx.prog.functions.values():
        for n in ctx.cfg(f).calls():
            c = n.callee
            if c is None:
                continue
            if ctx.eff.storage_op(n) == "delete_file":
                out.append((f, n, "storage.delete_file"))
            elif c.kind == "prim" and c.name in ("os.remove", "os.unlink", "os.rmdir", "os.removedirs", "boto.delete_object",
                                                 "boto.delete_objects", "shutil.rmtree", "shutil.move", "os.truncate"):
                out.append((f, n, c.name))
            elif c.kind == "prim" and c.name.startswith("method.") and c.name.split(".")[1] in ("unlink", "rmtree", "truncate"):
                out.append((f, n, c.name))
    return out


def r3(ctx: Ctx) -> None:
    ctx.rule("C09.R3", "who may delete: every delete-capable sink of the package lies in a sanctioned owner function", 14)
    for f, n, what in delete_sites(ctx):
        owners = owner_tops(ctx, f)
        reasons = [DELETE_OWNERS.get(ctx.prog.anchor(o)) for o in owners]
        reason = reasons[0] if owners and all(r is not None for r in reasons) else None
        ctx.ob("C09.R3", f, f"{what} site", n, reason is not None,
               (f"sanctioned: {reason}" if reason else "a delete-capable call outside the sanctioned owners: files of "
                "retained snapshots could be removed"), nontrivial=False)
    # MetadataManager.commit / initialize_table deletes: only the metadata file written by the same call
    for q in ("metadata_manager.MetadataManager.commit", "metadata_manager.MetadataManager.initialize_table"):
        f = ctx.fn(q)
        sl = ctx.slicer(f)
        for n in ctx.calls(f, storage="delete_file"):
            pa = path_arg(n)
            w = ctx.calls(f, name="_write_metadata_file")
            same = bool(w) and pa is not None and names_in(pa) & names_in(path_arg(w[0]))
            if w and pa is not None and not same:
                from .common import same_value
                same = same_value(ctx, f, pa, n.id, path_arg(w[0]), w[0].id)  # the same path re-spelled in another helper
            dom = ctx.dom(f)
            ctx.ob("C09.R3", f, "cleanup deletes exactly the file this call wrote", n,
                   bool(same) and any(x.id in dom.get(n.id, set()) for x in w),
                   "the only metadata file a commit may remove is its own uncommitted one (dominated by its write)")


# ------------------------------------------------------------------------ R4
def r4(ctx: Ctx) -> None:
    ctx.rule("C09.R4", "repoint by commit recency: _most_recent_snapshot_id walks snapshot_log in reverse restricted to "
             "the remaining ids (never max(snapshot_id)); delete_snapshot repoints only when the deleted id was current", 3)
    f = ctx.fn("snapshot_manager.SnapshotManager._most_recent_snapshot_id")
    g = ctx.cfg(f)
    loops = [n for n in g.nodes if n.kind == "loop" and isinstance(n.ast, ast.For)]
    rev = [l for l in loops if "reversed" in norm_text(l.ast.iter) and "snapshot_log" in norm_text(l.ast.iter)]  # type: ignore[union-attr]

    def _pick(e: Optional[ast.AST]) -> Optional[ast.AST]:
        """expression form of the walk: next(<gen over reversed(log) if id in remaining>, default) / [<same>][0]"""
        comp = None
        if isinstance(e, ast.Call) and dotted(e.func) == "next" and e.args and isinstance(e.args[0], ast.GeneratorExp):
            comp = e.args[0]
        elif (isinstance(e, ast.Subscript) and isinstance(e.value, ast.ListComp) and isinstance(e.slice, ast.Constant)
              and e.slice.value == 0):
            comp = e.value
        if comp is None or len(comp.generators) != 1:
            return None
        it = norm_text(comp.generators[0].iter)
        if "reversed" in it and "snapshot_log" in it:
            return comp
        return None

    rets = [n for n in g.nodes if n.kind == "return" and n.ast is not None and n.ast.value is not None  # type: ignore[union-attr]
            and not (isinstance(n.ast.value, ast.Constant))]  # type: ignore[union-attr]
    picks: List[Tuple[Node, ast.AST, int]] = []
    for r in rets:
        for src, sat in resolve_value(ctx, f, r.ast.value, r.id):  # type: ignore[union-attr]
            comp = _pick(src)
            if comp is not None:
                picks.append((r, comp, sat))
    walk = rev[0] if rev else (g.nodes[picks[0][2]] if picks else None)
    ctx.ob("C09.R4", f, "iterates snapshot_log newest-first", walk, walk is not None,
           "commit recency is the order of snapshot_log, walked in reverse")
    dom = ctx.dom(f, NORMAL)
    first_ok = False
    for r in rets:
        if rev and any(fr.kind == "loop" and fr.node is rev[0].ast for fr in r.frames):
            # guarded by membership in the remaining ids
            guards = [b for b in g.nodes if b.kind == "branch" and isinstance(b.ast, ast.Compare)
                      and isinstance(b.ast.ops[0], ast.In) and b.id in dom[r.id]]
            first_ok = bool(guards)
    if not rev:
        for r, comp, sat in picks:
            conds = [c for c in comp.generators[0].ifs]  # type: ignore[attr-defined]
            first_ok = any(isinstance(c, ast.Compare) and isinstance(c.ops[0], ast.In) for c in conds)
    ctx.ob("C09.R4", f, "returns the newest log entry that still exists", rets[0] if rets else None, first_ok,
           "the returned id is the latest snapshot_log entry whose snapshot remains")
    maxes = [n for n in g.calls() if n.callee and n.callee.name == "builtins.max"]
    bad = []
    for m in maxes:
        key = kwarg(m.ast, "key")
        txt = norm_text(key) if key is not None else norm_text(m.ast)
        if "snapshot_id" in txt and "timestamp" not in txt:
            bad.append(m)
        # the max() fallback must come after the log walk
        if walk is not None and m.id in reachable_from(g, g.entry, NORMAL) and walk.id not in dom[m.id]:
            bad.append(m)
    ctx.ob("C09.R4", f, "no max(snapshot_id) selection", bad[0] if bad else (maxes[0] if maxes else None), not bad,
           "snapshot ids are random; the fallback orders by timestamp and only after the log walk")
    d = ctx.fn("snapshot_manager.SnapshotManager.delete_snapshot")
    dg = ctx.cfg(d)
    asg = [n for n in dg.nodes if n.kind == "stmt" and isinstance(n.ast, ast.Assign)
           and any(isinstance(t, ast.Attribute) and t.attr == "current_snapshot_id" for t in n.ast.targets)]
    ddom = ctx.dom(d, NORMAL)
    for a in asg:
        guards = [b for b in dg.nodes if b.kind == "branch" and "current_snapshot_id" in b.text and b.id in ddom[a.id]]
        via = any(t.name == "_most_recent_snapshot_id" for c in dg.calls() if c.stmt is a.ast for t in ctx.eff.callees(d, c))
        ctx.ob("C09.R4", d, "current snapshot reassigned only when the deleted one was current", a, bool(guards) and via,
               "delete_snapshot repoints to _most_recent_snapshot_id() under `current_snapshot_id == snapshot_id`")


ORDER_BREAKERS = {"sorted", "reversed", "set", "frozenset", "heapq.nlargest", "heapq.nsmallest", "heapq.merge", "random.sample",
                  "random.shuffle", "dict.fromkeys"}


def r10_log_order(ctx: Ctx, rid: str = "C09.R10") -> None:
    ctx.rule(rid, "snapshot_log stays in commit order everywhere: no producer of a snapshot_log value (assignment, constructor "
             "keyword, serialised dict entry, in-place mutation) sorts, reverses, de-duplicates through a set or inserts in the "
             "middle - `_most_recent_snapshot_id` reads recency off the list order", 6)

    def disturbs(f: FunctionInfo, v: Optional[ast.AST], at: int, depth: int = 0) -> List[str]:
        """order-disturbing constructs on the SEQUENCE SPINE of v: the iterable a comprehension walks, the operands of + and
        slices, the argument of list()/tuple()/copy()/deepcopy(), the definitions of a variable - not filter conditions or
        element expressions (they cannot change the relative order)."""
        if v is None or depth > 10:
            return []
        if isinstance(v, (ast.ListComp, ast.GeneratorExp)):
            return disturbs(f, v.generators[0].iter, at, depth + 1)
        if isinstance(v, (ast.SetComp, ast.Set)):
            return [norm_text(v)[:60]]
        if isinstance(v, ast.IfExp):
            return disturbs(f, v.body, at, depth + 1) + disturbs(f, v.orelse, at, depth + 1)
        if isinstance(v, ast.BinOp):
            return disturbs(f, v.left, at, depth + 1) + disturbs(f, v.right, at, depth + 1)
        if isinstance(v, ast.Starred):
            return disturbs(f, v.value, at, depth + 1)
        if isinstance(v, (ast.List, ast.Tuple)):
            return [b for e in v.elts if isinstance(e, ast.Starred) for b in disturbs(f, e.value, at, depth + 1)]
        if isinstance(v, ast.Subscript) and isinstance(v.slice, ast.Slice):
            if isinstance(v.slice.step, ast.UnaryOp):
                return [norm_text(v)[:60]]
            return disturbs(f, v.value, at, depth + 1)
        if isinstance(v, ast.Call):
            d = dotted(v.func) or ""
            if d in ORDER_BREAKERS:
                return [norm_text(v)[:60]]
            if d in ("list", "tuple", "copy", "deepcopy", "copy.copy", "copy.deepcopy", "iter") and v.args:
                return disturbs(f, v.args[0], at, depth + 1)
            g_ = ctx.cfg(f)
            if id(v) in g_.inline_returns:
                return [b for rexpr, rnode in g_.inline_returns[id(v)] for b in disturbs(f, rexpr, rnode, depth + 1)]
            return []
        if isinstance(v, ast.Name):
            g_ = ctx.cfg(f)
            out: List[str] = []
            for dn in ctx.rd(f).reaching(at, v.id):
                node = g_.nodes[dn]
                if dn == g_.entry:
                    continue
                if isinstance(node.ast, ast.Assign) and len(node.ast.targets) == 1 and isinstance(node.ast.targets[0], ast.Name):
                    out += disturbs(f, node.ast.value, dn, depth + 1)
                elif isinstance(node.ast, ast.AugAssign):
                    out += disturbs(f, node.ast.value, dn, depth + 1)
            # in-place re-ordering of the local list before it is stored
            for c in g_.calls():
                if isinstance(c.ast, ast.Call) and isinstance(c.ast.func, ast.Attribute) and isinstance(c.ast.func.value, ast.Name) \
                        and c.ast.func.value.id == v.id and c.ast.func.attr in ("sort", "reverse", "insert"):
                    out.append(norm_text(c.ast)[:60])
            return out
        return []

    for f in sorted(ctx.prog.functions.values(), key=lambda x: x.qname):
        if isinstance(f.node, ast.Lambda) or (f.parent is not None and ctx.prog.is_transparent(f) and ctx.eff.call_sites.get(f.qname)):
            continue  # (a new closure that is only handed on as a callback is analysed nowhere else: it is judged here)
        g = ctx.cfg(f)
        for n in g.nodes:
            if n.ast is None or n.id not in g.reachable() or n.kind not in ("stmt", "call", "return"):
                continue
            sites: List[Tuple[str, Optional[ast.AST]]] = []
            if n.kind == "stmt" and isinstance(n.ast, (ast.Assign, ast.AugAssign)):
                tgs = n.ast.targets if isinstance(n.ast, ast.Assign) else [n.ast.target]
                for t in tgs:
                    base = t.value if isinstance(t, ast.Subscript) else t
                    if isinstance(base, ast.Attribute) and base.attr == "snapshot_log":
                        sites.append(("assigned", n.ast.value))
            if n.kind in ("stmt", "return"):
                for x in ast.walk(n.ast):
                    if isinstance(x, ast.Dict):
                        for k, v in zip(x.keys, x.values):
                            if isinstance(k, ast.Constant) and k.value == "snapshot_log":
                                sites.append(("serialised", v))
            if n.kind == "call" and isinstance(n.ast, ast.Call):
                for k in n.ast.keywords:
                    if k.arg == "snapshot_log":
                        sites.append(("constructor keyword", k.value))
                fn_ = n.ast.func
                if isinstance(fn_, ast.Attribute) and isinstance(fn_.value, ast.Attribute) and fn_.value.attr == "snapshot_log":
                    ok = fn_.attr in ("append", "extend", "copy", "clear", "remove", "pop", "index", "count")
                    ctx.ob(rid, f, "in-place operation on snapshot_log keeps commit order", n, ok,
                           f"`.{fn_.attr}()`: " + ("appends / removes keep the relative order of the entries" if ok else
                                                  "re-orders the log: the newest-first walk of _most_recent_snapshot_id no longer follows commit recency"),
                           text=fn_.attr)
            for role, v in sites:
                bad = sorted(set(disturbs(f, v, n.id)))
                ctx.ob(rid, f, f"snapshot_log {role} in commit order", n, not bad,
                       ("value built by filtering / copying / appending (order-preserving)" if not bad else
                        f"order-disturbing construct(s) {bad}: deleting the current snapshot would repoint to a snapshot that is not "
                        "the most recently committed one (timestamps are not commit order under clock steps)"), text=role)


def r5(ctx: Ctx) -> None:
    ctx.rule("C09.R5", "timestamp lookup resolves ties by commit order: among snapshots with equal timestamp_ms the LAST committed "
             "one is chosen (stable sort + last match, or reversed iteration) - never a first-of-ties selection", 1)
    f = ctx.fn("snapshot_manager.SnapshotManager.get_snapshot_by_timestamp")
    g = ctx.cfg(f)
    sl = ctx.slicer(f)
    rets = [n for n in g.nodes if n.kind == "return" and n.id in g.reachable() and n.ast.value is not None  # type: ignore[union-attr]
            and not isinstance(n.ast.value, ast.Constant)]  # type: ignore[union-attr]
    problems = []
    good = False
    for r in rets:
        org = sl.origins(r.ast.value, r.id)  # type: ignore[union-attr]
        for c in org["calls"]:
            if not isinstance(c, ast.Call):
                continue
            fn = dotted(c.func) or ""
            if fn in ("max", "min") and c.args:
                seq = norm_text(c.args[0])
                key = kwarg(c, "key")
                first_of_ties = True  # max()/min() return the FIRST of equal elements
                if fn == "max" and seq.startswith("reversed("):
                    first_of_ties = False  # first of the reversed order = last committed
                if isinstance(key, ast.Name) and key.id in f.module.consts:
                    key = f.module.consts[key.id]  # `_commit_time = attrgetter("timestamp_ms")`
                if first_of_ties and (key is None or "timestamp" in norm_text(key)):
                    problems.append(f"{fn}({seq[:40]}, key=...) returns the first of equal timestamps = the EARLIEST committed snapshot")
                else:
                    good = True
            if fn == "next" or fn.endswith(".pop"):
                pass
        # loop-overwrite pattern: the returned variable is assigned inside a loop over a timestamp-sorted sequence
        for d in org["nodes"]:
            dn = g.nodes[d]
            if dn.kind == "stmt" and isinstance(dn.ast, ast.Assign) and any(fr.kind == "loop" for fr in dn.frames):
                loop = next(fr.node for fr in reversed(dn.frames) if fr.kind == "loop")
                it = norm_text(loop.iter)  # type: ignore[attr-defined]
                if "sorted(" in it and "timestamp" in it and "reverse=True" not in it:
                    good = True  # stable ascending sort, last `<=` match overwrites earlier ones
                    # the sort key is the timestamp ALONE: any further component (the random snapshot id, a name) reorders
                    # snapshots that share a millisecond, and the last match is no longer the last committed
                    for sc in [x for x in ast.walk(loop.iter) if isinstance(x, ast.Call) and (dotted(x.func) or "") == "sorted"]:  # type: ignore[attr-defined]
                        key = kwarg(sc, "key")
                        body = key.body if isinstance(key, ast.Lambda) else None
                        if isinstance(body, (ast.Tuple, ast.List)) and len(body.elts) > 1:
                            problems.append(f"sort key `{norm_text(body)[:50]}` breaks ties by something other than commit order")
                elif "reversed(" in it or "reverse=True" in it:
                    problems.append("descending iteration with overwrite keeps the EARLIEST of equal timestamps")
    ok = good and not problems
    if not good and not problems:
        ctx.notes.append("C09.R5: get_snapshot_by_timestamp has an unrecognised selection shape - tie-break not decided")
        ok = True
    ctx.ob("C09.R5", f, "ties on timestamp_ms resolve to the most recently committed snapshot", rets[0] if rets else None, ok,
           "; ".join(problems) if problems else "stable ascending sort by timestamp_ms, the last match wins (list order = commit order)")
