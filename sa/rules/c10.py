"""C10 - the version pointer is only a hint: losing or corrupting it never loses data."""
from __future__ import annotations

import ast
import re
from typing import Dict, List, Optional, Set, Tuple

from ..cfg import NORMAL, Node, handler_classes
from ..core import Ctx
from ..effects import STORAGE_READS
from ..flow import ALL, find_path, names_in
from ..model import AnalysisError, FunctionInfo, dotted, norm_text
from .common import (effective_returns, facts_at, judged_in_callers, package_functions, resolve_value, known_null_call, edge_target, guarded_names, handler_exits, handler_nodes, hint_value, in_handler, kwarg, path_arg,
                     reachable_from, try_body_calls)

EXPLANATION = (
    "Static analysis of pointer resolution: (R1) the pointer parser is TOTAL - its exception-escape set is computed with a "
    "guard-aware summary of int(): int(t) cannot raise under t.isdecimal(), under t.isascii() and t.isdigit(), or for a \\d+ "
    "regex group, but CAN under t.isdigit() alone (str.isdigit accepts characters such as '\\u00b2' that int() rejects) - and "
    "STRICT: every non-None result is in the language of the anchored metadata-file regex; (R2) the hinted pair is returned "
    "only under exists(<its file>), every other path goes to recovery; (R3) initialisation refuses a recoverable table "
    "(C18.R1); (R4) no handler on the call tree of _current_version_info turns a storage failure into 'no table'; (R5) every "
    "known-not-committed exceptional exit after the metadata-file write passes a delete of that file (so recovery can never "
    "surface a version that was never committed)."
    " Also: (R6) a failed pointer write on an atomic backend is a clean failure; (R7) version resolution is stateless; (R8) the pointer's ETag always reaches the conditional write; (R9) recovery's listing is complete."
    " (R10) the CAS path's 'pointer moved' conflict needs a parsed pointer; (R11) the regex's version group is int()-converted before any other use (no lexicographic v9 > v10); (R12) no truthiness test of a version number (v0 is a version); (R13) the new metadata file is numbered resolved version + 1 and the constant start value is guarded by `is None`."
    ' (R14) who-may-delete census (C09.R3); (R15) every pointer write publishes a name freshly allocated by _new_metadata_filename in the same function (the pointer never moves to an old version).'
    ' (R16) every backend operation does its work and both listings keep every entry (C20.R8).'
    " (R19) only the two committers write the pointer (write-namespace census, C09.R1): no lock-free 'repair' of the hint."
    ' R11 also forbids ordering over text (file names, regex groups, tuples starting with one); R15 requires the published content to be the bare name; (R20) the local mtime is returned untruncated.'
    ' (R21) the name _new_metadata_filename builds is in the language of the metadata regex (scenario); (R22) version numbers are never truth-tested; R11 also forbids a text component before the mtime in any max / min / sorted over recovery candidates; R1 reads regexes assembled from named pieces.'
    ' (R23) hint-less recovery by scenario: over a scripted listing of two files of ONE version (either order) the more recently modified one is resolved, and a higher version wins over a newer file of a lower version.'
    ' R13 demands the FULL resolution behind the new version number (the resolver itself, or - analysed in place - the pointer parse together with the recovery scan).')
NOT_DECIDED = ("byte-level pointer grammar x histories at run time; orphans left by a crash (no exception path exists to "
               "clean them - format limitation)")

MM = "metadata_manager.MetadataManager"


def check(ctx: Ctx) -> None:
    r1(ctx)
    r2(ctx)
    from .c18 import r1 as c18_r1
    c18_r1(ctx, "C10.R3")
    r4(ctx, "C10.R4")
    r5(ctx)
    from .c04 import r1 as c04_r1
    n0 = len(ctx.obs)
    c04_r1(ctx)
    for o in ctx.obs[n0:]:
        o.rule = "C10.R6"
    ctx.rule_text["C10.R6"] = ctx.rule_text.pop("C04.R1")
    ctx.floors["C10.R6"] = ctx.floors.pop("C04.R1")
    r7(ctx)
    from .c20 import r5 as c20_r5
    c20_r5(ctx, "C10.R9")
    from .c08 import r1 as c08_r1
    n0 = len(ctx.obs)
    c08_r1(ctx)
    for o in ctx.obs[n0:]:
        o.rule = "C10.R8"
    ctx.rule_text["C10.R8"] = ctx.rule_text.pop("C08.R1")
    ctx.floors["C10.R8"] = ctx.floors.pop("C08.R1")
    from .c08 import pin_needs_hint
    pin_needs_hint(ctx, "C10.R10")
    r11(ctx)
    r12(ctx)
    r13(ctx)
    # "metadata files are the truth": nobody but the sanctioned owners deletes one
    from .c09 import r3 as c09_r3
    ctx.shared(c09_r3, "C09.R3", "C10.R14", "a sweep deleting metadata files removes what hint-less recovery resolves to")
    pointer_publishes_fresh_version(ctx)
    # hint-less recovery trusts list_files: a listing that drops entries (or a write that writes nothing) makes an existing
    # table look uninitialised
    from .c20 import r8_work
    r8_work(ctx, "C10.R16")
    from .c20 import r10_listing_exhaustive
    r10_listing_exhaustive(ctx, "C10.R17")
    from .c20 import r2 as c20_r2
    ctx.shared(c20_r2, "C20.R2", "C10.R18", "a 403 on the pointer or its target is not 'stale pointer': recovery must not run on it")
    # "the pointer is only a hint" cuts both ways: nobody but the two committers (under the lock, CAS where available) may
    # write it - a "repair" from a lock-free reader overwrites a commit that landed after the reader's listing
    from .c09 import r1_fresh_names
    r1_fresh_names(ctx, "C10.R19")
    mtime_is_untruncated(ctx)
    writer_names_in_reader_language(ctx)
    recovery_tie_break_scenarios(ctx)
    # version 0 is a version: a pointer naming v0 must be honoured, not taken for "no pointer" (truth-testing the number sends
    # the reader to the directory scan, which surfaces the highest file on disk - possibly one that was never committed)
    from .common import numbers_not_truth_tested
    numbers_not_truth_tested(ctx, "C10.R22", ("metadata_manager",), "version numbers, stamps")


def _fold_digits(ctx: Ctx, f: FunctionInfo, e: ast.AST, at: int, depth: int = 0) -> Optional[str]:
    """Fold a name built from constants and ONE digits-variable (f-string, +, %-format, str.format) with the variable
    replaced by '0'; None if the expression is not of that shape."""
    g = ctx.cfg(f)
    if depth > 4:
        return None
    if isinstance(e, ast.Name):
        defs = ctx.rd(f).reaching(at, e.id)
        if len(defs) == 1 and next(iter(defs)) != g.entry:
            d = next(iter(defs))
            dn = g.nodes[d]
            if dn.kind == "stmt" and isinstance(dn.ast, ast.Assign) and len(dn.ast.targets) == 1 and isinstance(dn.ast.targets[0], ast.Name):
                return _fold_digits(ctx, f, dn.ast.value, d, depth + 1)
        return None
    if isinstance(e, ast.JoinedStr):
        out = []
        for x in e.values:
            if isinstance(x, ast.Constant):
                out.append(str(x.value))
            elif isinstance(x, ast.FormattedValue) and isinstance(x.value, (ast.Name, ast.Attribute)) and x.format_spec is None \
                    and x.conversion == -1 and ctx.prog.const_str(x.value, f.module, f) is not None:
                out.append(ctx.prog.const_str(x.value, f.module, f))  # a named constant (suffix / prefix)
            else:
                out.append("0")
        return "".join(out)
    if isinstance(e, ast.BinOp) and isinstance(e.op, ast.Add):
        parts = []
        for side in (e.left, e.right):
            if isinstance(side, ast.Constant) and isinstance(side.value, str):
                parts.append(side.value)
            elif isinstance(side, (ast.Name, ast.Attribute)) and ctx.prog.const_str(side, f.module, f) is not None:
                parts.append(ctx.prog.const_str(side, f.module, f))  # a named constant (suffix / prefix)
            elif isinstance(side, ast.Name):
                parts.append("0")
            else:
                sub = _fold_digits(ctx, f, side, at, depth + 1)
                if sub is None:
                    return None
                parts.append(sub)
        return "".join(parts)
    if isinstance(e, ast.BinOp) and isinstance(e.op, ast.Mod) and isinstance(e.left, ast.Constant) and isinstance(e.left.value, str):
        return re.sub(r"%[sd]", "0", e.left.value)
    if isinstance(e, ast.Call) and isinstance(e.func, ast.Attribute) and e.func.attr == "format" \
            and isinstance(e.func.value, ast.Constant) and isinstance(e.func.value.value, str) and not e.keywords:
        return re.sub(r"\{\d*\}", "0", e.func.value.value)
    return None


def int_is_guarded(ctx: Ctx, f: FunctionInfo, n: Node) -> Tuple[bool, str]:
    """Is this int(x) call total?"""
    g = ctx.cfg(f)
    call = n.ast
    assert isinstance(call, ast.Call)
    if len(call.args) != 1:
        return False, "int() with base / no argument"
    a = call.args[0]
    # regex group of a \d+ capture
    if isinstance(a, ast.Call) and isinstance(a.func, ast.Attribute) and a.func.attr == "group":
        mvar = dotted(a.func.value)
        if mvar:
            for d in ctx.rd(f).reaching(n.id, mvar):
                dn = g.nodes[d]
                if dn.ast is not None and "_METADATA_FILE_RE" in norm_text(dn.ast):
                    from .c03 import metadata_regex
                    pat = metadata_regex(ctx)
                    idx = a.args[0].value if a.args and isinstance(a.args[0], ast.Constant) else 0
                    from .common import regex_group_is_digits
                    if isinstance(idx, (int, str)) and regex_group_is_digits(pat, idx):
                        return True, f"group {idx!r} of the metadata regex matches decimal digits only"
        return False, "regex group not provably digits-only"
    if isinstance(a, ast.Name):
        v = a.id
        have: Set[str] = set()
        rd = ctx.rd(f)
        for pol, e, at in facts_at(ctx, f, n):
            if pol == "true" and isinstance(e, ast.Call) and isinstance(e.func, ast.Attribute) and dotted(e.func.value) == v \
                    and not e.args and rd.reaching(at, v) == rd.reaching(n.id, v):
                have.add(e.func.attr)
        if "isdecimal" in have or ("isascii" in have and ("isdigit" in have or "isnumeric" in have)):
            return True, f"guarded by {sorted(have)}"
        if "isdigit" in have:
            return False, ("guarded by str.isdigit() only: '\\u00b2'.isdigit() is True but int('\\u00b2') raises ValueError "
                           "(pointer bytes c2 b2 make refresh() raise)")
        return False, "unguarded int() of pointer text"
    return False, "int() of a non-variable"


def r1(ctx: Ctx) -> None:
    ctx.rule("C10.R1", "pointer parse is total and strict: nothing escapes _parse_hint_content; non-None results are names in the "
             "language of the anchored metadata regex", 4)
    f = ctx.fn(MM + "._parse_hint_content")
    g = ctx.cfg(f)
    reach = g.reachable()
    bad: List[str] = []
    n_checked = 0
    for n in g.nodes:
        if n.id not in reach or not n.may_raise:
            continue
        rs = set(ctx.eff.raises_at(f, n))
        if n.kind == "call" and n.callee is not None and n.callee.kind == "prim" and n.callee.name == "builtins.int":
            n_checked += 1
            ok, why = int_is_guarded(ctx, f, n)
            ctx.ob("C10.R1", f, "int() of pointer text cannot raise", n, ok, why)
            if ok:
                continue
            rs = {"ValueError"}
        if n.kind in ("stmt", "return", "branch") and not isinstance(n.ast, (ast.Import, ast.ImportFrom)):
            # tuple display / f-string building: not fallible here unless it subscripts
            if not any(isinstance(x, (ast.Subscript, ast.BinOp)) for x in ast.walk(n.ast)):  # type: ignore[arg-type]
                continue
        if not rs:
            continue
        esc, _ = ctx.eff.propagate(f, rs, n.frames, record=False)
        if esc:
            bad.append(f"{f.file}:{n.lineno} `{n.text[:60]}` may raise {sorted(esc)}")
    ctx.ob("C10.R1", f, "exception-escape set of the pointer parser is empty", None, not bad,
           "any pointer content (missing, empty, arbitrary bytes) parses to a pair or None - it never raises"
           + (f"; escaping: {bad}" if bad else ""), witness=bad or None)
    from .c03 import metadata_regex, regex_first_literal_and_anchors
    pat = metadata_regex(ctx)
    first, a0, a1 = regex_first_literal_and_anchors(pat)
    def _pair(v: Optional[ast.AST]) -> Optional[List[ast.AST]]:
        """(version, name) as a tuple display or as the two positional fields of a tuple-like record class of the package"""
        if isinstance(v, ast.Tuple) and len(v.elts) == 2:
            return list(v.elts)
        if isinstance(v, ast.Call) and len(v.args) == 2 and not v.keywords:
            d = dotted(v.func)
            ci = next((c for c in ctx.prog.classes.values() if c.module is f.module and c.name == d), None) if d else None
            if ci is not None and (ci.is_dataclass or any(b.rsplit(".", 1)[-1] == "NamedTuple" for b in ci.base_names)):
                return list(v.args)
        return None

    for r in [n for n in g.nodes if n.kind == "return" and n.id in reach]:
        for v, sat in resolve_value(ctx, f, r.ast.value, r.id):  # type: ignore[union-attr]
            if v is None or (isinstance(v, ast.Constant) and v.value is None):
                continue
            at = g.nodes[sat]
            pair = _pair(v)
            if pair is None:
                ctx.ob("C10.R1", f, "result is a (version, name) pair", r, False, "unexpected return shape")
                continue
            name = pair[1]
            ok = False
            why = ""
            folded = _fold_digits(ctx, f, name, at.id)
            if folded is None:
                # scenario: every variable known to be all digits here holds "7" - the name is then evaluated through format
                # strings, named pieces and small spelling helpers (nothing is run)
                from .common import concrete_eval, UNKNOWN
                digits = {e.func.value.id for pol, e, _fa in facts_at(ctx, f, at) if pol == "true" and isinstance(e, ast.Call)
                          and isinstance(e.func, ast.Attribute) and e.func.attr in ("isdigit", "isdecimal") and isinstance(e.func.value, ast.Name)}
                if digits:
                    v_ = concrete_eval(ctx, f, name, {d_: "7" for d_ in digits}, at.id)
                    folded = v_ if isinstance(v_, str) and v_ is not UNKNOWN else None
            if folded is not None:
                ok = re.match(pat, folded) is not None
                why = f"legacy digits -> {folded!r} matches the regex"
            elif isinstance(name, ast.Name):
                rd = ctx.rd(f)
                for pol, e, fat in facts_at(ctx, f, at):
                    if pol in ("true", "nonnull") and isinstance(e, ast.Call) and isinstance(e.func, ast.Attribute) \
                            and e.func.attr in ("match", "fullmatch") and "_METADATA_FILE_RE" in norm_text(e.func.value) \
                            and e.args and isinstance(e.args[0], ast.Name) and e.args[0].id == name.id \
                            and rd.reaching(fat, name.id) == rd.reaching(at.id, name.id):
                        ok = True
                        why = "returned under a successful match of the anchored regex"
            ctx.ob("C10.R1", f, "returned name is in the metadata-file language", at, ok and a0 and a1, why or "name not validated")


def r2(ctx: Ctx) -> None:
    ctx.rule("C10.R2", "trust only an existing target: the hinted pair is returned only under exists(<its file>); otherwise recovery", 2)
    f = ctx.fn(MM + "._current_version_info")
    g = ctx.cfg(f)
    sl = ctx.slicer(f)
    rets = [n for n in g.nodes if n.kind == "return" and n.id in g.reachable()]
    hint_calls = [n for n in g.calls() if any(t.name == "_read_version_hint" for t in ctx.eff.callees(f, n))]
    if not hint_calls:  # the pointer is read and parsed in place
        hint_calls = [n for n in g.calls() if any(t.name == "_parse_hint_content" for t in ctx.eff.callees(f, n))]
    rec_calls = [n for n in g.calls() if any(t.name == "_recover_version_from_files" for t in ctx.eff.callees(f, n))]
    if not hint_calls or not rec_calls:
        raise AnalysisError("_current_version_info anchors vanished")
    for r in rets:
        org = sl.origins(r.ast.value, r.id)  # type: ignore[union-attr]
        from_hint = hint_calls[0].ast in org["calls"]
        from_rec = any(rc.ast in org["calls"] for rc in rec_calls)
        if from_rec and not from_hint:
            ctx.ob("C10.R2", f, "fallback returns the recovery result", r, True, "recovery by scanning metadata files")
            continue
        ok = False
        for b in [b for b in g.nodes if b.kind == "branch" and "exists" in b.text]:
            t, fl = edge_target(g, b, "true"), edge_target(g, b, "false")
            call = next((c for c in g.calls() if c.stmt is b.stmt and ctx.eff.storage_op(c) == "exists"), None)
            if call is None:
                continue
            po = sl.origins(path_arg(call), call.id)
            names_hint = hint_calls[0].ast in po["calls"]
            if t is not None and r.id in reachable_from(g, t, NORMAL) and (fl is None or r.id not in reachable_from(g, fl, NORMAL)) and names_hint:
                ok = True
        for pol, e, _at in facts_at(ctx, f, r):  # the existence test kept in a flag / conjunction
            if pol != "true" or not isinstance(e, ast.Call):
                continue
            call = next((c for c in g.calls() if c.ast is e and ctx.eff.storage_op(c) == "exists"), None)
            if call is not None and hint_calls[0].ast in sl.origins(path_arg(call), call.id)["calls"]:
                ok = True
        ctx.ob("C10.R2", f, "hinted pair returned only if its file exists", r, ok,
               "a pointer naming a missing file (stale / foreign) is ignored and recovery runs")


def r4(ctx: Ctx, rid: str) -> None:
    ctx.rule(rid, "no fail-open resolution: on the call tree of _current_version_info no handler converts a storage failure "
             "into 'no table' (None); only the same-version mtime tie-break may default", 2)
    root = ctx.fn(MM + "._current_version_info")
    fns = {root.qname: root}
    for f, n, _c in ctx.eff.transitive_calls(root):
        for t in ctx.eff.callees(f, n):
            if t.module.short == "metadata_manager":
                fns.setdefault(t.qname, t)
    n_h = 0
    for f in sorted(fns.values(), key=lambda x: x.qname):
        for hn in handler_nodes(ctx, f):
            ops = sorted({ctx.eff.storage_op(c) for c in try_body_calls(ctx, f, hn.stmt) if ctx.eff.storage_op(c)})
            if not ops:
                continue
            n_h += 1
            ex = handler_exits(ctx, f, hn)
            swallow = bool(ex["fallthrough"] or ex["return"] or ex["loop"])
            if ops == ["get_modified_time"]:
                ctx.ob(rid, f, f"handler guarding {ops}", hn, True,
                       "allow-listed: mtime only breaks ties among same-version files", text=",".join(handler_classes(hn.ast)))  # type: ignore[arg-type]
                continue
            ctx.ob(rid, f, f"handler guarding {ops}", hn, not swallow,
                   "a listing/read failure while resolving the version must propagate: answering None makes Table.__init__ "
                   "treat an existing table as uninitialised (create_table re-initialises over it; scan() of a non-empty "
                   "table returns [])", text=",".join(handler_classes(hn.ast)))  # type: ignore[arg-type]
    ctx.ob(rid, root, "resolution call tree enumerated", None, len(fns) >= 3, f"{len(fns)} functions, {n_h} storage-guarding handlers",
           nontrivial=False)
    # Table.__init__ / load_table read refresh() is None as 'no table'
    ti = ctx.fn("transaction.Table.__init__")
    ctx.ob(rid, ti, "Table.__init__ initialises when refresh() is None (why fail-open matters)", None,
           any(known_null_call(ctx, ti, c, "refresh") for c in ctx.calls(ti, name="_initialize_table")), "", nontrivial=False)


def r5(ctx: Ctx) -> None:
    ctx.rule("C10.R5", "a clean failure leaves no uncommitted version behind: after the metadata-file write every "
             "known-not-committed exceptional exit deletes that file (ambiguous outcomes keep it)", 2)
    from .c01 import commit_point_call
    for q, only in ((MM + ".commit", None), (MM + ".initialize_table", "CASConflictError")):
        f = ctx.fn(q)
        g = ctx.cfg(f)
        mw = ctx.calls(f, name="_write_metadata_file")
        if not mw:
            raise AnalysisError(f"_write_metadata_file vanished from {q}")
        m0 = mw[0]
        mpath = names_in(path_arg(m0))
        region = [n for n in g.nodes if n.id in reachable_from(g, m0.id, NORMAL) and n.id != m0.id and n.may_raise]
        # (the best-effort cleanup itself may fail - that is what "best effort" means; it is not an exit to be cleaned up after)
        from .common import same_value as _same
        region = [n for n in region if not (ctx.eff.storage_op(n) == "delete_file" and (names_in(path_arg(n)) & mpath
                                                                                       or _same(ctx, f, path_arg(n), n.id, path_arg(m0), m0.id)))]
        bad: List[str] = []
        n_exits = 0
        for n in region:
            rs = set(ctx.eff.raises_at(f, n))
            if only is not None:
                if only not in rs:
                    continue
                rs = {only}
            rs.discard("AmbiguousCommitError")
            if not rs:
                continue
            # a post-commit-point statement cannot raise (C04.R2): only look at nodes up to the commit point(s)
            for c in sorted(rs):
                n_exits += 1
                # walk the frames: first handler that catches c (fully or partially)
                cleaned = False
                live = True
                caught_by: List[ast.ExceptHandler] = []
                for fr in reversed(n.frames):
                    if fr.kind != "try" or fr.part != "body":
                        continue
                    for h in fr.node.handlers:  # type: ignore[attr-defined]
                        hcs = handler_classes(h)
                        full = any(ctx.prog.exc_is_subclass(c, hc) for hc in hcs)
                        part = any(ctx.prog.exc_is_subclass(hc, c) for hc in hcs)
                        if not (full or part):
                            continue
                        from .common import same_value
                        dels = [d for d in ctx.calls(f, storage="delete_file") if in_handler(d, h)
                                and (names_in(path_arg(d)) & mpath or same_value(ctx, f, path_arg(d), d.id, path_arg(m0), m0.id))]
                        if dels and full:
                            cleaned = True
                        elif dels:
                            pass  # cleans up only the sub-classes it names: the rest of `c` travels on outward
                        elif set(hcs) <= {"AmbiguousCommitError"}:
                            pass  # ambiguous: file must stay
                        elif full:
                            # caught by a handler without cleanup: does it re-raise to an outer cleaning handler?
                            pass
                        if full:
                            # caught without cleanup: a handler that only re-raises hands the error on to the `finally` of
                            # the same try - a cleanup there under `not <flag>` runs when this handler leaves the flag alone
                            caught_by.append(h)
                            live = False
                            break
                    # flag form: `finally: if not keep: delete(path)` on the try the exception leaves through
                    fin = getattr(fr.node, "finalbody", None)
                    if not cleaned and fin:
                        from .common import same_value as _sv
                        fdels = [d for d in ctx.calls(f, storage="delete_file")
                                 if any(x.kind == "try" and x.node is fr.node and x.part == "final" for x in d.frames)
                                 and (names_in(path_arg(d)) & mpath or _sv(ctx, f, path_arg(d), d.id, path_arg(m0), m0.id))]
                        flags_ = set()
                        for d in fdels:
                            for pol_, e_, _a in facts_at(ctx, f, d):
                                if pol_ == "false" and isinstance(e_, ast.Name):
                                    flags_.add(e_.id)
                                if pol_ == "true" and isinstance(e_, ast.UnaryOp) and isinstance(e_.op, ast.Not) and isinstance(e_.operand, ast.Name):
                                    flags_.add(e_.operand.id)
                        if fdels and flags_:
                            hs_here = [h_ for h_ in caught_by if h_ in fr.node.handlers]  # type: ignore[attr-defined]
                            sets_in_h = [x for x in g.nodes if x.kind == "stmt" and isinstance(x.ast, ast.Assign)
                                         and any(isinstance(tg, ast.Name) and tg.id in flags_ for tg in x.ast.targets)
                                         and not (isinstance(x.ast.value, ast.Constant) and x.ast.value.value is False)
                                         and any(in_handler(x, h_) for h_ in hs_here)]
                            ndom = ctx.dom(f, NORMAL)
                            set_before = [x for x in g.nodes if x.kind == "stmt" and isinstance(x.ast, ast.Assign)
                                          and any(isinstance(tg, ast.Name) and tg.id in flags_ for tg in x.ast.targets)
                                          and not (isinstance(x.ast.value, ast.Constant) and x.ast.value.value is False)
                                          and x.id in ndom.get(n.id, set())]
                            if not sets_in_h and not set_before:
                                cleaned = True
                    if cleaned or not live:
                        break
                if not cleaned:
                    bad.append(f"{f.file}:{n.lineno} `{n.text[:70]}` raising {c} leaves {sorted(mpath)} on disk")
        ctx.ob("C10.R5", f, "not-committed exits after the metadata write clean it up", m0, not bad and n_exits > 0,
               f"{n_exits} exceptional exit class(es) examined after `{m0.text[:50]}`: a leftover v<N+1> file is what hint-less "
               "recovery picks (highest version), surfacing a version whose data files were rolled back",
               witness=bad[:8] or None)


def r11(ctx: Ctx, rid: str = "C10.R11") -> None:
    ctx.rule(rid, "versions are ordered as integers: the version group captured by the metadata-file regex is used only as the "
             "direct argument of int() (or in messages) - never stored, compared or max()-ed as text ('v9' > 'v10')", 1)
    n_sites = 0
    for m in sorted((x for x in package_functions(ctx, ["metadata_manager"]) if x.parent is None), key=lambda x: x.qname):
        parents = {}
        for p in ast.walk(m.node):
            for c in ast.iter_child_nodes(p):
                parents[id(c)] = p
        # match variables of the metadata regex
        mvars = {t.id for x in ast.walk(m.node) if isinstance(x, ast.Assign) and "_METADATA_FILE_RE" in norm_text(x.value)
                 and isinstance(x.value, ast.Call) for t in x.targets if isinstance(t, ast.Name)}
        if not mvars:
            continue

        def is_msg(node: ast.AST) -> bool:
            p = parents.get(id(node))
            while p is not None and not isinstance(p, ast.stmt):
                if isinstance(p, (ast.JoinedStr, ast.FormattedValue)):
                    return True
                p = parents.get(id(p))
            return False

        def ok_use(node: ast.AST) -> bool:
            p = parents.get(id(node))
            return (isinstance(p, ast.Call) and isinstance(p.func, ast.Name) and p.func.id == "int" and p.args and p.args[0] is node) \
                or is_msg(node)

        for x in ast.walk(m.node):
            if isinstance(x, ast.Call) and isinstance(x.func, ast.Attribute) and x.func.attr in ("group", "groups") \
                    and isinstance(x.func.value, ast.Name) and x.func.value.id in mvars:
                n_sites += 1
                good = ok_use(x)
                p = parents.get(id(x))
                alias = None
                if not good and isinstance(p, ast.Assign) and len(p.targets) == 1 and isinstance(p.targets[0], ast.Name) and p.value is x:
                    alias = p.targets[0].id
                    uses = [u for u in ast.walk(m.node) if isinstance(u, ast.Name) and u.id == alias and isinstance(u.ctx, ast.Load)]
                    good = bool(uses) and all(ok_use(u) for u in uses)
                ctx.ob(rid, m, "captured version text is converted with int() before any other use", None, good,
                       f"`{norm_text(x)}`" + (f" via `{alias}`" if alias else "") + ": a version kept as text orders lexicographically "
                       "- recovery then resolves a table with >= 10 versions to v9 and the next commit forks history",
                       text=norm_text(x), line=x.lineno)
    if n_sites < 1:  # (one shared helper `_metadata_file_version(name)` is a legitimate single site)
        raise AnalysisError(f"only {n_sites} uses of the metadata-file regex's version group found")
    # ... and nothing TEXTUAL decides which candidate is the latest: no `<` / `>` / max / min / sorted over file names, regex
    # groups or tuples that start with one ('v9-...' > 'v10-...')
    for m in sorted((x for x in package_functions(ctx, ["metadata_manager"]) if x.parent is None), key=lambda x: x.qname):
        g = ctx.cfg(m)
        if "_METADATA_FILE_RE" not in norm_text(m.node)[:100000] and not any(
                isinstance(x, ast.Name) and x.id == "_METADATA_FILE_RE" for x in ast.walk(m.node)) and not any(
                n_.ast is not None and n_.kind in ("stmt", "call", "branch") and any(isinstance(x, ast.Name) and x.id == "_METADATA_FILE_RE" for x in ast.walk(n_.ast))
                for n_ in g.nodes):  # (a helper analysed in place may hold the match)
            continue
        rd = ctx.rd(m)

        def is_text(e: Optional[ast.AST], at: int, depth: int = 0) -> bool:
            if e is None or depth > 6:
                return False
            if isinstance(e, ast.Constant):
                return isinstance(e.value, str)
            if isinstance(e, ast.JoinedStr):
                return True
            if isinstance(e, ast.Call):
                fn = dotted(e.func) or (e.func.attr if isinstance(e.func, ast.Attribute) else "")
                leaf = fn.split(".")[-1]
                if leaf in ("int", "float", "len", "get_modified_time", "getmtime", "time"):
                    return False
                if leaf in ("replace", "rsplit", "split", "strip", "lstrip", "rstrip", "lower", "upper", "group", "basename", "join", "format",
                            "str", "decode", "rpartition", "partition", "removeprefix", "removesuffix"):
                    return True
                return False
            if isinstance(e, ast.Subscript):
                if isinstance(e.value, ast.Name) and isinstance(e.slice, ast.Constant) and isinstance(e.slice.value, int):
                    defs = rd.reaching(at, e.value.id)
                    tup = [g.nodes[d].ast.value for d in defs if d != g.entry and isinstance(g.nodes[d].ast, ast.Assign)
                           and isinstance(g.nodes[d].ast.value, ast.Tuple)]
                    if tup and len(tup) == len([d for d in defs if d != g.entry and not (isinstance(g.nodes[d].ast, ast.Assign)
                                                and isinstance(g.nodes[d].ast.value, ast.Constant))]):
                        i = e.slice.value
                        return any(-len(t.elts) <= i < len(t.elts) and is_text(t.elts[i], at, depth + 1) for t in tup)
                return is_text(e.value, at, depth + 1)
            if isinstance(e, ast.Name):
                defs = rd.reaching(at, e.id)
                for d in defs:
                    dn = g.nodes[d]
                    if d == g.entry:
                        continue
                    if dn.kind == "loop" and isinstance(dn.ast, ast.For):
                        tg, it = dn.ast.target, dn.ast.iter
                        if isinstance(it, ast.Call) and id(it) in g.inline_returns:
                            # `for version, name in self._candidates(files):` with the helper analysed in place: the list it returns
                            rn = {e_.id for e_, _n in g.inline_returns[id(it)] if isinstance(e_, ast.Name)}
                            if len(rn) == 1 and len(rn) == len(g.inline_returns[id(it)]):
                                it = ast.Name(id=next(iter(rn)), ctx=ast.Load())
                        if isinstance(tg, (ast.Tuple, ast.List)) and isinstance(it, ast.Name):
                            # `for version, name in candidates:` over a local list of tuples built in this function: the
                            # element's kind is the kind of what was appended
                            idx = next((i for i, t in enumerate(tg.elts) if isinstance(t, ast.Name) and t.id == e.id), None)
                            rows = [x.args[0] for nn_ in g.nodes if nn_.ast is not None and nn_.kind in ("stmt", "call") for x in ast.walk(nn_.ast)
                                    if isinstance(x, ast.Call) and isinstance(x.func, ast.Attribute)
                                    and x.func.attr == "append" and isinstance(x.func.value, ast.Name)
                                    and re.sub(r"__i\d+$", "", x.func.value.id) == re.sub(r"__i\d+$", "", it.id) and len(x.args) == 1]
                            rows = list({id(r_): r_ for r_ in rows}.values())
                            rows += [x.value.elt for x in ast.walk(m.node) if isinstance(x, ast.Assign) and len(x.targets) == 1
                                     and isinstance(x.targets[0], ast.Name) and x.targets[0].id == it.id
                                     and isinstance(x.value, (ast.ListComp, ast.GeneratorExp))]
                            hosts = {id(x): nn.id for nn in g.nodes if nn.ast is not None and nn.kind in ("stmt", "call") for x in ast.walk(nn.ast)}
                            if idx is not None and rows and all(isinstance(r_, ast.Tuple) and len(r_.elts) == len(tg.elts) for r_ in rows):
                                if any(is_text(r_.elts[idx], hosts.get(id(r_), at), depth + 1) for r_ in rows):
                                    return True
                                continue
                        return True  # an element of the listing
                    if isinstance(dn.ast, ast.Assign) and len(dn.ast.targets) == 1 and isinstance(dn.ast.targets[0], ast.Name) \
                            and is_text(dn.ast.value, d, depth + 1):
                        return True
                    if isinstance(dn.ast, ast.Assign) and len(dn.ast.targets) == 1 and isinstance(dn.ast.targets[0], (ast.Tuple, ast.List)) \
                            and isinstance(dn.ast.value, ast.Call) and isinstance(dn.ast.value.func, ast.Attribute) \
                            and dn.ast.value.func.attr in ("rpartition", "partition", "rsplit", "split", "splitext"):
                        return True  # `parent, _, basename = path.rpartition("/")`: pieces of a path
                    if isinstance(dn.ast, ast.For):
                        return True
                return False
            if isinstance(e, ast.Tuple):
                return bool(e.elts) and is_text(e.elts[0], at, depth + 1)
            if isinstance(e, ast.BinOp) and isinstance(e.op, ast.Add):
                return is_text(e.left, at, depth + 1) or is_text(e.right, at, depth + 1)
            return False

        bad = []
        for n in g.nodes:
            if n.ast is None or n.id not in g.reachable():
                continue
            exprs = [n.ast] if n.kind == "branch" else ([n.ast] if n.kind in ("stmt", "return") else [])
            for root in exprs:
                for x in ast.walk(root):
                    if isinstance(x, ast.Compare) and any(isinstance(o, (ast.Lt, ast.Gt, ast.LtE, ast.GtE)) for o in x.ops):
                        if any(is_text(y, n.id) for y in [x.left] + list(x.comparators)):
                            bad.append((n, norm_text(x)[:60]))
                    if isinstance(x, ast.Call) and isinstance(x.func, ast.Name) and x.func.id in ("max", "min", "sorted") and x.args:
                        a0 = x.args[0]
                        keyf = next((k.value for k in x.keywords if k.arg == "key"), None)
                        elt = a0.elt if isinstance(a0, (ast.GeneratorExp, ast.ListComp)) else None
                        if keyf is not None and isinstance(keyf, ast.Lambda):
                            if is_text(keyf.body, n.id) or (isinstance(keyf.body, ast.Tuple) and keyf.body.elts and is_text(keyf.body.elts[0], n.id)):
                                bad.append((n, norm_text(x)[:60]))
                        elif keyf is None:
                            if elt is not None and is_text(elt, n.id):
                                bad.append((n, norm_text(x)[:60]))
                            elif elt is None and is_text(a0, n.id) and len(x.args) == 1:
                                pass
                            elif elt is None and len(x.args) > 1 and any(is_text(y, n.id) for y in x.args):
                                bad.append((n, norm_text(x)[:60]))
                            elif elt is None and isinstance(a0, ast.Name):
                                # a list of candidates built by append: what is appended?
                                apps = [c for c in g.calls() if isinstance(c.ast, ast.Call) and isinstance(c.ast.func, ast.Attribute)
                                        and c.ast.func.attr == "append" and isinstance(c.ast.func.value, ast.Name) and c.ast.func.value.id == a0.id and c.ast.args]
                                if any(is_text(c.ast.args[0], c.id) for c in apps):
                                    bad.append((n, norm_text(x)[:60]))
        # a tie between files of ONE version is broken by modification time, never by the (random) file name: in every
        # max / min / sorted over candidate tuples / records, no text component is compared before the mtime component
        for n in g.nodes:
            if n.ast is None or n.id not in g.reachable() or n.kind not in ("stmt", "return", "branch"):
                continue
            for x in ast.walk(n.ast):
                if not (isinstance(x, ast.Call) and isinstance(x.func, ast.Name) and x.func.id in ("max", "min", "sorted") and x.args
                        and isinstance(x.args[0], ast.Name)):
                    continue
                lst = x.args[0].id
                rows = []
                for c in g.calls():
                    a = c.ast
                    if isinstance(a, ast.Call) and isinstance(a.func, ast.Attribute) and a.func.attr == "append" and isinstance(a.func.value, ast.Name) \
                            and a.func.value.id == lst and a.args:
                        for src, sat in resolve_value(ctx, m, a.args[0], c.id):
                            if isinstance(src, ast.Tuple):
                                rows.append((list(src.elts), sat))
                            elif isinstance(src, ast.Call) and not src.keywords and len(src.args) >= 2 and (dotted(src.func) or "")[:1] in "_ABCDEFGHIJKLMNOPQRSTUVWXYZ":
                                rows.append((list(src.args), sat))  # a record constructed positionally: fields compare in this order
                for d_ in g.nodes:
                    if d_.kind == "stmt" and isinstance(d_.ast, ast.Assign) and len(d_.ast.targets) == 1 and isinstance(d_.ast.targets[0], ast.Name) \
                            and d_.ast.targets[0].id == lst and isinstance(d_.ast.value, (ast.ListComp, ast.GeneratorExp)):
                        el = d_.ast.value.elt
                        if isinstance(el, ast.Tuple):
                            rows.append((list(el.elts), d_.id))
                        elif isinstance(el, ast.Call) and not el.keywords and len(el.args) >= 2 and (dotted(el.func) or "")[:1] in "_ABCDEFGHIJKLMNOPQRSTUVWXYZ":
                            rows.append((list(el.args), d_.id))
                if not rows:
                    continue
                keyf = next((k.value for k in x.keywords if k.arg == "key"), None)
                if isinstance(keyf, ast.Name) and keyf.id in m.module.consts:
                    keyf = m.module.consts[keyf.id]
                pos = None
                if keyf is None:
                    pos = list(range(min(len(r_) for r_, _s in rows)))
                elif isinstance(keyf, ast.Call) and (dotted(keyf.func) or "").split(".")[-1] == "itemgetter" \
                        and all(isinstance(a_, ast.Constant) and isinstance(a_.value, int) for a_ in keyf.args):
                    pos = [a_.value for a_ in keyf.args]  # type: ignore[union-attr]
                if pos is None:
                    continue
                def _comp_text(e_: ast.AST) -> bool:
                    """a comprehension variable unpacked from a local list of tuples: the kind of what was appended there"""
                    if not isinstance(e_, ast.Name):
                        return False
                    for comp in [y for y in ast.walk(m.node) if isinstance(y, ast.comprehension)]:
                        tg = comp.target
                        if isinstance(tg, (ast.Tuple, ast.List)) and isinstance(comp.iter, ast.Name):
                            idx = next((i for i, t in enumerate(tg.elts) if isinstance(t, ast.Name) and t.id == e_.id), None)
                            if idx is None:
                                continue
                            for c2 in g.calls():
                                a2 = c2.ast
                                if isinstance(a2, ast.Call) and isinstance(a2.func, ast.Attribute) and a2.func.attr == "append" \
                                        and isinstance(a2.func.value, ast.Name) and re.sub(r"__i\d+$", "", a2.func.value.id) == comp.iter.id and a2.args \
                                        and isinstance(a2.args[0], ast.Tuple) and idx < len(a2.args[0].elts) and is_text(a2.args[0].elts[idx], c2.id):
                                    return True
                    return False

                for elts, sat in rows:
                    kinds = []
                    for i_ in pos:
                        if i_ >= len(elts):
                            continue
                        e_ = elts[i_]
                        is_mt = "mtime" in norm_text(e_).lower() or "modified" in norm_text(e_).lower()
                        kinds.append("mtime" if is_mt else ("text" if (is_text(e_, sat) or _comp_text(e_)) else "num"))
                    if "text" in kinds and ("mtime" not in kinds or kinds.index("text") < kinds.index("mtime")):
                        bad.append((n, norm_text(x)[:60] + " [compares " + "/".join(kinds) + "]"))
        seen_txt = set()
        for n, txt in bad:
            if txt in seen_txt:
                continue
            seen_txt.add(txt)
            ctx.ob(rid, m, "the latest version is chosen by integer order, never by text", n, False,
                   f"`{txt}` orders file names / version text: 'v9-...' sorts above 'v10-...', so a table with >= 10 versions and a lost "
                   "pointer resolves to v9", text=txt)
        if not bad:
            ctx.ob(rid, m, "the latest version is chosen by integer order, never by text", None, True, "no ordering over text", text="order")


def r12(ctx: Ctx, rid: str = "C10.R12") -> None:
    ctx.rule(rid, "version 0 is a version: no branch tests a version NUMBER for truthiness (`if not latest`) - absence is tested "
             "with `is None`", 1)
    mm = ctx.prog.cls(MM)
    n_fn = 0
    for m in mm.methods.values():
        g = ctx.cfg(m)
        rd = ctx.rd(m)
        sl = ctx.slicer(m)

        def is_int_version(e: ast.AST, at: int, depth: int = 0) -> bool:
            if depth > 5:
                return False
            if isinstance(e, ast.Call) and isinstance(e.func, ast.Name) and e.func.id == "int":
                return any(isinstance(c, ast.Call) and isinstance(c.func, ast.Attribute) and c.func.attr == "group" for c in ast.walk(e))
            if isinstance(e, ast.Call) and isinstance(e.func, ast.Name) and e.func.id in ("max", "min"):
                # max over version numbers: the slice of its arguments leads to int(<regex group>) and is not a tuple display
                org = sl.origins(e, at)
                has_int = any(isinstance(c, ast.Call) and isinstance(c.func, ast.Name) and c.func.id == "int"
                              and any(isinstance(x, ast.Call) and isinstance(x.func, ast.Attribute) and x.func.attr == "group" for x in ast.walk(c))
                              for c in org["calls"])
                elt = e.args[0].elt if e.args and isinstance(e.args[0], (ast.GeneratorExp, ast.ListComp)) else None
                return has_int and (elt is None or not isinstance(elt, (ast.Tuple, ast.List)))
            if isinstance(e, ast.IfExp):
                return is_int_version(e.body, at, depth + 1) or is_int_version(e.orelse, at, depth + 1)
            if isinstance(e, ast.Name):
                for d in rd.reaching(at, e.id):
                    dn = g.nodes[d]
                    if d != g.entry and isinstance(dn.ast, ast.Assign) and len(dn.ast.targets) == 1 and isinstance(dn.ast.targets[0], ast.Name) \
                            and is_int_version(dn.ast.value, d, depth + 1):
                        return True
            return False

        brs = [b for b in g.nodes if b.kind == "branch" and b.id in g.reachable() and isinstance(b.ast, ast.Name)]
        if brs:
            n_fn += 1
        for b in brs:
            if is_int_version(b.ast, b.id):
                ctx.ob(rid, m, "a version number is tested with `is None`, not for truthiness", b, False,
                       f"`{b.text}` holds a version number parsed from a metadata file name: version 0 (a table that was created "
                       "but not yet committed to) is falsy, so recovery answers 'no metadata files' and the table is re-initialised "
                       "over / reported missing")
    ctx.ob(rid, mm.methods["refresh"], "truthiness tests in the manager examined", None, n_fn > 0, f"{n_fn} functions with truthiness branches",
           nontrivial=False)


def mtime_is_untruncated(ctx: Ctx, rid: str = "C10.R20") -> None:
    ctx.rule(rid, "recovery's tie-break sees the real modification time: LocalStorageBackend.get_modified_time returns "
             "os.path.getmtime(...) / os.stat(...).st_mtime as it is - no int() / round() / floor / `//` around it (two metadata "
             "files of one version written within the same second would tie, and the listing order - not the commit - would "
             "decide which one hint-less recovery resolves)", 1)
    f = ctx.fn("storage_backend.LocalStorageBackend.get_modified_time")
    n = 0
    for r, v in effective_returns(ctx, f):
        for src, at in resolve_value(ctx, f, v, r.id):
            n += 1
            plain = (isinstance(src, ast.Call) and (dotted(src.func) or "").split(".")[-1] in ("getmtime",)) or \
                (isinstance(src, ast.Attribute) and src.attr in ("st_mtime", "st_mtime_ns")) or \
                (isinstance(src, ast.Call) and isinstance(src.func, ast.Name) and src.func.id == "float" and len(src.args) == 1 and (
                    (isinstance(src.args[0], ast.Call) and (dotted(src.args[0].func) or "").split(".")[-1] == "getmtime")
                    or (isinstance(src.args[0], ast.Attribute) and src.args[0].attr == "st_mtime")))
            ctx.ob(rid, f, "the modification time is returned untruncated", r, plain,
                   "os.path.getmtime as is" if plain else f"`{norm_text(src)[:60] if src is not None else None}` coarsens / transforms the mtime")
    if n == 0:
        raise AnalysisError("LocalStorageBackend.get_modified_time returns nothing")


def pointer_publishes_fresh_version(ctx: Ctx, rid: str = "C10.R15") -> None:
    ctx.rule(rid, "the pointer only ever moves to the version just written: the name every pointer write publishes comes from "
             "_new_metadata_filename(...) in the same function (or from the caller, who is checked the same way) - never from "
             "the metadata log, a listing or an older version (hint-less recovery picks the HIGHEST version on disk: after a "
             "re-published old version the table's state depends on the pointer alone)", 3)
    from .common import hint_write_nodes, hint_writers
    writers = hint_writers(ctx)
    wq = {w.qname for w in writers}

    def judge(f: FunctionInfo, n: Node, value: Optional[ast.AST], what: str) -> None:
        org = ctx.slicer(f).origins(value, n.id) if value is not None else {"calls": set(), "params": set()}
        fresh = any(isinstance(c, ast.Call) and (dotted(c.func) or "").split(".")[-1] == "_new_metadata_filename" for c in org["calls"])
        via_param = bool(org["params"] - {"self"}) and f.qname in wq and bool(ctx.eff.call_sites.get(f.qname))
        # ... and it is the BARE name the pointer parser understands, not a path / decorated string built around it
        def bare(e: Optional[ast.AST], at: int, depth: int = 0) -> bool:
            if e is None or depth > 5:
                return False
            if isinstance(e, ast.Call) and isinstance(e.func, ast.Attribute) and e.func.attr in ("encode", "strip") :
                return bare(e.func.value, at, depth + 1)
            if isinstance(e, ast.Call) and isinstance(e.func, ast.Name) and e.func.id in ("str", "bytes") and e.args:
                return bare(e.args[0], at, depth + 1)
            if isinstance(e, ast.Call):
                return (dotted(e.func) or "").split(".")[-1] == "_new_metadata_filename"
            if isinstance(e, ast.Name):
                if any(p_.name == e.id for p_ in f.params) and ctx.cfg(f).entry in ctx.rd(f).reaching(at, e.id):
                    return True
                srcs = resolve_value(ctx, f, e, at)
                return bool(srcs) and all(x is not e and bare(x, a, depth + 1) for x, a in srcs)
            return False
        if (fresh or via_param) and what == "pointer content" and value is not None and not bare(value, n.id):
            ctx.ob(rid, f, what + " is the bare file name", n, False,
                   f"`{norm_text(value)[:60]}` is not the plain name returned by _new_metadata_filename: the pointer parser rejects a "
                   "decorated / path-prefixed name and every reader silently falls back to 'highest version on disk' - which during a "
                   "commit is the writer's not-yet-committed file")
        ctx.ob(rid, f, what, n, fresh or via_param,
               "publishes the file this function just named with _new_metadata_filename" if fresh else
               ("publishes the name its caller passes (callers are checked)" if via_param else
                "the published name is not a freshly allocated version: the pointer can move to an OLD version while newer ones stay "
                "on disk - losing the pointer then resurrects them"))

    for w in writers:
        for n in hint_write_nodes(ctx, w):
            val = n.ast.args[1] if isinstance(n.ast, ast.Call) and len(n.ast.args) > 1 else kwarg(n.ast, "content") or kwarg(n.ast, "data")
            judge(w, n, val, "pointer content")
        for caller, n in ctx.eff.call_sites.get(w.qname, []):
            if caller.qname in wq or not isinstance(n.ast, ast.Call):
                continue
            if judged_in_callers(ctx, caller):
                continue  # a helper introduced later: its copy analysed in place inside the known caller is judged there
            tg = ctx.eff.callees(caller, n)
            pn = next((p.name for p in w.params if p.name != "self"), None)
            if w.name == "initialize_table" or pn is None:
                continue  # takes no file name: allocates its own
            arg = ctx.eff.bind_arg(n.ast, w, pn, True)
            judge(caller, n, arg, f"name handed to {w.name}")


def r13(ctx: Ctx, rid: str = "C10.R13") -> None:
    ctx.rule(rid, "versions increase: the new metadata file is numbered <resolved current version> + 1; the constant start value "
             "is used only when no version could be resolved", 1)
    f = ctx.fn(MM + ".commit")
    g = ctx.cfg(f)
    sl = ctx.slicer(f)
    nf = ctx.calls(f, name="_new_metadata_filename")
    if not nf:
        raise AnalysisError("_new_metadata_filename vanished from MetadataManager.commit")
    for n in nf:
        arg = n.ast.args[0] if isinstance(n.ast, ast.Call) and n.ast.args else None
        org = sl.origins(arg, n.id)
        plus1 = [x for e in org["exprs"] | ({arg} if arg is not None else set()) for x in ast.walk(e)
                 if isinstance(x, ast.BinOp) and isinstance(x.op, ast.Add)
                 and any(isinstance(y, ast.Constant) and y.value == 1 for y in (x.left, x.right))]
        leafs = {(dotted(c.func) or "").split(".")[-1] for c in org["calls"] if isinstance(c, ast.Call)}
        # the FULL resolution: the resolver itself, or (analysed in place) the pointer parse together with the recovery scan - a
        # number taken from the pointer alone restarts at the constant when the pointer is lost
        resolved = "_current_version_info" in leafs or ({"_parse_hint_content", "_recover_version_from_files"} <= leafs) \
            or ({"_read_version_hint", "_recover_version_from_files"} <= leafs)
        ctx.ob(rid, f, "new version = resolved version + 1", n, bool(plus1) and resolved,
               "recovery without a pointer picks the highest version on disk: the numbering must follow the commit order")
        # constant definitions of the version variable are guarded by `<version> is None`
        vnames = {y.id for x in plus1 for y in (x.left, x.right) if isinstance(y, ast.Name)}
        for d in sorted(org["nodes"]):
            dn = g.nodes[d]
            if dn.kind == "stmt" and isinstance(dn.ast, ast.Assign) and len(dn.ast.targets) == 1 and isinstance(dn.ast.targets[0], ast.Name) \
                    and isinstance(dn.ast.value, ast.Constant) and isinstance(dn.ast.value.value, int) \
                    and not isinstance(dn.ast.value.value, bool):
                v = dn.ast.targets[0].id
                # the initial `= None` declaration is not an int constant; a second constant needs the null fact
                known_null = any(pol == "null" and isinstance(e, ast.Name) and e.id == v for pol, e, _at in facts_at(ctx, f, dn))
                if not known_null:
                    # the default-then-overwrite form: `v = 0` followed by `if <resolved> is not None: v, _ = <resolved>` - the
                    # constant reaches the numbering only along an edge that says the resolved version is None
                    def _targets(a_: ast.AST) -> Set[str]:
                        return {x.id for t_ in getattr(a_, "targets", []) for x in ast.walk(t_) if isinstance(x, ast.Name)}
                    kills = [k.id for k in g.nodes if k.id != d and k.kind == "stmt" and isinstance(k.ast, ast.Assign) and v in _targets(k.ast)]
                    null_edges: Set[Tuple[int, int]] = set()
                    for b in g.nodes:
                        if b.kind != "branch" or b.ast is None:
                            continue
                        t_ = b.ast
                        neg = False
                        while isinstance(t_, ast.UnaryOp) and isinstance(t_.op, ast.Not):
                            neg, t_ = not neg, t_.operand
                        x_ = None
                        lab = None
                        if isinstance(t_, ast.Compare) and len(t_.ops) == 1 and isinstance(t_.left, ast.Name) \
                                and isinstance(t_.comparators[0], ast.Constant) and t_.comparators[0].value is None \
                                and isinstance(t_.ops[0], (ast.Is, ast.IsNot)):
                            x_, lab = t_.left.id, isinstance(t_.ops[0], ast.Is) != neg
                        if x_ is None:
                            continue
                        bo = sl.origins(ast.Name(id=x_, ctx=ast.Load()), b.id)
                        if not any(isinstance(c, ast.Call) and (dotted(c.func) or "").split(".")[-1] in
                                   ("_current_version_info", "_parse_hint_content") for c in bo["calls"]):
                            continue
                        for dst, l_ in g.succ[b.id]:
                            if l_ == ("true" if lab else "false"):
                                null_edges.add((b.id, dst))
                    if null_edges and d != n.id:
                        w_ = find_path(g, d, [n.id], avoid=kills, labels=NORMAL, edge_ok=lambda s_, d_, l_: (s_, d_) not in null_edges)
                        known_null = w_ is None
                ctx.ob(rid, f, "the constant start version is used only when nothing was resolved", dn, known_null,
                       f"`{dn.text}` under `{v} is None`: an unconditional / inverted reset numbers every commit v1 - after a lost "
                       "pointer recovery can no longer tell the latest version from any other")


def r7(ctx: Ctx) -> None:
    ctx.rule("C10.R7", "version resolution is stateless: refresh / _current_version_info / _read_version_hint / "
             "_recover_version_from_files neither store to the manager nor answer from a remembered result", 1)
    mm = ctx.prog.cls(MM)
    names = ("refresh", "_current_version_info", "_read_version_hint", "_recover_version_from_files", "_parse_hint_content",
             "_read_metadata_file")
    bad = []
    init_attrs = set()
    init = mm.methods.get("__init__")
    if init is not None:
        for n in ast.walk(init.node):
            if isinstance(n, ast.Attribute) and isinstance(n.ctx, ast.Store) and isinstance(n.value, ast.Name) and n.value.id == "self":
                init_attrs.add(n.attr)
    for nm in names:
        m = mm.methods.get(nm)
        if m is None:
            continue
        for n in ast.walk(m.node):
            if isinstance(n, ast.Attribute) and isinstance(n.ctx, ast.Store) and isinstance(n.value, ast.Name) and n.value.id == "self":
                bad.append(f"{m.file}:{n.lineno} {nm} stores self.{n.attr}")
            if isinstance(n, ast.Attribute) and isinstance(n.ctx, ast.Load) and isinstance(n.value, ast.Name) and n.value.id == "self" \
                    and n.attr not in ("storage", "metadata_path", "table_path", "HINT_PATH", "_lock", "lock_provider") \
                    and n.attr not in mm.methods and n.attr not in mm.consts:
                bad.append(f"{m.file}:{n.lineno} {nm} answers from self.{n.attr}")
    ctx.ob("C10.R7", mm.methods["refresh"], "resolution reads the store every time", None, not bad,
           "a remembered recovery result ('the file still exists') is not the LATEST version once another handle commits: the stale "
           "handle resolves to a superseded version and its next commit overwrites committed data", witness=bad[:6] or None)


def writer_names_in_reader_language(ctx: Ctx, rid: str = "C10.R21") -> None:
    ctx.rule(rid, "writer and reader agree on the metadata-file language: the name _new_metadata_filename builds for version 3 "
             "(scenario: uuid4().hex = 32 hex digits; nothing is run) matches _METADATA_FILE_RE and the version group reads 3 - "
             "otherwise every pointer the committer writes is unparseable and recovery cannot see the files it lists", 1)
    from .common import concrete_eval, explore, UNKNOWN
    from .c03 import metadata_regex
    f = ctx.fn("metadata_manager.MetadataManager._new_metadata_filename")
    g = ctx.cfg(f)
    pn = next((p.name for p in f.params if p.name not in ("self", "cls")), None)
    if pn is None:
        raise AnalysisError("_new_metadata_filename takes no version parameter")
    rx = metadata_regex(ctx)
    for ver in (3, 12):
        env = {pn: ver, "uuid4().hex": "0a1b2c3d4e5f60718293a4b5c6d7e8f9"}
        names = set()
        for nid, store, _asm in explore(ctx, f, [g.entry], env, stop=[n.id for n in g.nodes if n.kind == "return"]):
            n = g.nodes[nid]
            if n.kind == "return" and n.ast is not None:
                scen = dict(env)
                scen.update({k: v for k, v in store.items() if isinstance(k, str)})
                names.add(concrete_eval(ctx, f, n.ast.value, scen, nid))  # type: ignore[union-attr]
        undecided = not names or any(v is UNKNOWN or not isinstance(v, str) for v in names)
        if undecided:
            ctx.ob(rid, f, f"the name written for version {ver} is in the reader's language", None, True,
                   "name expression not evaluable by the scenario evaluator (not judged)", nontrivial=False, text=str(ver))
            continue
        bad = []
        for nm in sorted(names):  # type: ignore[type-var]
            m = re.match(rx, nm)  # type: ignore[arg-type]
            grp = None
            if m is not None:
                try:
                    grp = m.group(1)
                except Exception:
                    grp = None
            if m is None or grp != str(ver):
                bad.append(nm)
        ctx.ob(rid, f, f"the name written for version {ver} is in the reader's language", None, not bad,
               f"{sorted(names)} vs {getattr(rx, 'pattern', rx)!r}" + (f": {bad} is not matched (or its version group is not {ver})" if bad else ""),
               text=str(ver))


def _scenario_names(ctx: Ctx, ver: int, hexes: Tuple[str, ...]) -> Optional[List[str]]:
    """The names _new_metadata_filename builds for `ver` under the scripted uuid4().hex values (nothing is run)."""
    from .common import concrete_eval, explore, UNKNOWN
    f = ctx.fn("metadata_manager.MetadataManager._new_metadata_filename")
    g = ctx.cfg(f)
    pn = next((p.name for p in f.params if p.name not in ("self", "cls")), None)
    if pn is None:
        return None
    out = []
    for hx in hexes:
        env = {pn: ver, "uuid4().hex": hx}
        names = set()
        for nid, store, _asm in explore(ctx, f, [g.entry], env, stop=[n.id for n in g.nodes if n.kind == "return"]):
            n = g.nodes[nid]
            if n.kind == "return" and n.ast is not None:
                scen = dict(env)
                scen.update({k: v for k, v in store.items() if isinstance(k, str)})
                names.add(concrete_eval(ctx, f, n.ast.value, scen, nid))  # type: ignore[union-attr]
        if len(names) != 1 or not isinstance(next(iter(names)), str):
            return None
        out.append(next(iter(names)))
    return out if len(set(out)) == len(out) else None


def recovery_tie_break_scenarios(ctx: Ctx, rid: str = "C10.R23") -> None:
    ctx.rule(rid, "hint-less recovery's choice does not depend on the listing order (scenario walk over "
             "_recover_version_from_files; the listing and the modification times are scripted, nothing is run): of two metadata "
             "files of ONE version - the leftover of a writer killed before its pointer flip and the commit that then took the "
             "number - the more recently modified one is resolved whichever is listed first, and a higher version wins over a "
             "newer file of a lower version", 1)
    from .common import concrete_eval, explore, UNKNOWN
    f = ctx.fn("metadata_manager.MetadataManager._recover_version_from_files")
    g = ctx.cfg(f)
    same = _scenario_names(ctx, 3, ("0a1b2c3d4e5f60718293a4b5c6d7e8f9", "ffeeddccbbaa99887766554433221100"))
    nxt = _scenario_names(ctx, 4, ("5566778899aabbccddeeff0011223344",))
    if same is None or nxt is None:
        ctx.ob(rid, f, "recovery scenarios", None, True, "_new_metadata_filename is not evaluable by the scenario evaluator (not judged)",
               nontrivial=False, text="names")
        return
    old, new = same
    scenarios = [
        ("one version, the older file listed first", (old, new), {old: 100.0, new: 200.0}, new),
        ("one version, the newer file listed first", (new, old), {old: 100.0, new: 200.0}, new),
        ("a higher version is older than a lower one, listed last", (new, nxt[0]), {new: 200.0, nxt[0]: 50.0}, nxt[0]),
        ("a higher version is older than a lower one, listed first", (nxt[0], new), {new: 200.0, nxt[0]: 50.0}, nxt[0]),
    ]
    rets = [n.id for n in g.nodes if n.kind == "return"]
    for dirname in ("metadata",):
        for what, order, mt, want in scenarios:
            env: Dict[str, object] = {"list_files()": tuple(f"{dirname}/{x}" for x in order),
                                      "get_modified_time()": {f"{dirname}/{k}": v for k, v in mt.items()},
                                      (f.self_name() or "self") + ".metadata_path": dirname}
            got = set()
            undecided = False
            for nid, store, _asm in explore(ctx, f, [g.entry], env, stop=rets, iterate=True):
                n = g.nodes[nid]
                if any(isinstance(k, tuple) and k[0] == "undecided" for k in store):
                    undecided = True
                if n.kind == "return" and n.ast is not None:
                    scen = dict(env)
                    scen.update({k: v for k, v in store.items() if isinstance(k, str)})
                    got.add(concrete_eval(ctx, f, n.ast.value, scen, nid) if n.ast.value is not None else None)  # type: ignore[union-attr]
            def _name(v: object) -> object:
                if isinstance(v, tuple) and len(v) == 2 and isinstance(v[1], str):
                    return v[1]
                return v
            names = {_name(v) for v in got}
            if undecided or not got or len(names) > 1 or any(v is UNKNOWN or not isinstance(v, str) for v in names):  # (several answers: the walk forked on a comparison it could not evaluate)
                ctx.ob(rid, f, f"recovery scenario: {what}", None, True,
                       "the scan is not evaluable by the scenario evaluator (not judged)", nontrivial=False, text=what)
                continue
            ok = names == {want}
            ctx.ob(rid, f, f"recovery scenario: {what}", None, ok,
                   f"listing {list(order)} with modification times {mt}: resolves {sorted(names)}" + (
                       "" if ok else f" - not {want}: which file of the pair hint-less recovery resolves depends on the order the store "
                       "lists them in; when the leftover of a killed writer comes first, a version that was never committed surfaces"),
                   text=what)
