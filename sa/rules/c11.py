"""C11 - accepted appends are exact; rejected ones leave no trace; scans keep working."""
from __future__ import annotations

import ast
from typing import Dict, List, Optional, Set, Tuple

from ..cfg import NORMAL, Node
from ..core import Ctx
from ..flow import ALL, find_path, names_in
from ..model import AnalysisError, FunctionInfo, dotted, norm_text
from .common import EnumVal, eval3, walk_all, facts_at, judged_in_callers, edge_target, kwarg, reachable_from, scenario_walk, str_consts

EXPLANATION = (
    "Static analysis of the append path: (R1) writer/validator agreement - the schema-field keys CONSUMED where they decide "
    "what is written or how it is later read (create_arrow_schema: name, type, required and list position; "
    "_compute_column_bounds / prune_files_by_bounds: id, name) are extracted from the AST and must be covered by the keys the "
    "validator's signature compares, and because concat_tables and the sibling validator (Schema.equals) are order-sensitive "
    "the signature must be an ordered sequence; (R2) dominance: validation precedes every side effect in append_data, "
    "write_data_file and append_files; (R3) the Arrow-schema cache key must determine the cached value; (R4) "
    "Schema.__post_init__ raises on a missing key, duplicate id, duplicate name, unknown primitive type; (R5) a failed commit "
    "cleans up (C04.R3)."
    ' Also: every call of the validator reaches the signature comparison (no memo); the file-level validator compares full Arrow schemas.'
    " R1 also evaluates the file-level format guard under the scenarios file_format = FileFormat.PARQUET and 'parquet' (the footer comparison must be reached) and rejects a signature returned as a dict (order-insensitive)."
    ' (R6) bounds written by an accepted append are lossless (C13.R4); (R7) create_table / load_table keep no handle registry and return the Table constructed in the call.'
    ' (R8) pre-built files must exist at append and at commit time; (R9) the record validator raises for unknown fields and for missing / None required fields.'
    " (R12) a value the declared type cannot represent is rejected: the strict validator raises for a float with a fractional part in an int / long / date / time / timestamp field (pyarrow's from_pylist would truncate it), decided by scenario evaluation of the validator's branches; every from_pylist / write_records of write_data_file runs after that validator for a non-empty batch [D18, fixed]."
    ' (R13) one conversion route: from_pylist(records, schema=...) only - no cast / schema-less rebuild in the write path.'
    " (R14) the Iceberg -> Arrow type table is exact (timestamp('us'), int32 / int64, ...); (R15) no one-shot iterable is consumed in a loop it was not created in."
    ' (R16) a zip-based pairwise comparison also compares the lengths; R12 requires the declared-type test to cover optional fields too.'
    ' R8: every file of a batch is checked (the per-file loop of append_files / its batch validator is left only when exhausted or by a raise); R2 reads a batch validator that loops over the files itself.'
    " R14 also checks that the writer's and the validator's tables agree: every type the Iceberg -> Arrow table maps to a whole-number Arrow type (integers, dates, times, timestamps with or without zone) is in the set the strict validator screens for fractional floats."
)
NOT_DECIDED = ("value-level round trip through Arrow/Parquet for every type and value class; 'mis-filter' in general; what "
               "pyarrow accepts for a declared type")

TX = "transaction.Transaction"
DFM = "data_operations.DataFileManager"


def check(ctx: Ctx) -> None:
    r1(ctx)
    r2(ctx)
    r3(ctx)
    r4(ctx)
    from .c04 import r3 as c04_r3
    c04_r3(ctx)
    for o in ctx.obs:
        if o.rule == "C04.R3":
            o.rule = "C11.R5"
    ctx.rule_text["C11.R5"] = ctx.rule_text.pop("C04.R3")
    ctx.floors["C11.R5"] = ctx.floors.pop("C04.R3")
    # "no accepted append can make later scans mis-filter": the bounds an append stores must survive the manifest round trip
    # losslessly (a truncated upper bound prunes the file for values it does hold)
    from .c13 import r4 as c13_r4
    ctx.shared(c13_r4, "C13.R4", "C11.R6", "bounds written by an accepted append are lossless")
    handles_fresh(ctx)
    appended_files_must_exist(ctx)
    strict_validation_rejects(ctx)
    inexact_values_rejected(ctx)
    single_conversion_route(ctx)
    type_map_is_exact(ctx)
    one_shot_iterables(ctx, "C11.R15", ("data_operations", "transaction", "file_manager"))
    from .c04 import r1 as c04_r1
    ctx.shared(c04_r1, "C04.R1", "C11.R10", "a conflicting pointer write stays a conflict (it is not re-issued against a newer ETag)")
    # "no accepted append can make later scans fail": the range reader is sized by the object's real length, not by the size an
    # appended DataFile declares
    from .c20 import r2 as c20_r2
    ctx.shared(c20_r2, "C20.R2", "C11.R11", "scans do not depend on the size an append declared")
    pairwise_checks_compare_lengths(ctx, "C11.R16", ("transaction", "data_operations", "file_manager"))


def missing_file_raises(ctx: Ctx, f: FunctionInfo, rid: str, what: str) -> int:
    """In f: wherever validate_file_exists(...) is tested, the outcome 'does not exist' leads to a raise on every path
    (before the loop goes on / the function returns). Returns the number of tests judged."""
    g = ctx.cfg(f)
    n = 0
    for c in g.calls():
        if c.id not in g.reachable() or not any(t.name == "validate_file_exists" for t in ctx.eff.callees(f, c)):
            continue
        brs = [b for b in g.nodes if b.kind == "branch" and b.stmt is c.stmt and b.ast is not None and any(x is c.ast for x in ast.walk(b.ast))]
        n += 1
        ok = False
        wit = None
        for b in brs:
            v = eval3(b.ast, lambda e: False if e is c.ast else None)
            if v is None:
                continue
            t = edge_target(g, b, "true" if v else "false")
            if t is None:
                continue
            stops = [g.exit] + [x.id for x in g.nodes if x.kind == "loop"] + [x.id for x in g.nodes if x.kind == "return"]
            wit = find_path(g, t, stops, avoid=[x.id for x in g.nodes if x.kind == "raise"], labels=NORMAL)
            ok = wit is None
        ctx.ob(rid, f, what, c, ok, "a file that does not exist raises FileNotFoundError before anything is queued / written" if ok else
               "the 'does not exist' outcome of the existence test can fall through: a DataFile naming a missing file is accepted and "
               "every later scan fails on it", witness=ctx.path_witness(f, wit))
    return n


def appended_files_must_exist(ctx: Ctx, rid: str = "C11.R8") -> None:
    ctx.rule(rid, "pre-built files are checked twice: append_files raises for a DataFile whose file does not exist, and at commit "
             "time validate_data_files(append_files) - which raises for a missing file - dominates the manifest that references "
             "them (a file deleted between queueing and commit fails the commit instead of being committed)", 3)
    af = ctx.fn("transaction.Transaction.append_files")
    n1 = missing_file_raises(ctx, af, rid, "append_files: missing file -> raise")
    scopes = [af]
    if n1 == 0:
        # the per-file checks may live in a validator that append_files hands the whole batch to
        for n_ in ctx.cfg(af).calls():
            for t_ in ctx.eff.callees(af, n_):
                if t_.module is af.module and t_.cls is af.cls and t_ is not af and t_ not in scopes:
                    k_ = missing_file_raises(ctx, t_, rid, f"append_files -> {t_.name}: missing file -> raise")
                    n1 += k_
                    if k_:
                        scopes.append(t_)
    # ... for EVERY file of the batch: the loop over the files handed in is left only when it is exhausted (or by a raise)
    from .common import loop_early_exits
    for sc_ in scopes:
        g_ = ctx.cfg(sc_)
        for lp_ in [l_ for l_ in g_.nodes if l_.kind == "loop" and isinstance(l_.ast, ast.For) and l_.id in g_.reachable()
                    and not any(fr.kind == "loop" and fr.node is not l_.ast for fr in l_.frames)
                    and any(ctx.eff.storage_op(c_) == "exists" or any(t2.name == "validate_file_exists" for t2 in ctx.eff.callees(sc_, c_))
                            for c_ in g_.calls() if any(fr.kind == "loop" and fr.node is l_.ast for fr in c_.frames))]:
            ex_ = loop_early_exits(g_, lp_)
            ctx.ob(rid, sc_, "every file of the batch is checked", lp_, not ex_,
                   f"`{lp_.text[:50]}`" + (f" is left early at {sc_.file}:{g_.nodes[ex_[0][0]].lineno} `{g_.nodes[ex_[0][0]].text[:40]}`: the files "
                                          "listed after it are queued unchecked (a missing or schema-divergent file is committed)" if ex_
                                          else " runs to exhaustion"), text=f"{sc_.name}:loop")
    vd = ctx.fn("file_manager.FileManager.validate_data_files")
    n2 = missing_file_raises(ctx, vd, rid, "validate_data_files: missing file -> raise")
    if n1 == 0 or n2 == 0:
        raise AnalysisError("existence tests vanished from append_files / validate_data_files")
    cf = ctx.fn("transaction.Transaction._commit_file_ops")
    g = ctx.cfg(cf)
    dom = ctx.dom(cf, NORMAL)
    sl = ctx.slicer(cf)
    vcalls = [n for n in g.calls() if any(t.name == "validate_data_files" for t in ctx.eff.callees(cf, n))]
    pn = next((p.name for p in cf.params if "append" in p.name), "append_files")
    for m in [n for n in g.calls() if any(t.name == "create_manifest_file" for t in ctx.eff.callees(cf, n))]:
        first = m.ast.args[0] if isinstance(m.ast, ast.Call) and m.ast.args else kwarg(m.ast, "data_files")
        appended = pn in (names_in(first) | sl.origins(first, m.id)["params"]) if first is not None else False
        if first is not None and not appended:
            # the appended files travel in a record (`plan.append_files`): found by the field's name
            appended = any(nm.split(".")[-1] == "append_files" for nm in names_in(first) | sl.origins(first, m.id)["names"])
        if first is None or not appended:
            continue  # the delete-rewrite manifests carry existing files only
        ok = any(v.id in dom[m.id] and isinstance(v.ast, ast.Call) and v.ast.args
                 and (pn in names_in(v.ast.args[0]) or any(nm.split(".")[-1] == "append_files" for nm in names_in(v.ast.args[0]))) for v in vcalls)
        ctx.ob(rid, cf, "commit-time validation dominates the manifest of appended files", m, ok,
               "validate_data_files(append_files) runs on every attempt before the manifest is written")


def strict_validation_rejects(ctx: Ctx, rid: str = "C11.R9") -> None:
    ctx.rule(rid, "the record validator rejects what would be silently lost: a record with a field outside the schema raises, and "
             "a required field that is missing or None raises (pyarrow's from_pylist enforces neither)", 2)
    f = ctx.fn("data_operations.DataFileManager.validate_records_strict")
    g = ctx.cfg(f)
    raises = [n.id for n in g.nodes if n.kind == "raise"]
    stops = [g.exit] + [x.id for x in g.nodes if x.kind in ("loop", "loop_head", "return")]

    def must_raise(b: Node, outcome: bool) -> bool:
        t = edge_target(g, b, "true" if outcome else "false")
        return t is not None and find_path(g, t, stops, avoid=raises, labels=NORMAL | {"back"}) is None

    # the variables that hold ONE record: targets of loops / comprehensions over the records parameter
    rparam = next((p_.name for p_ in f.params if p_.name != "self"), "records")
    record_vars: Set[str] = set()
    for x in walk_all(ctx, f):
        it, tg = (x.iter, x.target) if isinstance(x, (ast.For, ast.comprehension)) else (None, None)
        if it is not None and rparam in names_in(it):
            record_vars |= {y.id for y in ast.walk(tg) if isinstance(y, ast.Name)}  # type: ignore[arg-type]

    # (a) "the required field is missing or None" -> raise.  Scenario: `<record>.get(<name>)` IS None (`<name> not in <record>` holds).
    def is_get_none(x: ast.AST) -> Optional[bool]:
        if isinstance(x, ast.Compare) and len(x.ops) == 1 and isinstance(x.comparators[0], ast.Constant) and x.comparators[0].value is None \
                and isinstance(x.left, ast.Call) and isinstance(x.left.func, ast.Attribute) and x.left.func.attr == "get" \
                and isinstance(x.left.func.value, ast.Name) and x.left.func.value.id in record_vars:
            if isinstance(x.ops[0], ast.Is):
                return True
            if isinstance(x.ops[0], ast.IsNot):
                return False
        if isinstance(x, ast.Compare) and len(x.ops) == 1 and isinstance(x.ops[0], (ast.NotIn, ast.In)) and isinstance(x.comparators[0], ast.Name) \
                and x.comparators[0].id in record_vars:
            return isinstance(x.ops[0], ast.NotIn)
        return None

    def collected(name: str, at: int) -> bool:
        """`name` holds the required fields found missing: next(<gen filtered by `.get(..) is None`>, None) / [.. if ..] / {..}"""
        for d in ctx.rd(f).reaching(at, name):
            dn = g.nodes[d]
            if d == g.entry or not isinstance(dn.ast, ast.Assign):
                return False
            v = dn.ast.value
            comp = v.args[0] if isinstance(v, ast.Call) and dotted(v.func) == "next" and v.args else v
            if not isinstance(comp, (ast.GeneratorExp, ast.ListComp, ast.SetComp)) or \
                    not any(is_get_none(c) is True for gen in comp.generators for c in gen.ifs):
                return False
        return True

    req_ok = []
    for b in [x for x in g.nodes if x.kind == "branch" and x.id in g.reachable() and x.ast is not None]:
        v = eval3(b.ast, is_get_none)
        if v is not None and any(is_get_none(y) is not None and not (isinstance(y, ast.Compare) and isinstance(y.ops[0], (ast.In, ast.NotIn))
                                                                     and "allowed" in norm_text(y.comparators[0])) for y in ast.walk(b.ast)):
            req_ok.append(must_raise(b, v))
            continue
        # a collected set / first element of missing names, tested for presence
        t = b.ast
        nm, present = None, None
        if isinstance(t, ast.Name):
            nm, present = t.id, True
        elif isinstance(t, ast.Compare) and len(t.ops) == 1 and isinstance(t.left, ast.Name) and isinstance(t.comparators[0], ast.Constant) \
                and t.comparators[0].value is None and isinstance(t.ops[0], (ast.Is, ast.IsNot)):
            nm, present = t.left.id, isinstance(t.ops[0], ast.IsNot)
        if nm is not None and collected(nm, b.id):
            req_ok.append(must_raise(b, bool(present)))
    ctx.ob(rid, f, "a required field that is missing / None raises", None, bool(req_ok) and all(req_ok),
           "under the scenario `record.get(<required name>) is None` every path raises ValueError")
    # (b) the set of unknown keys, when non-empty, raises
    unk = [b for b in g.nodes if b.kind == "branch" and b.id in g.reachable() and isinstance(b.ast, ast.Name)
           and any(isinstance(d.ast, ast.Assign) and isinstance(d.ast.value, ast.BinOp) and isinstance(d.ast.value.op, ast.Sub)
                   for d in [g.nodes[x] for x in ctx.rd(f).reaching(b.id, b.ast.id) if x != g.entry])]
    ctx.ob(rid, f, "fields outside the schema raise", unk[0] if unk else None, bool(unk) and all(must_raise(b, True) for b in unk),
           "unknown = keys - allowed; non-empty -> ValueError (nothing is silently dropped by the schema projection)")


NO_FRACTION_TYPES = {"int", "long", "date", "time", "timestamp"}


def inexact_values_rejected(ctx: Ctx, rid: str = "C11.R12") -> None:
    ctx.rule(rid, "a value the declared type cannot represent is rejected, not altered: pyarrow's Table.from_pylist silently "
             "TRUNCATES a Python float handed to an integer / temporal column (3.5 -> 3), so the record validator that dominates "
             "every conversion must raise for a float with a fractional part in a field whose declared type is int / long / date "
             "/ time / timestamp; every from_pylist of the write path runs after that validator", 3)
    f = ctx.fn("data_operations.DataFileManager.validate_records_strict")
    g = ctx.cfg(f)
    raises = [n.id for n in g.nodes if n.kind == "raise"]
    stops = [g.exit] + [x.id for x in g.nodes if x.kind in ("loop", "loop_head", "return")]

    def scenario(x: ast.AST) -> Optional[bool]:
        # the value is a Python float with a fractional part (not a bool, not an int)
        if isinstance(x, ast.Call) and isinstance(x.func, ast.Name) and x.func.id == "isinstance" and len(x.args) == 2:
            names = {(dotted(t) or "").split(".")[-1] for t in (x.args[1].elts if isinstance(x.args[1], ast.Tuple) else [x.args[1]])}
            if "float" in names:
                return True
            if names and names <= {"bool", "int", "str", "bytes"}:
                return False
            return None
        if isinstance(x, ast.Call) and isinstance(x.func, ast.Attribute) and x.func.attr == "is_integer" and not x.args:
            return False
        if isinstance(x, ast.Compare) and len(x.ops) == 1 and isinstance(x.ops[0], (ast.Eq, ast.NotEq)):
            # value == int(value) / value != int(value) / value % 1 == 0
            l, r = x.left, x.comparators[0]
            for a, b in ((l, r), (r, l)):
                if isinstance(b, ast.Call) and isinstance(b.func, ast.Name) and b.func.id in ("int", "round", "floor", "trunc") \
                        and b.args and norm_text(b.args[0]) == norm_text(a):
                    return isinstance(x.ops[0], ast.NotEq)
                if isinstance(a, ast.BinOp) and isinstance(a.op, ast.Mod) and isinstance(a.right, ast.Constant) and a.right.value == 1 \
                        and isinstance(b, ast.Constant) and b.value == 0:
                    return isinstance(x.ops[0], ast.NotEq)
        return None

    judged = []
    for b in [x for x in g.nodes if x.kind == "branch" and x.id in g.reachable() and x.ast is not None]:
        if not any(isinstance(y, ast.Call) and isinstance(y.func, ast.Name) and y.func.id == "isinstance" and len(y.args) == 2
                   and "float" in norm_text(y.args[1]) for y in ast.walk(b.ast)):
            # the float test may sit in an earlier branch of the same chain: this branch then carries the fractional-part test
            if not (scenario(b.ast) is not None and any(pol == "true" and scenario(e) is True for pol, e, _a in facts_at(ctx, f, b))):
                continue
        v = eval3(b.ast, scenario)
        if v is None:
            continue
        t = edge_target(g, b, "true" if v else "false")
        if t is None:
            continue
        # the scenario's side either raises on every path, or goes on to the next test of the chain (judged in turn)
        w = find_path(g, t, stops, avoid=raises, labels=NORMAL | {"back"})
        nxt = [x for x in g.nodes if x.kind == "branch" and x.id != b.id and w is not None and x.id in w and scenario(x.ast) is not None]
        judged.append((b, w is None or bool(nxt)))
    must = [b for b, _ok in judged]
    closing = [b for b, _ok in judged if find_path(g, edge_target(g, b, "true" if eval3(b.ast, scenario) else "false") or g.exit, stops,
                                                   avoid=raises, labels=NORMAL | {"back"}) is None]
    ctx.ob(rid, f, "a float with a fractional part raises", must[0] if must else None, bool(closing) and all(ok for _b, ok in judged),
           "under the scenario `isinstance(value, float) and not value.is_integer()` every path of the validator raises" if closing else
           "the validator has no test that rejects a fractional float: pa.Table.from_pylist stores 3.5 in a long column as 3 "
           "(repro: /verif/repro/repro_inexact_values.py) [D18]")
    # which declared types the test covers: the constants the field-type membership test of the validator names
    covered: Set[str] = set()
    for x in walk_all(ctx, f):
        if isinstance(x, ast.Compare) and len(x.ops) == 1 and isinstance(x.ops[0], (ast.In, ast.NotIn, ast.Eq, ast.NotEq)):
            cs = str_consts(ctx, f, x.comparators[0])
            if cs & NO_FRACTION_TYPES:
                covered |= cs
    # ... for EVERY field of such a type: the type test is not reached only for required fields (an optional long column is
    # truncated just the same)
    tests = [b for b in g.nodes if b.kind == "branch" and b.id in g.reachable() and b.ast is not None and any(
        isinstance(x, ast.Compare) and len(x.ops) == 1 and isinstance(x.ops[0], (ast.In, ast.NotIn, ast.Eq, ast.NotEq))
        and str_consts(ctx, f, x.comparators[0]) & NO_FRACTION_TYPES for x in ast.walk(b.ast))]
    dom_all = ctx.dom(f, NORMAL)
    for b in tests:
        gate = [d for d in dom_all.get(b.id, set()) if d != b.id and g.nodes[d].kind == "branch" and g.nodes[d].ast is not None
                and "required" in norm_text(g.nodes[d].ast) and any(fr.kind == "loop" for fr in g.nodes[d].frames)
                and [fr.node for fr in g.nodes[d].frames if fr.kind == "loop"][-1:] == [fr.node for fr in b.frames if fr.kind == "loop"][-1:]
                and any(t_ is None or b.id not in reachable_from(g, t_, {"norm", "true", "false"})
                        for t_ in (edge_target(g, g.nodes[d], "true"), edge_target(g, g.nodes[d], "false")))]
        ctx.ob(rid, f, "the type test is applied to optional fields too", b, not gate,
               "every field is classified by its declared type" if not gate else
               f"the type test is only reached past `{g.nodes[gate[0]].text[:50]}`: fields that are not required are never checked - 3.5 "
               "in an optional long column is stored as 3", text="optional")
    miss = sorted(NO_FRACTION_TYPES - covered)
    ctx.ob(rid, f, "the test covers every declared type without a fractional part", None, not miss,
           f"declared types tested: {sorted(covered & NO_FRACTION_TYPES)}" + (f"; not covered: {miss} - a fractional float in such a "
                                                                            "column is stored truncated" if miss else ""), text="types")
    # every from_pylist of the write path is reached only after the validator
    wd = ctx.fn("data_operations.DataFileManager.write_data_file")
    wg = ctx.cfg(wd)
    val = [n for n in wg.calls() if any(t.name == "validate_records_strict" for t in ctx.eff.callees(wd, n))]
    conv = [n for n in wg.calls() if isinstance(n.ast, ast.Call) and (dotted(n.ast.func) or "").endswith("from_pylist")]
    conv += [n for n in wg.calls() if any(t.name == "write_records" for t in ctx.eff.callees(wd, n))]
    if not conv:
        raise AnalysisError("write_data_file no longer converts records (from_pylist / write_records vanished)")
    # `if records: validate(...)` ... `if records: convert(...)`: the only way round the validator is the "no records" edge of a
    # test of the (never re-bound) records parameter - an empty batch has nothing to convert
    rec = next((norm_text(v_.ast.args[0]) for v_ in val if isinstance(v_.ast, ast.Call) and v_.ast.args), None)
    rebound = rec is None or any(d != wg.entry for n_ in wg.nodes for d in ctx.rd(wd).reaching(n_.id, rec)) if rec else True
    empty_edges = {(b.id, d) for b in wg.nodes if b.kind == "branch" and isinstance(b.ast, ast.Name) and b.ast.id == rec and not rebound
                   for d, l in wg.succ[b.id] if l == "false"}
    for c in conv:
        w = find_path(wg, wg.entry, [c.id], avoid=[v_.id for v_ in val], labels=NORMAL,
                      edge_ok=lambda s_, d_, l_: (s_, d_) not in empty_edges) if val else [wg.entry]
        ctx.ob(rid, wd, "conversion runs after the strict validator", c, bool(val) and w is None,
               "no path reaches the conversion of a non-empty batch without passing validate_records_strict",
               witness=ctx.path_witness(wd, w) if val else None)
    for caller, n in ctx.eff.call_sites.get(ctx.fn("data_operations.DataFileWriter.write_records").qname, []):
        if caller.qname != wd.qname and not judged_in_callers(ctx, caller):
            ctx.ob(rid, caller, "records reach the writer only through write_data_file", n, False,
                   "DataFileWriter.write_records converts with from_pylist without the strict validator")


def single_conversion_route(ctx: Ctx, rid: str = "C11.R13") -> None:
    ctx.rule(rid, "records become Arrow data by ONE route: pa.Table.from_pylist(records, schema=<the table's Arrow schema>), which "
             "refuses a value of the wrong Python type; the write path (write_data_file with its helpers, DataFileWriter."
             "write_records) contains no type-coercing route next to it - no `.cast(...)`, no schema-less pa.array / from_pydict / "
             "from_arrays rebuild - because a checked cast still turns '42' into 42, True into 1 and 1 into True", 2)
    coercers = ("cast", "from_arrays", "from_pydict", "from_pandas")
    n = 0
    for q in ("data_operations.DataFileManager.write_data_file", "data_operations.DataFileWriter.write_records"):
        f = ctx.fn(q)
        g = ctx.cfg(f)
        for c in g.calls():
            if not isinstance(c.ast, ast.Call) or c.id not in g.reachable():
                continue
            dn = dotted(c.ast.func) or (c.ast.func.attr if isinstance(c.ast.func, ast.Attribute) else "")
            leaf = dn.split(".")[-1]
            if leaf == "from_pylist":
                n += 1
                has_schema = kwarg(c.ast, "schema") is not None or len(c.ast.args) >= 2
                ctx.ob(rid, f, "from_pylist is given the table's schema", c, has_schema,
                       "without schema= pyarrow INFERS the column types from the values: nothing is checked against the declaration")
            elif leaf in coercers or dn in ("pa.array", "pyarrow.array", "pa.chunked_array"):
                n += 1
                ctx.ob(rid, f, "no type-coercing conversion in the write path", c, False,
                       f"`{c.text[:70]}` converts values to the declared type instead of rejecting a value of another type: the "
                       "append is accepted and later scans return an altered value")
    if n == 0:
        raise AnalysisError("no record conversion found in the write path")


ICEBERG_TO_ARROW = {
    "boolean": ("bool_", ()), "int": ("int32", ()), "long": ("int64", ()), "float": ("float32", ()), "double": ("float64", ()),
    "date": ("date32", ()), "time": ("time64", ("us",)), "timestamp": ("timestamp", ("us",)), "string": ("string", ()),
    "binary": ("binary", ()),
}


def type_map_is_exact(ctx: Ctx, rid: str = "C11.R14") -> None:
    ctx.rule(rid, "\"up to the declared column type's representation\": the Iceberg -> Arrow type table maps every primitive type to "
             "the Arrow type that represents it exactly (int -> int32, long -> int64, float -> float32, double -> float64, date -> "
             "date32, time -> time64('us'), timestamp -> timestamp('us'), string, binary, boolean) - a narrower type or a coarser "
             "unit (timestamp('ms')) makes pyarrow floor / truncate accepted values silently", 8)
    f = ctx.fn("data_operations.DataFileManager._iceberg_type_to_arrow")
    tables = [x for x in walk_all(ctx, f) if isinstance(x, ast.Dict) and len(x.keys) >= 6
              and all(isinstance(k, ast.Constant) and isinstance(k.value, str) for k in x.keys)]
    if not tables:
        raise AnalysisError("the Iceberg -> Arrow type table was not found in _iceberg_type_to_arrow")
    t = tables[0]
    seen = {}
    for k, v in zip(t.keys, t.values):
        seen[k.value] = v  # type: ignore[union-attr]
    for name, (ctor, args) in sorted(ICEBERG_TO_ARROW.items()):
        v = seen.get(name)
        ok = isinstance(v, ast.Call) and (dotted(v.func) or "").split(".")[-1] == ctor and not v.keywords \
            and tuple(a.value for a in v.args if isinstance(a, ast.Constant)) == args and len(v.args) == len(args)
        ctx.ob(rid, f, f"'{name}' maps to pa.{ctor}({', '.join(map(repr, args))})", None, ok,
               "exact representation" if ok else f"'{name}' -> `{norm_text(v) if v is not None else None}`: values of the declared type "
               "are stored in a narrower / coarser Arrow type and come back altered", text=name)
    # writer's table and validator's table agree: every type of the table whose Arrow representation holds whole numbers only
    # (integers, dates, times, timestamps - with or without zone) is in the set the strict validator screens for fractional
    # floats; pyarrow truncates 3.5 in such a column instead of raising (D18). A type added to one table only is the gap.
    WHOLE = ("int8", "int16", "int32", "int64", "uint8", "uint16", "uint32", "uint64", "date32", "date64", "time32", "time64",
             "timestamp", "duration")
    whole_keys = sorted(k for k, v in seen.items() if isinstance(v, ast.Call) and (dotted(v.func) or "").split(".")[-1] in WHOLE)
    sets = []
    for owner in [f.cls] if f.cls is not None else []:
        for nm, cv in owner.consts.items():
            members = [c.value for c in ast.walk(cv) if isinstance(c, ast.Constant) and isinstance(c.value, str)]
            if members and isinstance(cv, (ast.Call, ast.Set, ast.Tuple, ast.List)) and set(members) <= set(seen) \
                    and {"int", "long"} <= set(members):
                sets.append((nm, set(members)))
    if not sets:
        raise AnalysisError("the validator's set of whole-number types was not found next to the Iceberg -> Arrow table")
    nm, members = sets[0]
    missing = [k for k in whole_keys if k not in members]
    ctx.ob(rid, f, f"every whole-number type of the table is screened by {nm}", None, not missing,
           f"{len(whole_keys)} whole-number types, all in {nm}" if not missing else
           f"{missing} map to a whole-number Arrow type but are not in {nm}: a fractional float in such a column passes the strict "
           "validation and is truncated by pyarrow instead of rejected", text="whole-number agreement")


def one_shot_iterables(ctx: Ctx, rid: str, modules: Tuple[str, ...]) -> None:
    ctx.rule(rid, "no one-shot iterable is consumed in a loop it was not created in: a generator expression / map / filter / zip / "
             "iter bound to a name OUTSIDE a loop and iterated or tested INSIDE it is exhausted after the first pass - every later "
             "record / file / snapshot is then checked against nothing", 1)
    n = 0
    for f in sorted(ctx.prog.functions.values(), key=lambda x: x.qname):
        if isinstance(f.node, ast.Lambda) or f.module.short not in modules:
            continue
        g = ctx.cfg(f)
        rd = ctx.rd(f)
        for d in g.nodes:
            if d.kind != "stmt" or not isinstance(d.ast, ast.Assign) or len(d.ast.targets) != 1 or not isinstance(d.ast.targets[0], ast.Name):
                continue
            v = d.ast.value
            lazy = isinstance(v, ast.GeneratorExp) or (isinstance(v, ast.Call) and isinstance(v.func, ast.Name)
                                                        and v.func.id in ("map", "filter", "zip", "iter", "reversed", "enumerate"))
            if not lazy:
                continue
            n += 1
            name = d.ast.targets[0].id
            dloops = {id(fr.node) for fr in d.frames if fr.kind == "loop"}
            bad = None
            for u in g.nodes:
                if u.ast is None or u.id == d.id or u.id not in g.reachable():
                    continue
                uloops = [fr.node for fr in u.frames if fr.kind == "loop"]
                if u.kind == "loop" and isinstance(u.ast, ast.For):
                    uses_here = name in names_in(u.ast.iter)
                    uloops = uloops  # the loop node itself sits in its parents' frames: its iterable is evaluated per entry
                elif u.kind in ("stmt", "branch", "call", "return"):
                    uses_here = name in names_in(u.ast) if u.kind != "stmt" or not isinstance(u.ast, (ast.For, ast.While)) else False
                else:
                    uses_here = False
                if not uses_here or d.id not in rd.reaching(u.id, name):
                    continue
                if any(id(l) not in dloops for l in uloops):
                    bad = u
                    break
            ctx.ob(rid, f, "a lazy iterable is consumed where it was created", d, bad is None,
                   "used in the loop nest it was built in" if bad is None else
                   f"`{name}` ({norm_text(v)[:40]}) is built once but consumed inside a loop at line {bad.lineno}: empty from the second "
                   "iteration on", text=name)
    if n == 0:
        ctx.ob(rid, ctx.fn("data_operations.DataFileManager.validate_records_strict"), "no lazy iterable bound to a name", None, True,
               "nothing to judge", nontrivial=False)


def handles_fresh(ctx: Ctx, rid: str = "C11.R7") -> None:
    ctx.rule(rid, "a table handle is never handed out twice: create_table / load_table keep no registry and return the Table they "
             "constructed in this call (a handle carries per-handle caches - the Arrow schema by schema id - that are only valid "
             "for the table it was opened on; a dropped and re-created table at the same path must get a new handle)", 2)
    from .common import resolve_value, state_writes
    for q in ("iceberg.create_table", "iceberg.load_table"):
        f = ctx.fn(q)
        g = ctx.cfg(f)
        sw = state_writes(ctx, f)
        ctx.ob(rid, f, "factory keeps no state", sw[0][0] if sw else None, not sw,
               "no module-level / class-level store" if not sw else f"stores {sw[0][1]}: handles (and their caches) outlive the table "
               "they were opened on", text="state")
        rets = [n for n in g.nodes if n.kind == "return" and n.id in g.reachable() and n.ast is not None and n.ast.value is not None]  # type: ignore[union-attr]
        for r in rets:
            srcs = resolve_value(ctx, f, r.ast.value, r.id)  # type: ignore[union-attr]
            ok = bool(srcs) and all(isinstance(x, ast.Call) and (dotted(x.func) or "").split(".")[-1] == "Table" for x, _a in srcs)
            ctx.ob(rid, f, "returns the Table constructed in this call", r, ok,
                   "fresh handle" if ok else f"`{r.text}` can return a handle that was not constructed by this call (a remembered one)")


def _keys_of_var(ctx: Ctx, f: FunctionInfo, scope: ast.AST, v: str, depth: int = 0) -> Set[str]:
    """String keys read from dict variable `v` inside `scope` of f, following `v` into package callees it is passed to."""
    keys: Set[str] = set()
    for m in ast.walk(scope):
        if isinstance(m, ast.Call) and isinstance(m.func, ast.Attribute) and m.func.attr == "get" \
                and isinstance(m.func.value, ast.Name) and m.func.value.id == v and m.args \
                and isinstance(m.args[0], ast.Constant):
            keys.add(str(m.args[0].value))
        if isinstance(m, ast.Subscript) and isinstance(m.value, ast.Name) and m.value.id == v \
                and isinstance(m.slice, ast.Constant):
            keys.add(str(m.slice.value))
        if isinstance(m, ast.Call) and depth < 3 and any(isinstance(a, ast.Name) and a.id == v for a in list(m.args) + [k.value for k in m.keywords]):
            c = ctx.prog.resolve_call(m, f)
            if c.kind == "func":
                for t in c.funcs:
                    is_method = isinstance(m.func, ast.Attribute)
                    for p in t.params:
                        a = ctx.eff.bind_arg(m, t, p.name, is_method)
                        if isinstance(a, ast.Name) and a.id == v:
                            keys |= _keys_of_var(ctx, t, t.node, p.name, depth + 1)
    return keys


def field_keys_read(ctx: Ctx, f: FunctionInfo, loop_over_suffix: str = ".fields", depth: int = 0) -> Set[str]:
    """String keys read from the loop variable iterating <schema>.fields in f (and in helpers introduced after the
    rules were written, which count as part of f)."""
    keys: Set[str] = set()
    for n in ast.walk(f.node):
        if isinstance(n, (ast.For, ast.comprehension)) and norm_text(n.iter).endswith(loop_over_suffix) and isinstance(n.target, ast.Name):
            scope = n if isinstance(n, ast.For) else f.node
            keys |= _keys_of_var(ctx, f, scope, n.target.id)
        if isinstance(n, ast.Call) and depth < 3:
            c = ctx.prog.resolve_call(n, f)
            if c.kind == "func":
                for t in c.funcs:
                    if not ctx.prog.is_known(t) and t is not f:
                        keys |= field_keys_read(ctx, t, loop_over_suffix, depth + 1)
    return keys


def r1(ctx: Ctx) -> None:
    ctx.rule("C11.R1", "validation covers what is consumed: keys read by the Arrow-schema builder and the bounds writer/reader are "
             "subset of the keys in the schema signature, and the signature is ordered", 3)
    sig = ctx.fn(TX + "._schema_signature")
    validated = field_keys_read(ctx, sig)
    consumers = {
        "create_arrow_schema (what is written)": ctx.fn(DFM + ".create_arrow_schema"),
        "_compute_column_bounds (bounds keyed by id)": ctx.fn(DFM + "._compute_column_bounds"),
        "prune_files_by_bounds (bounds looked up by id)": ctx.fn("filters.prune_files_by_bounds"),
    }
    if not validated:
        raise AnalysisError("_schema_signature reads no field keys - anchor changed")
    for role, f in consumers.items():
        consumed = field_keys_read(ctx, f)
        if not consumed:
            raise AnalysisError(f"{f.qname} reads no field keys - anchor changed")
        missing = sorted(consumed - validated)
        ctx.ob("C11.R1", f, f"keys consumed by {role} are validated", None, not missing,
               f"consumed {sorted(consumed)}; signature compares {sorted(validated)}"
               + (f"; NOT validated: {missing} - a schema argument differing only there is accepted, and "
                  f"{'bounds are stored under the wrong ids (equality filters silently return no rows)' if 'id' in missing else 'files diverge'}"
                  if missing else ""), text=role)
    # ordered?
    g = ctx.cfg(sig)
    unordered = False
    how = ""
    for n in ast.walk(sig.node):
        if isinstance(n, ast.Call) and isinstance(n.func, ast.Name) and n.func.id in ("set", "frozenset"):
            unordered, how = True, f"{n.func.id}()"
        if isinstance(n, (ast.Set, ast.SetComp)):
            unordered, how = True, "set display"
        if isinstance(n, ast.Call) and isinstance(n.func, ast.Attribute) and n.func.attr == "add":
            unordered, how = True, ".add()"
        if isinstance(n, ast.Call) and isinstance(n.func, ast.Name) and n.func.id == "sorted":
            unordered, how = True, "sorted()"
    for r_ in [x for x in ast.walk(sig.node) if isinstance(x, ast.Return) and x.value is not None]:
        v_ = r_.value
        if isinstance(v_, ast.Name):
            defs_ = [x.value for x in ast.walk(sig.node) if isinstance(x, (ast.Assign, ast.AnnAssign)) and x.value is not None
                     and any(isinstance(t, ast.Name) and t.id == v_.id for t in (x.targets if isinstance(x, ast.Assign) else [x.target]))]
            v_ = defs_[0] if defs_ else v_
        if isinstance(v_, (ast.Dict, ast.DictComp)) or (isinstance(v_, ast.Call) and isinstance(v_.func, ast.Name) and v_.func.id == "dict"):
            unordered, how = True, "a dict keyed by field (dict equality ignores insertion order)"
    ctx.ob("C11.R1", sig, "the signature preserves field order", None, not unordered,
           "column order is consumed (pa.schema(fields) in list order; concat_tables and Schema.equals are order-sensitive)"
           + (f"; the signature is built with {how}: a reordered schema argument is accepted, the file's column order differs "
              f"and every later full scan raises in concat_tables" if unordered else ""))
    # the validator compares the two signatures for equality and raises
    val = ctx.fn(TX + "._validate_schema_against_table")
    vg = ctx.cfg(val)
    vsl = ctx.slicer(val)

    def _is_sig(e: ast.AST, at: int) -> bool:
        return any(isinstance(c, ast.Call) and (dotted(c.func) or "").endswith("_schema_signature") for c in vsl.origins(e, at)["calls"])

    brs = [b for b in vg.nodes if b.kind == "branch" and isinstance(b.ast, ast.Compare) and len(b.ast.ops) == 1
           and isinstance(b.ast.ops[0], (ast.Eq, ast.NotEq)) and b.id in vg.reachable()
           and _is_sig(b.ast.left, b.id) and _is_sig(b.ast.comparators[0], b.id)]
    ok = False
    for b in brs:
        ne = isinstance(b.ast.ops[0], ast.NotEq)  # type: ignore[union-attr]
        t = edge_target(vg, b, "true" if ne else "false")
        if t is not None and any(vg.nodes[x].kind == "raise" for x in reachable_from(vg, t, NORMAL)):
            ok = True
    ctx.ob("C11.R1", val, "signature mismatch raises", brs[0] if brs else None, ok, "divergent schema argument -> ValueError")
    # the comparison is reached on every call for a table with a persisted schema (no memoised 'already validated')
    rs_calls = [n for n in vg.calls() if any(t.name == "_resolve_table_schema" for t in ctx.eff.callees(val, n))]
    none_edges = {(b.id, d) for b in vg.nodes if b.kind == "branch" and isinstance(b.ast, ast.Compare) and isinstance(b.ast.ops[0], ast.Is)
                  and isinstance(b.ast.comparators[0], ast.Constant) and b.ast.comparators[0].value is None
                  and rs_calls and any("_resolve_table_schema" in norm_text(vg.nodes[d_].ast) for nm in names_in(b.ast.left)
                                       for d_ in ctx.rd(val).reaching(b.id, nm) if vg.nodes[d_].ast is not None)
                  for d, l in vg.succ[b.id] if l == "true"}
    w = find_path(vg, vg.entry, [vg.exit], avoid=[b.id for b in brs], labels=NORMAL, edge_ok=lambda s_, d_, l_: (s_, d_) not in none_edges)
    ctx.ob("C11.R1", val, "every call compares the signatures (only a schema-less table skips the check)", brs[0] if brs else None,
           bool(brs) and w is None,
           "a per-transaction / per-handle 'already validated this schema_id' memo lets a second append pass a different field "
           "list under the same id unchecked", witness=ctx.path_witness(val, w))
    # sibling validator of the file-level API is Schema.equals (order + names + types + nullability)
    vf = ctx.fn(TX + "._validate_file_schema")
    eq = [n for n in ctx.cfg(vf).calls() if n.callee and n.callee.name.endswith(".equals")]
    # the check is skipped only for files that are not parquet - however the format is spelled (enum member or its string)
    vg_ = ctx.cfg(vf)
    fvars = {t.id for n in vg_.nodes if n.kind == "stmt" and isinstance(n.ast, ast.Assign) and isinstance(n.ast.value, ast.Attribute)
             and n.ast.value.attr == "file_format" for t in n.ast.targets if isinstance(t, ast.Name)}
    fattrs = {dotted(x) for x in ast.walk(vf.node) if isinstance(x, ast.Attribute) and x.attr == "file_format" and dotted(x)}
    fattrs |= {dotted(x) for n in vg_.nodes if n.ast is not None and n.kind in ("stmt", "call", "branch", "return")
               for x in ast.walk(n.ast) if isinstance(x, ast.Attribute) and x.attr == "file_format" and dotted(x)}  # inlined helpers
    pq_member = next((EnumVal(ci.name, "PARQUET", ci.consts["PARQUET"].value) for ci in ctx.prog.classes.values()
                      if ci.name == "FileFormat" and isinstance(ci.consts.get("PARQUET"), ast.Constant)), None)
    if eq and pq_member is not None and (fvars or fattrs):
        vdom = ctx.dom(vf, ALL)
        for label, val in (("the enum member FileFormat.PARQUET", pq_member), (f"the string {pq_member.value!r}", pq_member.value)):
            env = {k: val for k in fvars | fattrs}
            reached, undec = scenario_walk(ctx, vf, [vg_.entry], env)
            early = [vg_.nodes[x] for x in reached if vg_.nodes[x].kind == "return" and not any(e_.id in vdom[x] for e_ in eq)]
            ctx.ob("C11.R1", vf, "a parquet file is never skipped by the format guard", early[0] if early else eq[0],
                   undec or not early,
                   f"scenario file_format = {label}: " + ("the guard could not be evaluated (undecided)" if undec else
                   ("the footer-schema comparison is reached" if not early else
                    "the function returns before the footer-schema comparison - a divergent pre-built file tagged this way commits "
                    "unchecked and every later full scan fails")), text=label)
    ctx.ob("C11.R1", vf, "file-level API compares full Arrow schemas (names, order, types AND nullability)", eq[0] if eq else None, bool(eq),
           "pa.concat_tables needs identical schemas: a pre-built file differing only in a column's optional/required flag is accepted "
           "by a name/type-only comparison and breaks every later full scan", nontrivial=False)


def r2(ctx: Ctx) -> None:
    ctx.rule("C11.R2", "validate before any side effect: schema validation dominates the marker and the data-file write; record "
             "validation and the Arrow conversion dominate the writer; file checks dominate queuing", 6)
    ad = ctx.fn(TX + ".append_data")
    g = ctx.cfg(ad)
    val = [n for n in g.calls() if any(t.name in ("_validate_schema_against_table", "_resolve_table_schema") for t in ctx.eff.callees(ad, n))]
    for side in ctx.calls(ad, name="_register_inflight") + ctx.calls(ad, name="write_data_file"):
        w = find_path(g, g.entry, [side.id], avoid=[v.id for v in val], labels=NORMAL)
        ctx.ob("C11.R2", ad, "schema validation precedes the side effect", side, bool(val) and w is None,
               "a rejected schema argument leaves no marker and no data file", witness=ctx.path_witness(ad, w))
    act = [b for b in g.nodes if b.kind == "branch" and "is_active" in b.text]
    dom = ctx.dom(ad, NORMAL)
    ctx.ob("C11.R2", ad, "is_active() guard first", act[0] if act else None,
           bool(act) and all(act[0].id in dom[s.id] for s in ctx.calls(ad, name="write_data_file")), "")
    wd = ctx.fn(DFM + ".write_data_file")
    wg = ctx.cfg(wd)
    writer = [n for n in wg.calls() if n.callee and n.callee.kind == "ctor" and n.callee.cls and n.callee.cls.name == "DataFileWriter"]
    if not writer:
        raise AnalysisError("DataFileWriter construction vanished from write_data_file")
    rec_false = {(b.id, d) for b in wg.nodes if b.kind == "branch" and norm_text(b.ast) == "records" for d, l in wg.succ[b.id] if l == "false"}
    vr = ctx.calls(wd, name="validate_records_strict")
    conv = [n for n in wg.calls() if n.callee and n.callee.name == "pyarrow.Table.from_pylist"]
    for what, nodes in (("validate_records_strict", vr), ("pa.Table.from_pylist(records, schema=...)", conv)):
        w = find_path(wg, wg.entry, [writer[0].id], avoid=[n.id for n in nodes], labels=NORMAL,
                      edge_ok=lambda s, d, l: (s, d) not in rec_false)
        ctx.ob("C11.R2", wd, f"{what} precedes the creation of the data file", writer[0], bool(nodes) and w is None,
               "unknown fields, missing required fields and unrepresentable values are rejected before any file exists",
               witness=ctx.path_witness(wd, w), text=what)
    for c in conv:
        sk = kwarg(c.ast, "schema")
        ctx.ob("C11.R2", wd, "the conversion uses the declared schema", c, sk is not None and "schema" in norm_text(sk),
               "pyarrow raises on values the declared type cannot represent")
    af = ctx.fn(TX + ".append_files")
    ag = ctx.cfg(af)
    q = [n for n in ag.calls() if isinstance(n.ast, ast.Call) and isinstance(n.ast.func, ast.Attribute)
         and n.ast.func.attr == "append" and "_operations" in norm_text(n.ast.func.value)]
    adom = ctx.dom(af, NORMAL)
    ve = ctx.calls(af, name="validate_file_exists")
    vs = ctx.calls(af, name="_validate_file_schema")
    # batch form: append_files hands the whole list to the validator, which loops over it itself (existence test and footer
    # comparison inside ITS per-file loop); the call dominates the queuing
    vf_ = ctx.fn(TX + "._validate_file_schema")
    vg2 = ctx.cfg(vf_)
    batch = False
    if vs and not any(any(fr.kind == "loop" for fr in v.frames) for v in vs):
        vloops = [l for l in vg2.nodes if l.kind == "loop" and isinstance(l.ast, ast.For)]
        def _in(l_, n_) -> bool:
            return any(fr.kind == "loop" and fr.node is l_.ast for fr in n_.frames)
        batch = any(any(_in(l, c) for c in ctx.calls(vf_, name="validate_file_exists"))
                    and any(_in(l, c) for c in vg2.calls() if c.callee and c.callee.name.endswith(".equals")) for l in vloops)
    for x in q:
        loops = [l for l in ag.nodes if l.kind == "loop" and l.id in adom[x.id]]
        ok = bool(ve) and bool(vs) and bool(loops) and all(any(fr.kind == "loop" for fr in v.frames) for v in ve + vs)
        if batch:
            ok = all(v.id in adom[x.id] for v in vs)
        ctx.ob("C11.R2", af, "existence and footer-schema checks run for every file before queuing", x, ok,
               "a divergent / missing pre-built file is rejected before it is queued (audit #49)")
    for v in vs:
        brs = [b for b in ag.nodes if b.kind == "branch" and b.id in adom[v.id] and "table_schema" in b.text]
        if batch and not brs:
            eqs = [c for c in vg2.calls() if c.callee and c.callee.name.endswith(".equals")]
            vdom2 = ctx.dom(vf_, NORMAL)
            brs = [b for b in vg2.nodes if b.kind == "branch" and "table_schema" in b.text and any(b.id in vdom2[e.id] for e in eqs)]
        ctx.ob("C11.R2", af, "schema check skipped only for schema-less tables", v, bool(brs), "`if table_schema is not None`")


def r3(ctx: Ctx) -> None:
    ctx.rule("C11.R3", "the Arrow-schema cache key determines the cached value (or every schema reaching it was validated equal "
             "to the persisted schema with that id)", 1)
    f = ctx.fn(DFM + ".create_arrow_schema")
    subs = [n for n in ast.walk(f.node) if isinstance(n, ast.Subscript) and "_arrow_schema_cache" in norm_text(n.value)]
    ins = [n for n in ast.walk(f.node) if isinstance(n, ast.Compare) and any("_arrow_schema_cache" in norm_text(c) for c in n.comparators)]
    if not subs:
        ctx.ob("C11.R3", f, "no cache", None, True, "create_arrow_schema does not cache", nontrivial=False)
        return
    def _key_text(e: ast.AST) -> str:
        # a local key variable with a single definition stands for that definition
        if isinstance(e, ast.Name):
            defs = [n.value for n in ast.walk(f.node) if isinstance(n, ast.Assign) and len(n.targets) == 1
                    and isinstance(n.targets[0], ast.Name) and n.targets[0].id == e.id]
            if len(defs) == 1:
                return norm_text(defs[0])
        return norm_text(e)

    keys = {_key_text(s.slice) for s in subs} | {_key_text(i.left) for i in ins}
    g = ctx.cfg(f)
    sl = ctx.slicer(f)
    determines = True
    for s in subs:
        txt = norm_text(s.slice)
        k_names: Set[str] = set()
        for nm in names_in(s.slice):
            k_names.add(nm)
        # follow a local key variable
        dep = txt
        for n in g.nodes:
            if n.kind == "stmt" and isinstance(n.ast, ast.Assign) and any(isinstance(t, ast.Name) and t.id in k_names for t in n.ast.targets):
                dep += " " + norm_text(n.ast.value)
        if not any(x in dep for x in (".fields", "schema_string")):
            determines = False
    # alternative discharge: every caller validated the schema against the persisted one
    val = ctx.fn(TX + "._validate_schema_against_table")
    early = [n for n in ctx.cfg(val).nodes if n.kind == "return" and n.id in ctx.cfg(val).reachable()]
    validated_everywhere = not early  # an early `return` (schema-less table) means: no validation on that path
    ok = determines or validated_everywhere
    scope = "instance" if all(norm_text(s_.value).startswith("self.") for s_ in subs) else "shared"
    ctx.ob("C11.R3", f, "cache key determines the Arrow schema", None, ok and scope == "instance" or (determines and True),
           f"cache keys {sorted(keys)}; the cached value is computed from iceberg_schema.fields"
           + ("" if ok else "; the key is the schema id alone and on a table without a persisted schema "
              "_validate_schema_against_table returns early (no validation): two appends passing different field lists under "
              "one schema_id reuse the first Arrow schema and the second batch is written as NULLs of the wrong columns"),
           text="_arrow_schema_cache" if (scope == "instance" and sorted(keys) == ["iceberg_schema.schema_id"]) else
           f"_arrow_schema_cache[{','.join(sorted(keys))}]@{scope}")


def r4(ctx: Ctx) -> None:
    ctx.rule("C11.R4", "Schema.__post_init__ rejects a missing id/name/type, a duplicate id, a duplicate name and an unknown "
             "primitive type", 6)
    f = ctx.fn("data_structures.Schema.__post_init__")
    g = ctx.cfg(f)
    def _src_key(b: Node) -> Optional[str]:
        """which schema-field key the tested value comes from (field_def["<key>"])"""
        if not isinstance(b.ast, ast.Compare):
            return None
        for nm in names_in(b.ast.left):
            for d in ctx.rd(f).reaching(b.id, nm):
                dn = g.nodes[d]
                if isinstance(dn.ast, ast.Assign):
                    for x in ast.walk(dn.ast.value):
                        if isinstance(x, ast.Subscript) and isinstance(x.slice, ast.Constant) and x.slice.value in ("id", "name", "type"):
                            return str(x.slice.value)
        return None

    def _raises(b: Node) -> bool:
        t = edge_target(g, b, "true")
        if t is None:
            return False
        reach = reachable_from(g, t, NORMAL, avoid=[n.id for n in g.nodes if n.kind == "loop"])
        return any(g.nodes[x].kind == "raise" and g.nodes[x].raised == "ValueError" for x in reach)

    brs_all = [b for b in g.nodes if b.kind == "branch" and isinstance(b.ast, ast.Compare)]

    def _tested_keys(b: Node) -> Set[str]:
        """`'id' not in field` tests 'id'; `prop not in field` inside `for prop in ('id', 'name', 'type')` tests all three"""
        left = b.ast.left  # type: ignore[union-attr]
        if isinstance(left, ast.Constant) and isinstance(left.value, str):
            return {left.value}
        if isinstance(left, ast.Name):
            for fr in b.frames:
                if fr.kind == "loop" and isinstance(fr.node, ast.For) and isinstance(fr.node.target, ast.Name) and fr.node.target.id == left.id:
                    return set(str_consts(ctx, f, fr.node.iter))
        return set()

    roles = {
        "missing 'id'": lambda b: isinstance(b.ast.ops[0], ast.NotIn) and "id" in _tested_keys(b),
        "missing 'name'": lambda b: isinstance(b.ast.ops[0], ast.NotIn) and "name" in _tested_keys(b),
        "missing 'type'": lambda b: isinstance(b.ast.ops[0], ast.NotIn) and "type" in _tested_keys(b),
        "duplicate id": lambda b: isinstance(b.ast.ops[0], ast.In) and _src_key(b) == "id",
        "duplicate name": lambda b: isinstance(b.ast.ops[0], ast.In) and _src_key(b) == "name",
        "unknown primitive type": lambda b: isinstance(b.ast.ops[0], ast.NotIn) and _src_key(b) == "type",
    }
    dup_sets = set()
    for role, pred in roles.items():
        brs = [b for b in brs_all if pred(b)]
        ok = any(_raises(b) for b in brs)
        ctx.ob("C11.R4", f, f"{role} -> ValueError", brs[0] if brs else None, ok, "schema well-formedness is enforced at construction", text=role)
        if role.startswith("duplicate"):
            dup_sets |= {norm_text(b.ast.comparators[0]) for b in brs}
    # the seen sets are actually filled
    adds = [n for n in g.calls() if isinstance(n.ast, ast.Call) and isinstance(n.ast.func, ast.Attribute) and n.ast.func.attr == "add"]
    ctx.ob("C11.R4", f, "the duplicate-detection sets are populated", adds[0] if adds else None,
           bool(dup_sets) and dup_sets <= {norm_text(a.ast.func.value) for a in adds}, f"sets {sorted(dup_sets)}", nontrivial=False)  # type: ignore[union-attr]


def pairwise_checks_compare_lengths(ctx: Ctx, rid: str, modules: Tuple[str, ...]) -> None:
    ctx.rule(rid, "a pairwise comparison covers both sequences whole: `zip(a, b)` stops at the shorter one, so a validator that walks "
             "`zip(expected, actual)` accepts a file with the table's columns plus one more (or only a leading subset) unless the "
             "lengths are compared too (`len(a) != len(b)`) or zip is strict - the accepted file then breaks every later scan", 1)
    n = 0
    for f in sorted(ctx.prog.functions.values(), key=lambda x: x.qname):
        if isinstance(f.node, ast.Lambda) or f.module.short not in modules or f.parent is not None:
            continue
        nodes = list(ast.walk(f.node))
        for z in [x for x in nodes if isinstance(x, ast.Call) and isinstance(x.func, ast.Name) and x.func.id == "zip" and len(x.args) >= 2]:
            if any(k.arg == "strict" and isinstance(k.value, ast.Constant) and k.value.value is True for k in z.keywords):
                continue
            # only where the pairs are COMPARED (a validator), not where they are merely combined
            user = next((p_ for p_ in nodes if isinstance(p_, (ast.For, ast.comprehension)) and any(y is z for y in ast.walk(p_.iter))), None)
            body = (user.body if isinstance(user, ast.For) else []) if user is not None else []
            compares = [c for st in body for c in ast.walk(st) if isinstance(c, (ast.Compare, ast.Return, ast.Raise))]
            if isinstance(user, ast.comprehension):
                host = next((p_ for p_ in nodes if isinstance(p_, (ast.GeneratorExp, ast.ListComp, ast.SetComp, ast.DictComp)) and user in p_.generators), None)
                compares = [c for c in ast.walk(host) if isinstance(c, ast.Compare)] if host is not None and not isinstance(host, ast.DictComp) else []
            if not any(isinstance(c, ast.Compare) for c in compares):
                continue
            n += 1
            a_, b_ = norm_text(z.args[0]), norm_text(z.args[1])
            lens = [c for c in nodes if isinstance(c, ast.Compare) and len(c.ops) == 1
                    and {norm_text(x.args[0]) for x in [c.left] + list(c.comparators)
                         if isinstance(x, ast.Call) and isinstance(x.func, ast.Name) and x.func.id == "len" and x.args} >= {a_, b_}]
            ctx.ob(rid, f, "zip-based comparison also compares the lengths", None, bool(lens),
                   f"`{norm_text(z)[:60]}`" + ("" if lens else ": nothing compares len() of the two - the shorter sequence decides"),
                   text=norm_text(z)[:50], line=z.lineno)
    if n == 0:
        ctx.ob(rid, ctx.fn("transaction.Transaction._validate_file_schema"), "no zip-based comparison in the validators", None, True,
               "nothing to judge", nontrivial=False)
