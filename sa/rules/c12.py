"""C12 - filters mean what SQL says, identically in every scan API."""
from __future__ import annotations

import ast
from typing import Dict, List, Optional, Set, Tuple

from ..cfg import NORMAL, Node
from ..core import Ctx
from ..flow import ALL, find_path, names_in
from ..model import AnalysisError, FunctionInfo, dotted, norm_text
from .common import facts_at, EnumVal, FnRef, explore, null_edges, owner_tops, resolve_value, str_consts, walk_all, edge_target, kwarg, reachable_from

EXPLANATION = (
    "Static analysis of filters.py and the scan APIs: (R1) the operator tables agree and are exhaustive (enum members = handler "
    "keys = parser range; pruned operators are a subset and the pruning chain falls through to 'may match'); (R2) malformed "
    "filters raise - no default operator, None handler -> raise, {'col': None} raises; (R3) a Kleene three-valued ABSTRACT "
    "INTERPRETATION of every handler's expression AST for a row whose field is NULL: every operator except IS_NULL must "
    "evaluate to False or NULL, IS_NULL to True, and the is_valid() conjunct is True for non-NULL rows (transfer functions for "
    "==,!=,<,<=,>,>=,&,~,is_in,is_valid,is_null,scalar from Arrow's documented semantics - trusted base); (R4) one engine for "
    "every API: Parquet is parsed only in the two reader helpers, the expression handed to them derives from "
    "to_pyarrow_compute_expression(parse_filter_dict(filter)), the filter is applied on every path with an expression, "
    "and projection follows the filter; (R5) between = GE lo AND LE hi; conjunction is an &-fold."
    " Also: (R6-R10) the pruning decision, the bound codec and the bounds' attachment (shared with C13) - every scan API prunes before it filters."
    " (R11) each operator handler has its SQL meaning on non-NULL rows: the handler expression is interpreted row-wise over a small ordered domain and compared with the operator's predicate."
    " (R12) the read path keeps no memo (C02.R6: instance, class and module-level state); (R13) one filter engine: FilterOp is interpreted only in the engine's module and every parsed filter feeds to_pyarrow_compute_expression."
    " (R17) no Parquet read is given filters= (statistics pushdown drops NaN rows for !=) [D19, fixed]; (R18) is_in is reached only for value sets without float literals - float members compare with == terms [D20, fixed]. R11's row-wise interpreter handles loops, any / isinstance, list indexing and module-level helpers."
    ' R4: the per-batch and per-file loops of _iter_file_batches run to exhaustion (no return / break out of them).')
NOT_DECIDED = ("Arrow kernel semantics (NaN, numeric coercion, pushdown == manual filter); multiset equality across APIs and "
               "batch sizes at run time")
ASSUMPTIONS = ["Arrow: comparison with a NULL operand yields NULL; is_in(NULL, set without NULL) is False; Kleene and/invert; "
               "Table.filter keeps rows whose mask is True"]


def check(ctx: Ctx) -> None:
    r1(ctx)
    r2(ctx)
    r3(ctx)
    r4(ctx)
    r5(ctx)
    r11(ctx)
    # every scan API prunes files by bounds before filtering: the pruning decision and the bound codec are part of
    # "returns exactly the rows satisfying the filter"
    from .c13 import r1r2 as c13_r1r2, r4 as c13_r4, r5r6 as c13_r5r6
    n0 = len(ctx.obs)
    c13_r1r2(ctx)
    c13_r4(ctx)
    c13_r5r6(ctx)
    ren = {"C13.R1": "C12.R6", "C13.R2": "C12.R7", "C13.R4": "C12.R8", "C13.R5": "C12.R9", "C13.R6": "C12.R10"}
    for o in ctx.obs[n0:]:
        o.rule = ren.get(o.rule, o.rule)
    for a, b in ren.items():
        if a in ctx.rule_text:
            ctx.rule_text[b] = ctx.rule_text.pop(a)
            ctx.floors[b] = ctx.floors.pop(a)
    # the filter is evaluated against the CURRENT schema (column name -> field id for pruning): the read path keeps no memo
    single_filter_engine(ctx)
    from .c20 import r2 as c20_r2
    ctx.shared(c20_r2, "C20.R2", "C12.R14", "scan APIs resolve the same snapshot: throttled / forbidden HEADs are errors, not absence")
    from .c20 import r12_stream_faithful
    r12_stream_faithful(ctx, "C12.R15")
    from .c10 import r7 as c10_r7
    ctx.shared(c10_r7, "C10.R7", "C12.R16", "every scan resolves the committed version from storage (no metadata cache keyed by a coarse mtime)")
    from .c02 import r6 as c02_r6
    ctx.shared(c02_r6, "C02.R6", "C12.R12", "a remembered schema maps a filter column to another column's bounds after the table "
               "is re-created at the same location")
    no_statistics_pushdown(ctx)
    membership_compares_like_equality(ctx)


def no_statistics_pushdown(ctx: Ctx, rid: str = "C12.R17") -> None:
    ctx.rule(rid, "the predicate is applied to decoded rows, never handed to the Parquet reader: no pq.read_table / ParquetFile / "
             "dataset call of the package is given `filters=` / `filter=` - pyarrow prunes row groups by min/max statistics, "
             "which exclude NaN, so `x != v` on a row group with min == max == v is dropped although its NaN rows satisfy it (and "
             "the verified path, which filters after decoding, answers differently)", 1)
    n = 0
    readers = ("read_table", "read_pandas", "ParquetFile", "ParquetDataset", "dataset", "read", "read_row_group", "read_row_groups",
               "iter_batches", "to_table", "scanner", "to_batches")
    for f in sorted(ctx.prog.functions.values(), key=lambda x: x.qname):
        if isinstance(f.node, ast.Lambda):
            continue
        g = ctx.cfg(f)
        for c in g.calls():
            if not isinstance(c.ast, ast.Call) or c.id not in g.reachable():
                continue
            leaf = (dotted(c.ast.func) or (c.ast.func.attr if isinstance(c.ast.func, ast.Attribute) else "")).split(".")[-1]
            if leaf not in readers:
                continue
            recv = norm_text(c.ast.func.value) if isinstance(c.ast.func, ast.Attribute) else ""
            if leaf in ("read", "dataset", "scanner") and not any(w in recv for w in ("pq", "pf", "parquet", "ds", "dataset")):
                continue
            if leaf in ("read_table", "ParquetFile", "ParquetDataset", "iter_batches", "to_table", "to_batches", "read_row_group", "read_row_groups", "read_pandas") \
                    or any(w in recv for w in ("pq", "parquet")):
                n += 1
                push = [k.arg for k in c.ast.keywords if k.arg in ("filters", "filter")]
                ctx.ob(rid, f, "Parquet read without a pushed-down predicate", c, not push,
                       "rows are decoded first and filtered by Table.filter / RecordBatch.filter" if not push else
                       f"`{push[0]}=` hands the predicate to pyarrow's row-group statistics pruning: `!=` (and NaN-sensitive comparisons) "
                       "lose rows that the post-decoding filter of the other read paths keeps "
                       "(repro: /verif/repro/repro_ne_pushdown.py) [D19]")
    if n == 0:
        raise AnalysisError("no Parquet read found in the package")


def membership_compares_like_equality(ctx: Ctx, rid: str = "C12.R18") -> None:
    ctx.rule(rid, "`x IN (v, ...)` is `x = v OR ...`: pc.is_in casts the value set to the COLUMN's type (0.1 -> 0.1f on a float32 "
             "column) while `==` compares in double precision and file pruning compares the literal with the bounds - so is_in is "
             "applied only to value sets without float literals (a guard on `isinstance(v, float)` dominates it); float members are "
             "compared with `==` terms", 1)
    n = 0
    for f in sorted(ctx.prog.functions.values(), key=lambda x: x.qname):
        if isinstance(f.node, ast.Lambda) or f.module.short != "filters":
            continue
        g = ctx.cfg(f)
        for c in g.calls():
            if not isinstance(c.ast, ast.Call) or c.id not in g.reachable():
                continue
            leaf = (dotted(c.ast.func) or (c.ast.func.attr if isinstance(c.ast.func, ast.Attribute) else "")).split(".")[-1]
            if leaf not in ("is_in", "isin", "index_in"):
                continue
            n += 1
            guarded = any(pol == "false" and "isinstance" in norm_text(e) and "float" in norm_text(e) for pol, e, _a in facts_at(ctx, f, c))
            typed = kwarg(c.ast, "value_set") is not None and isinstance(kwarg(c.ast, "value_set"), ast.Call) and \
                kwarg(kwarg(c.ast, "value_set"), "type") is not None and "float64" in norm_text(kwarg(kwarg(c.ast, "value_set"), "type"))
            ctx.ob(rid, f, "is_in never sees a float literal", c, guarded,
                   "reached only when no member of the value set is a Python float" if guarded else
                   "pc.is_in casts a float value set to the column type: on a float32 column `x IN (0.1)` matches 0.1f although "
                   "`x == 0.1` does not, and pruning (which compares 0.1 with the bounds) drops the file - the answer depends on "
                   "pruning (repro: /verif/repro/repro_float_membership.py) [D20]" + (" (typed value set noted)" if typed else ""))
    if n == 0:
        # no is_in at all: membership is built from equality terms - nothing to guard
        ctx.ob(rid, ctx.fn("filters._build_condition"), "membership is built without is_in", None, True, "only `==` terms", nontrivial=False)


def single_filter_engine(ctx: Ctx, rid: str = "C12.R13") -> None:
    ctx.rule(rid, "one filter engine: operators are interpreted only in the module that defines FilterOp / _build_condition / "
             "_file_may_match; every other function that parses a filter hands the parsed expressions to "
             "to_pyarrow_compute_expression (no API evaluates predicates with kernels of its own)", 2)
    home = {ctx.prog.cls("filters.FilterOp").module.name, ctx.fn("filters._build_condition").module.name,
            ctx.fn("filters._file_may_match").module.name}
    members = set(enum_members(ctx))
    n_sites = 0
    for m in sorted(ctx.prog.modules.values(), key=lambda x: x.name):
        if m.name in home:
            continue
        for x in ast.walk(m.tree):
            if isinstance(x, ast.Attribute) and x.attr in members and isinstance(x.value, ast.Name) and x.value.id == "FilterOp":
                ctx.ob(rid, None, "FilterOp member interpreted outside the filter engine", None, False,
                       f"`{norm_text(x)}` in {m.short}: a second predicate evaluator has its own NULL / in / not_in semantics - the APIs "
                       "stop returning the same multiset", text=f"{m.short}:{norm_text(x)}", file=m.relpath, line=x.lineno)
    for f in sorted(ctx.prog.functions.values(), key=lambda x: x.qname):
        if isinstance(f.node, ast.Lambda) or f.module.name in home:
            continue
        g = ctx.cfg(f)
        parses = [n for n in g.calls() if n.id in g.reachable() and any(t.name == "parse_filter_dict" for t in ctx.eff.callees(f, n))]
        if not parses:
            continue
        sl = ctx.slicer(f)
        engines = [n for n in g.calls() if any(t.name == "to_pyarrow_compute_expression" for t in ctx.eff.callees(f, n))]
        for pz in parses:
            n_sites += 1
            fed = any(isinstance(e.ast, ast.Call) and e.ast.args and pz.ast in sl.origins(e.ast.args[0], e.id)["calls"] for e in engines)
            ctx.ob(rid, f, "parsed filter is evaluated by to_pyarrow_compute_expression", pz, fed,
                   "the parsed expressions reach the one expression builder" if fed else
                   "this function parses a filter but never builds the engine's expression from it: it evaluates the predicate some other way")
    ctx.ob(rid, None, "filter-parsing functions enumerated", None, n_sites >= 2, f"{n_sites} parse sites outside the engine", nontrivial=False)


def enum_members(ctx: Ctx) -> List[str]:
    ci = ctx.prog.cls("filters.FilterOp")
    return sorted(ci.consts.keys())


def dict_tables(ctx: Ctx, f: FunctionInfo) -> List[Tuple[str, ast.Dict]]:
    """Dict literals f works with: assigned to a local name in f, or bound to a module / class level constant that f
    mentions.  Returns [(name, Dict)]."""
    out: List[Tuple[str, ast.Dict]] = []
    for n in ast.walk(f.node):
        if isinstance(n, (ast.Assign, ast.AnnAssign)) and isinstance(n.value, ast.Dict):
            tg = n.targets[0] if isinstance(n, ast.Assign) else n.target
            if isinstance(tg, ast.Name):
                out.append((tg.id, n.value))
    tables = [f.module.consts] + ([f.cls.consts] if f.cls is not None else [])
    for n in ast.walk(f.node):
        nm = n.id if isinstance(n, ast.Name) else (n.attr if isinstance(n, ast.Attribute) else None)
        if nm is None:
            continue
        for t in tables:
            v = t.get(nm)
            if isinstance(v, ast.Dict) and not any(v is d for _n, d in out):
                out.append((nm, v))
    return out


def _is_op(e: Optional[ast.AST]) -> bool:
    return isinstance(e, ast.Attribute) and dotted(e.value) == "FilterOp"


def handler_table(ctx: Ctx) -> Tuple[FunctionInfo, ast.Dict]:
    f = ctx.fn("filters._build_condition")
    for _nm, d in dict_tables(ctx, f):
        if d.keys and all(_is_op(k) for k in d.keys):
            return f, d
    raise AnalysisError("op_handlers table vanished from _build_condition")


def table_name(ctx: Ctx, f: FunctionInfo, d: ast.Dict) -> str:
    return next(nm for nm, x in dict_tables(ctx, f) if x is d)


def parse_table(ctx: Ctx) -> Tuple[FunctionInfo, ast.Dict]:
    po = ctx.fn("filters._parse_op")
    for _nm, d in dict_tables(ctx, po):
        if d.values and all(_is_op(v) for v in d.values):
            return po, d
    raise AnalysisError("operator mapping vanished from _parse_op")


_OPERATOR_FUNCS = {"eq": ast.Eq, "ne": ast.NotEq, "lt": ast.Lt, "le": ast.LtE, "gt": ast.Gt, "ge": ast.GtE}


def op_returns(ctx: Ctx) -> Dict[str, Dict[str, object]]:
    """What _build_condition does for each operator, by scenario: {op: {'exprs': [(expr AST, handler fn or None)],
    'raises': [class names], 'undecided': bool}}.  The CFG is walked path-sensitively with `<expr>.op` bound to the member
    (so a dict of lambdas looked up with .get, an if/elif chain on the operator, and a table of `operator.x` functions plus a
    chain are all read the same way); 'exprs' are the returned condition expressions, looked through handler functions."""
    f = ctx.fn("filters._build_condition")
    g = ctx.cfg(f)
    exprn = f.params[0].name if f.params else "expr"
    ci = ctx.prog.cls("filters.FilterOp")
    ends = [n.id for n in g.nodes if n.kind in ("return", "raise") and n.id in g.reachable()]
    out: Dict[str, Dict[str, object]] = {}
    scen: List[Tuple[str, object]] = [(m, EnumVal("FilterOp", m, ci.consts[m].value if isinstance(ci.consts[m], ast.Constant) else m))
                                      for m in enum_members(ctx)]
    scen.append(("<other>", EnumVal("FilterOp", "<other>", "<other>")))
    for op, val in scen:
        res = explore(ctx, f, [g.entry], env={exprn + ".op": val}, stop=ends)
        exprs: List[Tuple[ast.AST, object]] = []
        raises: List[str] = []
        undecided = False
        for end, store, asm in res:
            n = g.nodes[end]
            if n.kind == "raise":
                raises.append(n.raised or "?")
                continue
            if n.kind != "return" or n.ast.value is None:  # type: ignore[union-attr]
                continue
            for e_, at_ in resolve_value(ctx, f, n.ast.value, n.id):  # type: ignore[union-attr]
                if e_ is None:
                    continue
                # a call of a function value taken from a table / a local handler variable
                if isinstance(e_, ast.Call) and isinstance(e_.func, ast.Name):
                    fv = store.get(e_.func.id)
                    if fv is None and e_.func.id in f.nested:
                        fv = FnRef(e_.func)
                    if isinstance(fv, FnRef):
                        tgt = fv.node
                        if isinstance(tgt, ast.Lambda):
                            exprs.append((tgt.body, None))
                            continue
                        if isinstance(tgt, ast.Name) and tgt.id in f.nested:
                            nf = f.nested[tgt.id]
                            for r_ in [x.value for x in ast.walk(nf.node) if isinstance(x, ast.Return) and x.value is not None]:
                                exprs.append((r_, nf))
                            continue
                        if isinstance(tgt, ast.Attribute) and dotted(tgt.value) == "operator" and tgt.attr in _OPERATOR_FUNCS and len(e_.args) == 2:
                            cmp_ = ast.Compare(left=e_.args[0], ops=[_OPERATOR_FUNCS[tgt.attr]()], comparators=[e_.args[1]])
                            ast.copy_location(cmp_, e_)
                            ast.fix_missing_locations(cmp_)
                            exprs.append((cmp_, None))
                            continue
                        undecided = True
                        continue
                exprs.append((e_, None))
        # de-duplicate by text
        seen_txt: Set[str] = set()
        uniq = []
        for e_, h_ in exprs:
            t_ = norm_text(e_)
            if t_ not in seen_txt:
                seen_txt.add(t_)
                uniq.append((e_, h_))
        out[op] = {"exprs": uniq, "raises": raises, "undecided": undecided}
    return out


def r1(ctx: Ctx) -> None:
    ctx.rule("C12.R1", "operator tables agree and are exhaustive", 4)
    members = set(enum_members(ctx))
    f = ctx.fn("filters._build_condition")
    opr = op_returns(ctx)
    keys = {m for m in members if opr[m]["exprs"]}
    ctx.ob("C12.R1", f, "handler keys == FilterOp members", None, keys == members,
           f"operators for which _build_condition returns no condition: {sorted(members - keys)}", text="op_handlers")
    po, mp = parse_table(ctx)
    mapped = {v.attr for v in mp.values if isinstance(v, ast.Attribute)}
    pf = ctx.fn("filters.parse_filter_dict")
    direct = {a.attr for n in walk_all(ctx, pf) if isinstance(n, ast.Call) and (dotted(n.func) or "") == "FilterExpression"
              for a in n.args[1:2] if isinstance(a, ast.Attribute)}
    ctx.ob("C12.R1", po, "parser range == FilterOp members", None, (mapped | direct) == members,
           f"_parse_op maps to {sorted(mapped)}; parse_filter_dict constructs {sorted(direct)}; unreachable operators: "
           f"{sorted(members - mapped - direct)}", text="mapping")
    # string spellings are consistent with the enum values
    ci = ctx.prog.cls("filters.FilterOp")
    bad = []
    for k, v in zip(mp.keys, mp.values):
        if isinstance(k, ast.Constant) and isinstance(v, ast.Attribute):
            ev = ci.consts.get(v.attr)
            if isinstance(ev, ast.Constant) and k.value == ev.value:
                continue
            # aliases are fine; only check that the canonical spelling maps to its own member
    for name, ev in ci.consts.items():
        if isinstance(ev, ast.Constant) and name in mapped:
            tgt = [v.attr for k, v in zip(mp.keys, mp.values) if isinstance(k, ast.Constant) and k.value == ev.value and isinstance(v, ast.Attribute)]
            if tgt != [name]:
                bad.append((ev.value, tgt, name))
    ctx.ob("C12.R1", po, "canonical spelling maps to its own operator", None, not bad, f"mismatches: {bad}", text="canonical")
    fm = ctx.fn("filters._file_may_match")
    pruned = {c.comparators[0].attr for n in ast.walk(fm.node) if isinstance(n, ast.Compare)
              for c in [n] if isinstance(n.left, ast.Attribute) and n.left.attr == "op" and isinstance(n.comparators[0], ast.Attribute)}
    g = ctx.cfg(fm)
    rets = [n for n in g.nodes if n.kind == "return" and n.id in g.reachable()]
    last = max(rets, key=lambda n: n.lineno) if rets else None
    ok_ft = last is not None and isinstance(last.ast.value, ast.Constant) and last.ast.value.value is True  # type: ignore[union-attr]
    ctx.ob("C12.R1", fm, "pruned operators are FilterOp members and the chain falls through to 'may match'", last,
           pruned <= members and ok_ft, f"pruned operators {sorted(pruned)}; final return True: {ok_ft}", text="prune-chain")


def r2(ctx: Ctx) -> None:
    ctx.rule("C12.R2", "malformed filters raise instead of being reinterpreted", 4)
    po, mp = parse_table(ctx)
    mname = table_name(ctx, po, mp)
    g = ctx.cfg(po)
    gets = [n for n in g.calls() if isinstance(n.ast, ast.Call) and isinstance(n.ast.func, ast.Attribute) and n.ast.func.attr == "get"
            and (dotted(n.ast.func.value) or "").split(".")[-1] == mname]
    for x in gets:
        ctx.ob("C12.R2", po, "mapping.get has no default operator", x, len(x.ast.args) == 1 and not x.ast.keywords,  # type: ignore[union-attr]
               "an unknown operator must not be coerced to equality (audit #25)")
    subs = [n for n in ast.walk(po.node) if isinstance(n, ast.Subscript) and (dotted(n.value) or "").split(".")[-1] == mname]
    brs = [b for b in g.nodes if b.kind == "branch" and "is None" in b.text]
    ok = False
    for b in brs:
        t = edge_target(g, b, "true")
        if t is not None and any(g.nodes[x].kind == "raise" for x in reachable_from(g, t, NORMAL)) and g.exit not in reachable_from(g, t, NORMAL):
            ok = True
    ctx.ob("C12.R2", po, "unknown operator -> ValueError", brs[0] if brs else None, ok or bool(subs), "None -> raise (or a KeyError subscript)")
    bc = ctx.fn("filters._build_condition")
    other = op_returns(ctx)["<other>"]
    ctx.ob("C12.R2", bc, "unsupported operator -> ValueError", None,
           not other["exprs"] and bool(other["raises"]) and all(r == "ValueError" for r in other["raises"]),  # type: ignore[union-attr]
           f"scenario: an operator outside the enum's handled members -> returns {len(other['exprs'])} condition(s), raises {other['raises']}",  # type: ignore[arg-type]
           text="other")
    pf = ctx.fn("filters.parse_filter_dict")
    pg = ctx.cfg(pf)
    loopv = [l.ast.target.elts[1].id for l in pg.nodes if l.kind == "loop" and isinstance(l.ast, ast.For)
             and isinstance(l.ast.target, ast.Tuple) and len(l.ast.target.elts) == 2 and isinstance(l.ast.target.elts[1], ast.Name)]
    brs = [b for b in pg.nodes if b.kind == "branch" and isinstance(b.ast, ast.Compare) and isinstance(b.ast.ops[0], ast.Is)
           and isinstance(b.ast.left, ast.Name) and b.ast.left.id in loopv
           and isinstance(b.ast.comparators[0], ast.Constant) and b.ast.comparators[0].value is None]
    ok = False
    for b in brs:
        t = edge_target(pg, b, "true")
        if t is not None:
            reach = reachable_from(pg, t, NORMAL, avoid=[n.id for n in pg.nodes if n.kind == "loop"])
            ok = any(pg.nodes[x].kind == "raise" for x in reach) and not any(pg.nodes[x].kind == "call" and "FilterExpression" in pg.nodes[x].text for x in reach)
    ctx.ob("C12.R2", pf, "{'col': None} raises", brs[0] if brs else None, ok, "equality with NULL matches nothing; refuse instead")
    # every other branch of parse_filter_dict goes through _parse_op or a literal operator
    ctors = [n for n in pg.calls() if n.callee and n.callee.kind == "ctor" and n.callee.cls and n.callee.cls.name == "FilterExpression"]
    bad = []
    for c in ctors:
        a = c.ast.args[1] if isinstance(c.ast, ast.Call) and len(c.ast.args) > 1 else kwarg(c.ast, "op")
        if isinstance(a, ast.Attribute) and dotted(a.value) == "FilterOp":
            continue
        if isinstance(a, ast.Name):
            defs = ctx.rd(pf).reaching(c.id, a.id)
            if defs and all("_parse_op" in norm_text(pg.nodes[d].ast) for d in defs if pg.nodes[d].ast is not None):
                continue
        if isinstance(a, ast.Call) and (dotted(a.func) or "").split(".")[-1] == "_parse_op":
            continue  # FilterExpression(column, _parse_op(op_str), value)
        bad.append(c)
    ctx.ob("C12.R2", pf, "every FilterExpression gets a literal operator or _parse_op's result", bad[0] if bad else None, not bad, "")


# ------------------------------------------------------------ Kleene interpreter
T_, F_, N_, TOP = "T", "F", "N", "?"


def k_and(a: str, b: str) -> str:
    if a == F_ or b == F_:
        return F_
    if a == TOP or b == TOP:
        return TOP
    if a == N_ or b == N_:
        return N_
    return T_


def k_not(a: str) -> str:
    return {T_: F_, F_: T_, N_: N_}.get(a, TOP)


def k_or(a: str, b: str) -> str:
    return k_not(k_and(k_not(a), k_not(b)))


def kleene(e: ast.AST, field_is_null: bool, field_name: str = "field") -> str:
    """Abstract value of a pyarrow compute expression for one row, given whether the field is NULL."""
    if isinstance(e, ast.Compare) and len(e.ops) == 1:
        l, r = e.left, e.comparators[0]
        inv = isinstance(l, ast.Name) and l.id == field_name or isinstance(r, ast.Name) and r.id == field_name
        if inv and isinstance(e.ops[0], (ast.Eq, ast.NotEq, ast.Lt, ast.LtE, ast.Gt, ast.GtE)):
            return N_ if field_is_null else TOP  # comparison with NULL is NULL; with a value: data dependent
        return TOP
    if isinstance(e, ast.BinOp) and isinstance(e.op, ast.BitAnd):
        return k_and(kleene(e.left, field_is_null, field_name), kleene(e.right, field_is_null, field_name))
    if isinstance(e, ast.BinOp) and isinstance(e.op, ast.BitOr):
        return k_or(kleene(e.left, field_is_null, field_name), kleene(e.right, field_is_null, field_name))
    if isinstance(e, ast.UnaryOp) and isinstance(e.op, ast.Invert):
        return k_not(kleene(e.operand, field_is_null, field_name))
    if isinstance(e, ast.Call):
        fn = dotted(e.func) or ""
        if fn == f"{field_name}.is_null" and not e.args and not e.keywords:
            return T_ if field_is_null else F_
        if fn == f"{field_name}.is_valid":
            return F_ if field_is_null else T_
        if fn.endswith("is_in") and e.args and isinstance(e.args[0], ast.Name) and e.args[0].id == field_name:
            sk = [k for k in e.keywords if k.arg == "skip_nulls"]
            return F_ if field_is_null else TOP  # value set holds no NULL (checked separately)
        if fn.endswith("is_null") and e.args and isinstance(e.args[0], ast.Name) and e.args[0].id == field_name:
            return T_ if field_is_null else F_
        if fn.endswith("is_valid") and e.args and isinstance(e.args[0], ast.Name) and e.args[0].id == field_name:
            return F_ if field_is_null else T_
        if fn.endswith("scalar") and e.args and isinstance(e.args[0], ast.Constant):
            return T_ if e.args[0].value is True else (F_ if e.args[0].value is False else TOP)
        if fn.endswith("invert") and e.args:
            return k_not(kleene(e.args[0], field_is_null, field_name))
        if fn.endswith(("and_kleene", "and_")) and len(e.args) == 2:
            return k_and(kleene(e.args[0], field_is_null, field_name), kleene(e.args[1], field_is_null, field_name))
    return TOP


def handler_returns(ctx: Ctx, f: FunctionInfo, v: ast.AST) -> List[ast.AST]:
    """Return expressions of a handler given as a lambda or the name of a nested function."""
    if isinstance(v, ast.Lambda):
        return [v.body]
    if isinstance(v, ast.Name) and v.id in f.nested:
        return [n.value for n in ast.walk(f.nested[v.id].node) if isinstance(n, ast.Return) and n.value is not None]
    return []


class _NoEval(Exception):
    pass


def _cval(e: ast.AST, env: Dict[str, object], fld: str, exprn: str) -> object:
    """Concrete value of a handler expression for ONE non-NULL row (field value env[fld]) and literal env['@value']:
    pyarrow expression operators are read with their documented row-level meaning (the trusted base of R3)."""
    if isinstance(e, ast.Constant):
        return e.value
    if isinstance(e, ast.Name):
        if e.id in env:
            return env[e.id]
        fn_ = env.get("@fn")
        if fn_ is not None and e.id in fn_.nested:
            return ("fn", fn_.nested[e.id])
        if fn_ is not None and env.get("@ctx") is not None:
            mf = env["@ctx"].prog.functions.get(f"{fn_.module.name}.{e.id}")  # type: ignore[union-attr]
            if mf is not None:
                return ("fn", mf)  # a module-level helper of the same module
        if fn_ is not None and isinstance(fn_.module.consts.get(e.id), ast.Dict):
            return ("dict", fn_.module.consts[e.id])
        raise _NoEval(e.id)
    if isinstance(e, ast.Lambda):
        return ("lam", e)
    if isinstance(e, ast.Dict):
        return ("dict", e)
    if isinstance(e, ast.Attribute):
        if dotted(e) == f"{exprn}.value":
            return env["@value"]
        if dotted(e) == f"{exprn}.op" and "@op" in env:
            return ("op", env["@op"])
        if isinstance(e.value, ast.Name) and e.value.id == "FilterOp":
            return ("op", e.attr)
        if isinstance(e.value, ast.Name) and e.value.id == "operator" and e.attr in _OPERATOR_FUNCS:
            import operator as _op
            return ("pyop", getattr(_op, e.attr))
        raise _NoEval(dotted(e) or "attribute")
    if isinstance(e, ast.Subscript):
        base = _cval(e.value, env, fld, exprn)
        if isinstance(base, tuple) and base and base[0] == "dict":
            key = _cval(e.slice, env, fld, exprn)
            for k, v in zip(base[1].keys, base[1].values):
                if k is not None and _cval(k, env, fld, exprn) == key:
                    return _cval(v, env, fld, exprn)
            raise _NoEval("missing key")
        if isinstance(base, list):
            if isinstance(e.slice, ast.Slice):
                lo = _cval(e.slice.lower, env, fld, exprn) if e.slice.lower is not None else None
                hi = _cval(e.slice.upper, env, fld, exprn) if e.slice.upper is not None else None
                st = _cval(e.slice.step, env, fld, exprn) if e.slice.step is not None else None
                return base[lo:hi:st]  # type: ignore[misc]
            i = _cval(e.slice, env, fld, exprn)
            if isinstance(i, int) and not isinstance(i, bool) and -len(base) <= i < len(base):
                return base[i]
            raise _NoEval("index out of range")
        raise _NoEval("subscript")
    if isinstance(e, ast.Compare) and len(e.ops) == 1:
        a, b = _cval(e.left, env, fld, exprn), _cval(e.comparators[0], env, fld, exprn)
        t = type(e.ops[0])
        table = {ast.Eq: lambda: a == b, ast.NotEq: lambda: a != b, ast.Lt: lambda: a < b, ast.LtE: lambda: a <= b,
                 ast.Gt: lambda: a > b, ast.GtE: lambda: a >= b,
                 ast.Is: lambda: (a == b) if isinstance(a, tuple) or isinstance(b, tuple) else (a is b),
                 ast.IsNot: lambda: (a != b) if isinstance(a, tuple) or isinstance(b, tuple) else (a is not b),
                 ast.In: lambda: a in b, ast.NotIn: lambda: a not in b}
        if t not in table:
            raise _NoEval(t.__name__)
        return table[t]()
    if isinstance(e, ast.BinOp) and isinstance(e.op, (ast.BitAnd, ast.BitOr)):
        a, b = bool(_cval(e.left, env, fld, exprn)), bool(_cval(e.right, env, fld, exprn))
        return (a and b) if isinstance(e.op, ast.BitAnd) else (a or b)
    if isinstance(e, ast.UnaryOp) and isinstance(e.op, (ast.Invert, ast.Not)):
        return not bool(_cval(e.operand, env, fld, exprn))
    if isinstance(e, ast.BoolOp):
        vals = [_cval(v, env, fld, exprn) for v in e.values]
        return all(vals) if isinstance(e.op, ast.And) else any(vals)
    if isinstance(e, (ast.ListComp, ast.GeneratorExp)) and len(e.generators) == 1 and isinstance(e.generators[0].target, ast.Name):
        gen = e.generators[0]
        out = []
        for x in _cval(gen.iter, env, fld, exprn):  # type: ignore[union-attr]
            env2 = dict(env, **{gen.target.id: x})
            if all(_cval(c, env2, fld, exprn) for c in gen.ifs):
                out.append(_cval(e.elt, env2, fld, exprn))
        return out
    if isinstance(e, (ast.List, ast.Tuple)):
        return [_cval(x, env, fld, exprn) for x in e.elts]
    if isinstance(e, ast.Call) and isinstance(e.func, ast.Attribute) and e.func.attr == "get" and e.args:
        try:
            base = _cval(e.func.value, env, fld, exprn)
        except _NoEval:
            base = None
        if isinstance(base, tuple) and base and base[0] == "dict":
            key = _cval(e.args[0], env, fld, exprn)
            for k, v in zip(base[1].keys, base[1].values):
                if k is not None and _cval(k, env, fld, exprn) == key:
                    return _cval(v, env, fld, exprn)
            return _cval(e.args[1], env, fld, exprn) if len(e.args) > 1 else None
    if isinstance(e, ast.Call) and isinstance(e.func, ast.Name) and e.func.id in ("any", "all") and len(e.args) == 1 and not e.keywords:
        seq = _cval(e.args[0], env, fld, exprn)
        if not isinstance(seq, list):
            raise _NoEval(e.func.id + " of a non-list")
        return any(bool(x) for x in seq) if e.func.id == "any" else all(bool(x) for x in seq)
    if isinstance(e, ast.Call) and isinstance(e.func, ast.Name) and e.func.id == "isinstance" and len(e.args) == 2:
        v_ = _cval(e.args[0], env, fld, exprn)
        names = [dotted(t) for t in (e.args[1].elts if isinstance(e.args[1], ast.Tuple) else [e.args[1]])]
        py = {"float": float, "int": int, "str": str, "bool": bool, "bytes": bytes, "list": list, "tuple": tuple}
        if not all(nm in py for nm in names):
            raise _NoEval("isinstance " + str(names))
        return isinstance(v_, tuple(py[nm] for nm in names))  # type: ignore[arg-type]
    if isinstance(e, ast.Call) and isinstance(e.func, ast.Name) and e.func.id not in ("len", "bool", "list", "set", "tuple", "frozenset"):
        try:
            fv = _cval(e.func, env, fld, exprn)
        except _NoEval:
            fv = None
        if isinstance(fv, tuple) and fv and fv[0] == "lam":
            lam = fv[1]
            sub = dict(env)
            sub.update({a.arg: _cval(x, env, fld, exprn) for a, x in zip(lam.args.args, e.args)})
            return _cval(lam.body, sub, fld, exprn)
        if isinstance(fv, tuple) and fv and fv[0] == "pyop":
            return fv[1](*[_cval(x, env, fld, exprn) for x in e.args])
        if isinstance(fv, tuple) and fv and fv[0] == "fn":
            sub = dict(env)
            sub.update({p_.name: _cval(x, env, fld, exprn) for p_, x in zip(fv[1].params, e.args)})
            return _run_handler(env["@ctx"], env["@fn"], ast.Name(id=fv[1].name, ctx=ast.Load()), sub, fld, exprn)
    if isinstance(e, ast.Call):
        fn = dotted(e.func) or ""
        leaf = fn.split(".")[-1]
        if fn in (f"{fld}.is_valid",) or (leaf == "is_valid" and e.args and dotted(e.args[0]) == fld):
            return True
        if fn in (f"{fld}.is_null",) or (leaf == "is_null" and e.args and dotted(e.args[0]) == fld):
            return False
        if leaf == "is_in" or fn == f"{fld}.isin":
            vs = next((k.value for k in e.keywords if k.arg == "value_set"), None)
            if vs is None:
                vs = e.args[-1] if e.args else None
            if vs is None:
                raise _NoEval("is_in without a value set")
            return env[fld] in _cval(vs, env, fld, exprn)  # type: ignore[operator]
        if leaf in ("array", "list", "set", "tuple", "frozenset") and e.args:
            return list(_cval(e.args[0], env, fld, exprn))  # type: ignore[call-overload]
        if leaf == "scalar" and e.args:
            return _cval(e.args[0], env, fld, exprn)
        if leaf == "invert" and e.args:
            return not bool(_cval(e.args[0], env, fld, exprn))
        if leaf in ("and_", "and_kleene") and len(e.args) == 2:
            return bool(_cval(e.args[0], env, fld, exprn)) and bool(_cval(e.args[1], env, fld, exprn))
        if leaf in ("or_", "or_kleene") and len(e.args) == 2:
            return bool(_cval(e.args[0], env, fld, exprn)) or bool(_cval(e.args[1], env, fld, exprn))
        if leaf in ("equal", "not_equal", "less", "less_equal", "greater", "greater_equal") and len(e.args) == 2:
            a, b = _cval(e.args[0], env, fld, exprn), _cval(e.args[1], env, fld, exprn)
            return {"equal": a == b, "not_equal": a != b, "less": a < b, "less_equal": a <= b,  # type: ignore[operator]
                    "greater": a > b, "greater_equal": a >= b}[leaf]  # type: ignore[operator]
        if leaf == "len" and e.args:
            return len(_cval(e.args[0], env, fld, exprn))  # type: ignore[arg-type]
        if leaf == "bool" and e.args:
            return bool(_cval(e.args[0], env, fld, exprn))
        raise _NoEval("call " + fn)
    raise _NoEval(type(e).__name__)


def _run_handler(ctx: Ctx, f: FunctionInfo, v: ast.AST, env: Dict[str, object], fld: str, exprn: str) -> object:
    """Value of one handler (a lambda, or a nested function interpreted over its CFG) for one row / literal."""
    if isinstance(v, ast.Lambda):
        return _cval(v.body, env, fld, exprn)
    if isinstance(v, ast.Name) and (v.id in f.nested or ctx.prog.functions.get(f"{f.module.name}.{v.id}") is not None):
        nf = f.nested[v.id] if v.id in f.nested else ctx.prog.functions[f"{f.module.name}.{v.id}"]
        g = ctx.cfg(nf)
        cur: Optional[int] = g.entry
        envl = dict(env)
        for _ in range(300):
            if cur is None or cur == g.exit:
                return None
            n = g.nodes[cur]
            if n.kind == "return":
                return _cval(n.ast.value, envl, fld, exprn) if n.ast.value is not None else None  # type: ignore[union-attr]
            if n.kind == "raise":
                raise _NoEval("raise")
            if n.kind == "branch" and n.ast is not None:
                cur = edge_target(g, n, "true" if _cval(n.ast, envl, fld, exprn) else "false")
                continue
            if n.kind == "loop" and isinstance(n.ast, ast.For) and isinstance(n.ast.target, ast.Name):
                # `for v in <list>`: the list is evaluated on entry, one element per visit
                key = f"@iter{n.id}"
                if key not in envl:
                    seq = _cval(n.ast.iter, envl, fld, exprn)
                    if not isinstance(seq, list):
                        raise _NoEval("loop over a non-list")
                    envl[key] = list(seq)
                rest = envl[key]
                if rest:  # type: ignore[truthy-bool]
                    envl[n.ast.target.id] = rest.pop(0)  # type: ignore[attr-defined]
                    cur = edge_target(g, n, "true")
                else:
                    del envl[key]
                    cur = edge_target(g, n, "false")
                continue
            if n.kind == "stmt" and isinstance(n.ast, ast.Assign) and len(n.ast.targets) == 1 and isinstance(n.ast.targets[0], ast.Name):
                envl[n.ast.targets[0].id] = _cval(n.ast.value, envl, fld, exprn)
            nxt = [d for d, l in g.succ[cur] if l in NORMAL]
            cur = nxt[0] if nxt else None
        raise _NoEval("no result within 300 steps")
    raise _NoEval("handler " + norm_text(v))


def _run_build_condition(ctx: Ctx, f: FunctionInfo, op: str, x: object, lit: object, fld: str, exprn: str) -> object:
    """Value of _build_condition(expr, field) for one non-NULL row: its CFG is interpreted with `<expr>.op` = op; the result of
    a helper analysed in place is carried from its return statement to its call."""
    g = ctx.cfg(f)
    ret_call = {nid: cid for cid, lst in g.inline_returns.items() for (_e, nid) in lst}
    env: Dict[str, object] = {fld: x, "@value": lit, "@op": op, "@ctx": ctx, "@fn": f}
    rets: Dict[int, object] = {}

    def val(e: Optional[ast.AST]) -> object:
        if e is None:
            return None
        if isinstance(e, ast.Call) and id(e) in g.inline_returns:
            if id(e) not in rets:
                raise _NoEval("helper result")
            return rets[id(e)]
        return _cval(e, env, fld, exprn)

    cur: Optional[int] = g.entry
    for _ in range(600):
        if cur is None or cur == g.exit:
            return None
        n = g.nodes[cur]
        if n.kind == "return":
            return val(n.ast.value)  # type: ignore[union-attr]
        if n.kind == "raise":
            raise _NoEval("raise " + (n.raised or ""))
        if n.kind == "branch" and n.ast is not None:
            cur = edge_target(g, n, "true" if val(n.ast) else "false")
            continue
        if n.kind == "loop" and isinstance(n.ast, ast.For) and isinstance(n.ast.target, ast.Name):
            key = f"@iter{n.id}"
            if key not in env:
                seq = val(n.ast.iter)
                if not isinstance(seq, list):
                    raise _NoEval("loop over a non-list")
                env[key] = list(seq)
            rest = env[key]
            if rest:  # type: ignore[truthy-bool]
                env[n.ast.target.id] = rest.pop(0)  # type: ignore[attr-defined]
                cur = edge_target(g, n, "true")
            else:
                del env[key]
                cur = edge_target(g, n, "false")
            continue
        if n.kind == "stmt" and isinstance(n.ast, ast.Return) and cur in ret_call:
            rets[ret_call[cur]] = val(n.ast.value)
        elif n.kind == "stmt" and isinstance(n.ast, ast.Assign) and len(n.ast.targets) == 1 and isinstance(n.ast.targets[0], ast.Name):
            env[n.ast.targets[0].id] = val(n.ast.value)
        nxt = [d for d, l in g.succ[cur] if l in NORMAL]
        cur = nxt[0] if nxt else None
    raise _NoEval("no result within 600 steps")


def r11(ctx: Ctx) -> None:
    ctx.rule("C12.R11", "each operator's handler has its SQL meaning on non-NULL rows: for every field value and literal of a small "
             "ordered domain the handler's expression (pyarrow operators read row-wise) equals the operator's predicate", 10)
    from .c13 import OPS
    f = ctx.fn("filters._build_condition")
    fld = f.params[1].name if len(f.params) > 1 else "field"
    exprn = f.params[0].name if f.params else "expr"
    dom = (0, 1, 2)
    for op in enum_members(ctx):
        if op in ("IN", "NOT_IN"):
            lits: List[object] = [[], [0], [1, 2], [0, None], [None], [2, 2], [0.0], [1.0, 2.0], [0.5, None], [2, 0.5]]
            want = (lambda x, lit: x in [y for y in lit if y is not None]) if op == "IN" else \
                (lambda x, lit: x not in [y for y in lit if y is not None])
        elif op == "IS_NULL":
            lits, want = [None], (lambda x, lit: False)
        elif op == "IS_NOT_NULL":
            lits, want = [None], (lambda x, lit: True)
        elif op in OPS:
            lits, want = list(dom), OPS[op]
        else:
            ctx.ob("C12.R11", f, f"{op}: operator has a known predicate", None, False, "no row-level semantics known", text=op)
            continue
        bad = None
        cells = 0
        try:
            for x in dom:
                for lit in lits:
                    got = bool(_run_build_condition(ctx, f, op, x, lit, fld, exprn))
                    cells += 1
                    if got != bool(want(x, lit)) and bad is None:
                        bad = f"field={x}, literal={lit!r}: the condition built for {op} gives {got}, {op} means {bool(want(x, lit))}"
        except _NoEval as u:
            ctx.ob("C12.R11", f, f"{op}: handler is in the interpreted expression language", None, False,
                   f"the condition built for {op} uses `{u}` which the row-wise interpreter does not model", text=op)
            continue
        ctx.ob("C12.R11", f, f"{op}: handler == predicate on every (value, literal) cell", None, bad is None,
               f"{cells} cells; " + (bad or "all agree"), text=op)


def r3(ctx: Ctx) -> None:
    ctx.rule("C12.R3", "NULL never matches: Kleene abstract interpretation of each operator handler for a NULL row", 10)
    f = ctx.fn("filters._build_condition")
    fld = f.params[1].name if len(f.params) > 1 else "field"
    opr = op_returns(ctx)
    for op in enum_members(ctx):
        rets = [e for e, _h in opr[op]["exprs"]]  # type: ignore[union-attr]
        if not rets or opr[op]["undecided"]:
            ctx.ob("C12.R3", f, f"handler {op} is analysable", None, False, f"no condition expression resolved for {op}", text=op)
            continue
        for i, e in enumerate(rets):
            val = kleene(e, True, fld)
            nn = kleene(e, False, fld)
            if op == "IS_NULL":
                ok = val == T_ and nn == F_
                want = "True for NULL, False otherwise"
            elif op == "IS_NOT_NULL":
                ok = val == F_ and nn == T_
                want = "False for NULL, True otherwise"
            else:
                ok = val in (F_, N_)
                want = "False or NULL for a NULL row (never selected)"
            ctx.ob("C12.R3", f, f"{op}: NULL-row value of `{norm_text(e)[:70]}`", None, ok,
                   f"abstract value for field=NULL: {val}; for field!=NULL: {nn}; required: {want}"
                   + ("" if ok else " - rows whose field is NULL would be returned by this operator"), text=f"{op}#{i}")
    # the value sets handed to is_in carry no NULL (else is_in(NULL) could be True)
    for nf in f.nested.values():
        for c in [n for n in ast.walk(nf.node) if isinstance(n, ast.Call) and (dotted(n.func) or "").endswith("is_in")]:
            vs = kwarg(c, "value_set", 1)
            g = ctx.cfg(nf)
            src = norm_text(vs) if vs is not None else ""
            filt = [n for n in ast.walk(nf.node) if isinstance(n, ast.ListComp) and any("is not None" in norm_text(i) for gen in n.generators for i in gen.ifs)]
            uses = any(isinstance(t, ast.Name) and t.id in src for n in ast.walk(nf.node) if isinstance(n, ast.Assign) and n.value in filt for t in n.targets)
            pnames = [p_.name for p_ in nf.params]
            if not uses and any(pn in src for pn in pnames):
                # the value set is the helper's parameter (`_matches_any(values)`): every caller hands it a list built by a
                # comprehension that filters `is not None`
                verdicts = []
                for caller in f.nested.values():
                    if caller is nf:
                        continue
                    cfilt = [n for n in ast.walk(caller.node) if isinstance(n, ast.ListComp)
                             and any("is not None" in norm_text(i) for gen in n.generators for i in gen.ifs)]
                    good = {t.id for n in ast.walk(caller.node) if isinstance(n, ast.Assign) and n.value in cfilt for t in n.targets if isinstance(t, ast.Name)}

                    def _filtering_helper(v_: ast.AST) -> bool:
                        """`values = _non_null_values()`: a sibling helper every return of which is such a filtering comprehension"""
                        if not (isinstance(v_, ast.Call) and isinstance(v_.func, ast.Name) and v_.func.id in f.nested):
                            return False
                        rets_ = [r_.value for r_ in ast.walk(f.nested[v_.func.id].node) if isinstance(r_, ast.Return)]
                        return bool(rets_) and all(isinstance(r_, ast.ListComp) and any(
                            "is not None" in norm_text(i) for gen in r_.generators for i in gen.ifs) for r_ in rets_)
                    good |= {t.id for n in ast.walk(caller.node) if isinstance(n, ast.Assign) and _filtering_helper(n.value)
                             for t in n.targets if isinstance(t, ast.Name)}
                    for call in [n for n in ast.walk(caller.node) if isinstance(n, ast.Call) and isinstance(n.func, ast.Name) and n.func.id == nf.name]:
                        for pn, a in zip(pnames, call.args):
                            if pn in src:
                                verdicts.append(isinstance(a, ast.Name) and a.id in good)
                if verdicts and all(verdicts):
                    filt, uses = [True], True  # type: ignore[list-item]
            ctx.ob("C12.R3", nf, "is_in value set excludes NULL", None, bool(filt) and uses,
                   f"value_set `{src}` is built from a comprehension filtering `is not None`", text=nf.name)


def r4(ctx: Ctx) -> None:
    ctx.rule("C12.R4", "one engine, every API: Parquet is parsed only in the two reader helpers; the expression derives from "
             "to_pyarrow_compute_expression(parse_filter_dict(filter)); the filter is applied whenever an expression exists; "
             "projection follows the filter", 8)
    table = ctx.prog.cls("transaction.Table")
    helpers = {"_read_datafile_table", "_iter_file_batches"}
    for m in table.methods.values():
        owners = {o.name for o in owner_tops(ctx, m)}
        if ctx.prog.is_transparent(m) and owners:
            # a helper introduced later is part of the readers that use it: it may only be used by the two reader helpers
            in_helpers = owners <= helpers
        else:
            in_helpers = m.name in helpers
        for n in ctx.cfg(m).calls():
            if n.callee and n.callee.kind == "prim" and n.callee.name in ("pyarrow.parquet.read_table", "pyarrow.parquet.ParquetFile",
                                                                         "method.read_table", "method.ParquetFile"):
                ctx.ob("C12.R4", m, "Parquet parse site", n, in_helpers,
                       "every scan API reads data files through the same two helpers", nontrivial=False)
    apis = ["scan", "to_pandas", "scan_batches", "iter_records", "iter_pandas"]
    for a in apis:
        m = table.methods.get(a)
        if m is None:
            raise AnalysisError(f"read API vanished: {a}")
        reached = {t.name for f_, n_, _c in ctx.eff.transitive_calls(m) for t in ctx.eff.callees(f_, n_)}
        ctx.ob("C12.R4", m, f"{a} reaches a reader helper", None, bool(reached & helpers),
               f"reaches {sorted(reached & helpers)}", text=a)
    for q in ("transaction.Table._scan_table", "transaction.Table.scan_batches"):
        f = ctx.fn(q)
        sl = ctx.slicer(f)
        g = ctx.cfg(f)
        sinks = [n for n in g.calls() if any(t.name in helpers for t in ctx.eff.callees(f, n))]
        # _scan_table passes compute_expr through the closure read_one
        if not sinks:
            sinks = [n for nf in f.nested.values() for n in ctx.cfg(nf).calls() if any(t.name in helpers for t in ctx.eff.callees(nf, n))]
        cvars = set()
        for sk in sinks:
            for t in ctx.eff.callees(f if sk in g.calls() else next(nf for nf in f.nested.values() if sk in ctx.cfg(nf).calls()), sk):
                if t.name in helpers:
                    a = ctx.eff.bind_arg(sk.ast, t, "compute_expr", True)  # type: ignore[arg-type]
                    if isinstance(a, ast.Name):
                        cvars.add(a.id)
        defs = [n for n in g.nodes if n.kind == "stmt" and isinstance(n.ast, ast.Assign)
                and any(isinstance(t, ast.Name) and t.id in cvars for t in n.ast.targets)]
        # `= None` (no filter given) is the other arm of `X if expressions else None`
        defs = [d_ for d_ in defs if not (isinstance(d_.ast.value, ast.Constant) and d_.ast.value.value is None)]  # type: ignore[union-attr]
        ok = bool(defs)
        for dnode in defs:
            org = sl.origins(dnode.ast.value, dnode.id)  # type: ignore[union-attr]
            names = {(dotted(c.func) or "") for c in org["calls"] if isinstance(c, ast.Call)}
            ok = ok and "to_pyarrow_compute_expression" in names and "parse_filter_dict" in names
        ctx.ob("C12.R4", f, "compute_expr = to_pyarrow_compute_expression(parse_filter_dict(filter))", defs[0] if defs else None,
               ok and bool(sinks), "every API builds the predicate with the same two functions")
        for s in sinks:
            passed = bool(cvars & names_in(s.ast))
            ctx.ob("C12.R4", f, "the expression is handed to the reader helper", s, passed, "")
    # _read_datafile_table: with an expression every result is filtered
    rf = ctx.fn("transaction.Table._read_datafile_table")
    g = ctx.cfg(rf)
    filt = [n for n in g.calls() if isinstance(n.ast, ast.Call) and (
        (isinstance(n.ast.func, ast.Attribute) and n.ast.func.attr == "filter" and "compute_expr" in names_in(n.ast))
        or (kwarg(n.ast, "filters") is not None and "compute_expr" in names_in(kwarg(n.ast, "filters"))))]
    rets = [n for n in g.nodes if n.kind == "return" and n.id in g.reachable()]
    none_false = null_edges(g, "compute_expr")
    for r in rets:
        w = find_path(g, g.entry, [r.id], avoid=[x.id for x in filt], labels=NORMAL, edge_ok=lambda s, d, l: (s, d) not in none_false)
        ctx.ob("C12.R4", rf, "every result is filtered when an expression exists", r, bool(filt) and w is None,
               "no path with compute_expr set returns unfiltered rows (e.g. the verified branch skipping the filter)",
               witness=ctx.path_witness(rf, w))
    dom = ctx.dom(rf, NORMAL)
    for s in [n for n in g.calls() if isinstance(n.ast, ast.Call) and isinstance(n.ast.func, ast.Attribute) and n.ast.func.attr == "select"]:
        w = find_path(g, g.entry, [s.id], avoid=[x.id for x in filt], labels=NORMAL, edge_ok=lambda s_, d, l: (s_, d) not in none_false)
        ctx.ob("C12.R4", rf, "projection follows the filter", s, w is None, "a filter column outside `columns` is still available")
    for rt in [n for n in g.calls() if n.callee and n.callee.name.endswith("read_table")]:
        manual = any(x.id in reachable_from(g, rt.id, NORMAL) for x in filt if isinstance(x.ast.func, ast.Attribute) and x.ast.func.attr == "filter")  # type: ignore[union-attr]
        if manual:
            ctx.ob("C12.R4", rf, "columns not narrowed before a manual filter", rt, kwarg(rt.ast, "columns") is None,
                   "read all columns, filter, then project")
    it = ctx.fn("transaction.Table._iter_file_batches")
    ig = ctx.cfg(it)
    ifilt = [n for n in ig.calls() if isinstance(n.ast, ast.Call) and isinstance(n.ast.func, ast.Attribute) and n.ast.func.attr == "filter"
             and "compute_expr" in names_in(n.ast)]
    ys = [n for n in ig.nodes if n.kind == "stmt" and isinstance(n.ast, ast.Expr) and isinstance(n.ast.value, (ast.Yield, ast.YieldFrom))]
    inone_false = null_edges(ig, "compute_expr")
    for y in ys:
        # from the per-batch table construction to the yield, the filter is applied unless compute_expr is None
        starts = [n for n in ig.calls() if n.callee and "from_batches" in n.callee.name]
        w = None
        for s in starts:
            w = find_path(ig, s.id, [y.id], avoid=[x.id for x in ifilt], labels=NORMAL, edge_ok=lambda s_, d, l: (s_, d) not in inone_false)
        ctx.ob("C12.R4", it, "every yielded batch is filtered when an expression exists", y, bool(ifilt) and bool(starts) and w is None,
               "batch APIs apply the same expression", witness=ctx.path_witness(it, w))
    # every batch of every file is visited: the per-batch / per-file loops are left only when they are exhausted (or by an error)
    from .common import loop_early_exits
    for lp_ in [l_ for l_ in ig.nodes if l_.kind == "loop" and isinstance(l_.ast, ast.For) and l_.id in ig.reachable()]:
        ex_ = loop_early_exits(ig, lp_)
        ctx.ob("C12.R4", it, "the batch / file loop runs to exhaustion", lp_, not ex_,
               f"`{lp_.text[:60]}`" + (f" is left early at {it.file}:{ig.nodes[ex_[0][0]].lineno} `{ig.nodes[ex_[0][0]].text[:50]}`: the remaining "
                                      "batches (files) are never read - rows that match the filter are missing from this API only" if ex_ else
                                      " ends only when exhausted"), text=norm_text(lp_.ast.iter)[:40])  # type: ignore[union-attr]
    ib = [n for n in ig.calls() if n.callee and n.callee.name.endswith("iter_batches")]
    rcv = {norm_text(kwarg(n.ast, "columns")) for n in ib if kwarg(n.ast, "columns") is not None}
    rc = [n for n in ig.nodes if n.kind == "stmt" and isinstance(n.ast, ast.Assign) and any(isinstance(t, ast.Name) and t.id in rcv for t in n.ast.targets)]
    def _tests_expr(t: ast.AST) -> bool:
        if "compute_expr" in norm_text(t):
            return True
        # a hoisted flag: `filtering = compute_expr is not None`
        return any(isinstance(n_.ast, ast.Assign) and any(isinstance(tg, ast.Name) and tg.id in names_in(t) for tg in n_.ast.targets)
                   and "compute_expr" in norm_text(n_.ast.value) for n_ in ig.nodes if n_.kind == "stmt")

    ok = bool(rc) and isinstance(rc[0].ast.value, ast.IfExp) and _tests_expr(rc[0].ast.value.test) and isinstance(rc[0].ast.value.body, ast.Constant)  # type: ignore[union-attr]
    ok2 = bool(ib) and len(rcv) == 1
    ctx.ob("C12.R4", it, "when filtering, every column is read and projection happens after the filter", rc[0] if rc else None,
           ok and ok2, "read_columns = None if compute_expr is not None else columns")


def r5(ctx: Ctx) -> None:
    ctx.rule("C12.R5", "between expands to GE lo AND LE hi; the conjunction is an &-fold", 3)
    pf = ctx.fn("filters.parse_filter_dict")
    g = ctx.cfg(pf)
    brs = [b for b in g.nodes if b.kind == "branch" and b.ast is not None and "between" in str_consts(ctx, pf, b.ast)]
    ok = False
    detail = ""
    for b in brs:
        t = edge_target(g, b, "true")
        if t is None:
            continue
        reach = reachable_from(g, t, NORMAL, avoid=[n.id for n in g.nodes if n.kind == "loop"])
        ctors = [g.nodes[x] for x in reach if g.nodes[x].kind == "call" and g.nodes[x].callee and g.nodes[x].callee.kind == "ctor"]
        unp = [g.nodes[x] for x in reach if g.nodes[x].kind == "stmt" and isinstance(g.nodes[x].ast, ast.Assign)
               and isinstance(g.nodes[x].ast.targets[0], ast.Tuple)]
        if len(ctors) == 2 and unp:
            rd = ctx.rd(pf)

            def unpack_pos(e: Optional[ast.AST], at: int, depth: int = 0) -> Optional[Tuple[int, int]]:
                """(position, unpacking statement) the value of e was unpacked at - through locals, `a, b = x, y` displays and
                the returned tuple of a helper analysed in place"""
                if depth > 8:
                    return None
                if isinstance(e, ast.Subscript) and isinstance(e.slice, ast.Constant) and isinstance(e.slice.value, int) \
                        and isinstance(e.value, ast.Name):
                    sd = rd.reaching(at, e.value.id)  # `items[0]`, `items[1]` of one materialised pair
                    return (e.slice.value, next(iter(sd))) if len(sd) == 1 else None
                if not isinstance(e, ast.Name):
                    return None
                defs = rd.reaching(at, e.id)
                if len(defs) != 1:
                    return None
                d = next(iter(defs))
                dn = g.nodes[d]
                if d == g.entry or not isinstance(dn.ast, ast.Assign) or len(dn.ast.targets) != 1:
                    return None
                tg = dn.ast.targets[0]
                if isinstance(tg, ast.Name):
                    return unpack_pos(dn.ast.value, d, depth + 1)
                if not isinstance(tg, (ast.Tuple, ast.List)):
                    return None
                idx = next((i for i, t_ in enumerate(tg.elts) if isinstance(t_, ast.Name) and t_.id == e.id), None)
                if idx is None:
                    return None
                v = dn.ast.value
                srcs = []
                if isinstance(v, ast.Call) and id(v) in g.inline_returns:
                    srcs = [(rx, rn) for rx, rn in g.inline_returns[id(v)] if rn in g.reachable()]
                elif isinstance(v, (ast.Tuple, ast.List)):
                    srcs = [(v, d)]
                if srcs:
                    outs = set()
                    for sx, sn in srcs:
                        if isinstance(sx, (ast.Tuple, ast.List)) and len(sx.elts) == len(tg.elts):
                            outs.add(unpack_pos(sx.elts[idx], sn, depth + 1))
                        else:
                            outs.add(None)
                    return outs.pop() if len(outs) == 1 else None
                return (idx, d)

            got = {}
            for c in ctors:
                if isinstance(c.ast, ast.Call) and len(c.ast.args) == 3 and isinstance(c.ast.args[1], ast.Attribute):
                    got[c.ast.args[1].attr] = unpack_pos(c.ast.args[2], c.id)
            ok = set(got) == {"GE", "LE"} and got["GE"] is not None and got["LE"] is not None \
                and got["GE"][0] == 0 and got["LE"][0] == 1 and got["GE"][1] == got["LE"][1]
            detail = f"GE <- element {got.get('GE')}, LE <- element {got.get('LE')} of the unpacked (lo, hi) pair"
    ctx.ob("C12.R5", pf, "between -> (GE, lo), (LE, hi)", brs[0] if brs else None, ok, detail or "between branch not found")
    tc = ctx.fn("filters.to_pyarrow_compute_expression")
    folds = [n for n in ast.walk(tc.node) if isinstance(n, ast.Assign) and isinstance(n.value, ast.BinOp)
             and isinstance(n.value.op, ast.BitAnd) and norm_text(n.targets[0]) == norm_text(n.value.left)]
    # the same fold spelled functools.reduce(operator.and_, <conditions>)
    rfolds = [n for n in ast.walk(tc.node) if isinstance(n, ast.Call) and (dotted(n.func) or "").split(".")[-1] == "reduce"
              and n.args and (dotted(n.args[0]) or "") in ("operator.and_", "and_")]
    ctx.ob("C12.R5", tc, "conjunction is combined = combined & condition", None, bool(folds) or bool(rfolds), "all conditions must hold")
    g2 = ctx.cfg(tc)
    bc = [n for n in g2.calls() if any(t.name == "_build_condition" for t in ctx.eff.callees(tc, n))]

    def _per_item(b: Node) -> bool:
        if any(fr.kind == "loop" for fr in b.frames):
            return True
        # inside an unfiltered comprehension over the expressions
        for c in ast.walk(tc.node):
            if isinstance(c, (ast.ListComp, ast.GeneratorExp)) and any(x is b.ast for x in ast.walk(c.elt)):
                return len(c.generators) == 1 and not c.generators[0].ifs
        return False

    ctx.ob("C12.R5", tc, "every expression contributes a condition", bc[0] if bc else None,
           bool(bc) and all(_per_item(b) for b in bc)
           and not any(isinstance(n.ast, (ast.Break, ast.Continue)) for n in g2.nodes), "no expression is skipped")
