"""C13 - file pruning never changes a query's answer."""
from __future__ import annotations

import ast
import itertools
import re
from typing import Any, Dict, List, Optional, Set, Tuple

from ..cfg import NORMAL, Node, handler_classes
from ..core import Ctx
from ..flow import ALL, find_path, names_in
from ..model import AnalysisError, FunctionInfo, dotted, norm_text
from .common import edge_target, facts_at, resolve_value, judged_in_callers, effective_returns, handler_exits, handler_nodes, in_handler, in_try_body, kwarg, reachable_from

EXPLANATION = (
    "Static analysis of the pruning decision: (R1) ORDER-TYPE abstract interpretation - _file_may_match touches file_min, "
    "file_max and the literal only through comparisons, so each operator branch's skip condition is a function of the weak "
    "ordering of those values; the branch's condition AST is evaluated by the checker's own evaluator for every weak ordering "
    "of {min <= max, v} together with every position of a hypothetical row value x in [min, max] (IN: value lists up to "
    "length 2): skip => no x satisfies `x op v`; (R2) in the float world an incomparable row (NaN) satisfies `!=`, so an "
    "operator that is true for incomparable values may only prune under a type guard excluding float bounds; (R3) "
    "undecidable comparisons (TypeError, unknown column, missing bound) never prune; (R4) the bound codec tables agree: tags "
    "written = tags read, each with the inverse constructor, subclass isinstance tests precede superclass tests; (R5) bounds "
    "are stored and looked up under the id of the field with the same name; (R6) bounds are computed from the very table that "
    "is written."
    ' Also: the encoder is lossless and the stored bound is the untransformed pc.min/pc.max; (R7) appends cannot re-number field ids (C11.R1).'
    ' R1/R2 decide by abstract interpretation of the CFG of one loop iteration over the order-type domain (guard clauses and flag variables are followed), not by the syntactic shape of the branch.'
    " (R8) the read path keeps no schema memo (C02.R6); (R9) who may produce bounds: every DataFile's bounds come from _compute_column_bounds, the manifest decoder or a copy."
    ' R4 also requires the encoding to be unaltered between producer and manifest (no second codec, function-value codec passing followed); R9 is strict: one bounds producer.'
    " (R10) membership compares like equality (C12.R18) [D20, fixed]; (R11) the row filter's NULL semantics the pruning rules assume (C12.R3). R5 accepts pc.min_max(col)['min'|'max'] with the matching field."
    ' R4 reads codec tables iterated row by row (unrolled), canonicalises payloads through one-parameter helpers and isoformat defaults, and has a flow form for per-branch tag locals.'
    " R4: a decoded payload VALUE is never truth-tested ('' / 0 / 0.0 / False are bounds); R5: fields and columns iterated together come from one (identically filtered) sequence."
    ' (R12) no per-object state lives in a class-level mutable (a dict / list in a class body filled through self is shared by every instance); (R13) a scratch collection filled inside a manifest record loop is created inside that loop.'
    " R4 also rejects an encoder that re-binds its argument before building the payload (a clamped / rounded copy; a zone conversion of an aware datetime is the same instant) and accepts 'inf' / '-inf' strings under a math.isinf test (float() parses them back exactly)."
)
NOT_DECIDED = ("pc.min/max and Arrow comparison semantics (e.g. int64 beyond 2^53 against a float literal); end-to-end "
               "pruned-vs-unpruned equality at run time")
ASSUMPTIONS = ["values of one column are totally ordered except float NaN; pc.min/pc.max ignore NULL and NaN rows"]

OPS = {
    "EQ": lambda x, v: x == v, "NE": lambda x, v: x != v, "GT": lambda x, v: x > v, "GE": lambda x, v: x >= v,
    "LT": lambda x, v: x < v, "LE": lambda x, v: x <= v, "IN": lambda x, v: x in v, "NOT_IN": lambda x, v: x not in v,
}
TRUE_FOR_INCOMPARABLE = {"NE", "NOT_IN"}


class Unknown(Exception):
    pass


class OpVal:
    """A member of FilterOp in the scenario interpreter."""
    def __init__(self, name: str) -> None:
        self.name = name

    def __eq__(self, o: object) -> bool:
        return isinstance(o, OpVal) and o.name == self.name

    def __hash__(self) -> int:
        return hash(("op", self.name))


class FnVal:
    """A function value (lambda or module-level function of the package) in the scenario interpreter."""
    def __init__(self, node: ast.AST, fi: Any = None) -> None:
        self.node, self.fi = node, fi


def _apply(fv: "FnVal", args: List[Any], env: Dict[str, Any]) -> Any:
    """Call a function value: a lambda is evaluated directly, a package function is interpreted over its CFG."""
    if isinstance(fv.node, ast.Lambda):
        params = [a.arg for a in fv.node.args.args]
        sub = {k: v for k, v in env.items() if k.startswith("__")}
        sub.update(dict(zip(params, args)))
        sub["__types__"] = {p: ("float" if isinstance(v, float) else "int") for p, v in zip(params, args)}
        return ev(fv.node.body, sub)
    ctx, fi = env["__ctx__"], fv.fi
    g = ctx.cfg(fi)
    params = [p.name for p in fi.params if p.name != "self"]
    loc: Dict[str, Any] = {k: v for k, v in env.items() if k.startswith("__")}
    loc.update(dict(zip(params, args)))
    loc["__types__"] = {p: ("float" if isinstance(v, float) else "int") for p, v in zip(params, args)}
    cur: Optional[int] = g.entry
    for _ in range(300):
        if cur is None or cur == g.exit:
            return None
        n = g.nodes[cur]
        if n.kind == "return":
            return ev(n.ast.value, loc) if n.ast.value is not None else None  # type: ignore[union-attr]
        if n.kind == "raise":
            raise Unknown("raise in " + fi.name)
        if n.kind == "branch" and n.ast is not None:
            cur = edge_target(g, n, "true" if ev(n.ast, loc) else "false")
            continue
        if n.kind == "stmt" and isinstance(n.ast, ast.Assign) and len(n.ast.targets) == 1 and isinstance(n.ast.targets[0], ast.Name):
            loc[n.ast.targets[0].id] = ev(n.ast.value, loc)
        nxt = [d for d, l in g.succ[cur] if l in NORMAL]
        cur = nxt[0] if nxt else None
    raise Unknown("no result from " + fi.name)


def ev(e: ast.AST, env: Dict[str, Any]) -> Any:
    """The checker's own evaluator for the comparison-only condition language of _file_may_match."""
    if isinstance(e, ast.Constant):
        return e.value
    if isinstance(e, ast.Name):
        if e.id in env:
            return env[e.id]
        if e.id == "float":
            return "float"
        loc = env.get("__locals__", {})
        if e.id in loc:
            return ev(loc[e.id], env)
        ctx = env.get("__ctx__")
        mod = env.get("__module__")
        if ctx is not None and mod is not None:
            if e.id in mod.consts and isinstance(mod.consts[e.id], (ast.Dict, ast.Lambda)):
                c = mod.consts[e.id]
                return FnVal(c) if isinstance(c, ast.Lambda) else ("moddict", c)
            if e.id in mod.functions and not ctx.prog.is_known(mod.functions[e.id]):
                return FnVal(mod.functions[e.id].node, mod.functions[e.id])
        raise Unknown(e.id)
    if isinstance(e, ast.Lambda):
        return FnVal(e)
    if isinstance(e, ast.Attribute):
        dn = dotted(e)
        if dn in env:
            return env[dn]
        if isinstance(e.value, ast.Name) and e.value.id == "FilterOp":
            return OpVal(e.attr)
        raise Unknown(dn or "?")
    if isinstance(e, ast.Compare):
        left = ev(e.left, env)
        for op, c in zip(e.ops, e.comparators):
            right = ev(c, env)
            r = {ast.Lt: lambda a, b: a < b, ast.LtE: lambda a, b: a <= b, ast.Gt: lambda a, b: a > b,
                 ast.GtE: lambda a, b: a >= b, ast.Eq: lambda a, b: a == b, ast.NotEq: lambda a, b: a != b,
                 ast.In: lambda a, b: a in b, ast.NotIn: lambda a, b: a not in b,
                 ast.Is: lambda a, b: (a is b) if (a is None or b is None) else (a == b),
                 ast.IsNot: lambda a, b: (a is not b) if (a is None or b is None) else (a != b)}.get(type(op))
            if r is None:
                raise Unknown(type(op).__name__)
            if not r(left, right):
                return False
            left = right
        return True
    if isinstance(e, ast.BoolOp):
        vals = [ev(v, env) for v in e.values]
        return all(vals) if isinstance(e.op, ast.And) else any(vals)
    if isinstance(e, ast.UnaryOp) and isinstance(e.op, ast.Not):
        return not ev(e.operand, env)
    if isinstance(e, ast.Call):
        fn = dotted(e.func) or ""
        # dispatch-table lookup: <module dict of function values keyed by FilterOp>.get(<op>) / [<op>]
        if isinstance(e.func, ast.Attribute) and e.func.attr == "get" and e.args:
            base = ev(e.func.value, env)
            if isinstance(base, tuple) and base and base[0] == "moddict":
                key = ev(e.args[0], env)
                for k, v in zip(base[1].keys, base[1].values):
                    if k is not None and ev(k, env) == key:
                        return ev(v, env)
                return ev(e.args[1], env) if len(e.args) > 1 else None
        if isinstance(e.func, ast.Name) and (e.func.id in env or e.func.id in env.get("__locals__", {})) \
                and isinstance(ev(e.func, env), FnVal):
            return _apply(ev(e.func, env), [ev(a, env) for a in e.args], env)
        if isinstance(e.func, ast.Name) and e.func.id not in ("any", "all", "isinstance", "bool", "len"):
            try:
                fv = ev(e.func, env)
            except Unknown:
                fv = None
            if isinstance(fv, FnVal):
                return _apply(fv, [ev(a, env) for a in e.args], env)
        if fn in ("any", "all") and e.args and isinstance(e.args[0], (ast.GeneratorExp, ast.ListComp)):
            gen = e.args[0]
            if len(gen.generators) != 1 or gen.generators[0].ifs or not isinstance(gen.generators[0].target, ast.Name):
                raise Unknown("comprehension shape")
            it = ev(gen.generators[0].iter, env)
            res = [ev(gen.elt, {**env, gen.generators[0].target.id: x}) for x in it]
            return any(res) if fn == "any" else all(res)
        if fn == "isinstance" and len(e.args) == 2:
            target = norm_text(e.args[0])
            cls = norm_text(e.args[1])
            world = env.get("__types__", {})
            if target in world:
                return world[target] in [c.strip() for c in cls.strip("()").split(",")]
            raise Unknown("isinstance of " + target)
        if fn == "bool" and len(e.args) == 1:
            return bool(ev(e.args[0], env))
        if fn == "len" and len(e.args) == 1:
            return len(ev(e.args[0], env))
        raise Unknown("call " + fn)
    if isinstance(e, ast.Subscript):
        base = ev(e.value, env)
        if isinstance(base, tuple) and base and base[0] == "moddict":
            key = ev(e.slice, env)
            for k, v in zip(base[1].keys, base[1].values):
                if k is not None and ev(k, env) == key:
                    return ev(v, env)
            raise Unknown("missing key")
    raise Unknown(type(e).__name__)


def pruning_roles(ctx: Ctx, f: FunctionInfo) -> Dict[str, str]:
    """Names of the role variables of _file_may_match, found by data flow: min/max = values fetched with .get(<col id>)
    from the maps derived from data_file.lower_bounds / upper_bounds; expr = loop variable over the expressions parameter;
    colid = the key used for both fetches."""
    roles: Dict[str, str] = {}
    maps: Dict[str, str] = {}
    for n in ast.walk(f.node):
        if isinstance(n, ast.Assign) and len(n.targets) == 1 and isinstance(n.targets[0], ast.Name):
            t = norm_text(n.value)
            if ".lower_bounds" in t:
                maps[n.targets[0].id] = "min"
            elif ".upper_bounds" in t:
                maps[n.targets[0].id] = "max"
    for n in ast.walk(f.node):
        if isinstance(n, ast.Assign) and len(n.targets) == 1 and isinstance(n.targets[0], ast.Name) and isinstance(n.value, ast.Call) \
                and isinstance(n.value.func, ast.Attribute) and n.value.func.attr == "get" and isinstance(n.value.func.value, ast.Name) \
                and n.value.func.value.id in maps and n.value.args:
            roles[maps[n.value.func.value.id]] = n.targets[0].id
            roles.setdefault("colid", norm_text(n.value.args[0]))
            roles[maps[n.value.func.value.id] + "_map"] = n.value.func.value.id
    fetches = [(n.targets[0].id, n.value.func.value.id) for n in ast.walk(f.node)
               if isinstance(n, ast.Assign) and len(n.targets) == 1 and isinstance(n.targets[0], ast.Name) and isinstance(n.value, ast.Call)
               and isinstance(n.value.func, ast.Attribute) and n.value.func.attr == "get" and isinstance(n.value.func.value, ast.Name)
               and n.value.func.value.id in maps]
    if len(fetches) >= 2 and not {"min", "max"} <= set(roles):
        # both bounds fetched from the SAME map: keep positional roles so that R5 can report the wrong source
        roles["min"], roles["min_map"] = fetches[0]
        roles["max"], roles["max_map"] = fetches[1]
    exprs_param = f.params[1].name if len(f.params) > 1 else "expressions"
    for n in ast.walk(f.node):
        if isinstance(n, ast.For) and isinstance(n.iter, ast.Name) and n.iter.id == exprs_param and isinstance(n.target, ast.Name):
            roles["expr"] = n.target.id
    if not {"min", "max", "expr", "colid"} <= set(roles):
        raise AnalysisError(f"_file_may_match: role variables not found ({sorted(roles)})")
    return roles


def op_branches(ctx: Ctx, f: FunctionInfo) -> Dict[str, List[Tuple[ast.AST, Node, List[ast.AST]]]]:
    """{operator: [(skip condition AST, the `return False` node, enclosing guard conditions)]}"""
    g = ctx.cfg(f)
    dom = ctx.dom(f, ALL)
    out: Dict[str, List[Tuple[ast.AST, Node, List[ast.AST]]]] = {}
    rets = [n for n in g.nodes if n.kind == "return" and n.id in g.reachable()
            and isinstance(n.ast.value, ast.Constant) and n.ast.value.value is False]  # type: ignore[union-attr]
    for r in rets:
        # innermost enclosing if-statements, by AST containment
        chain: List[ast.If] = []
        for node in ast.walk(f.node):
            if isinstance(node, ast.If) and any(r.ast is x for x in ast.walk(node)):
                chain.append(node)
        chain.sort(key=lambda i: len(list(ast.walk(i))), reverse=True)  # outermost first
        op = None
        conds: List[ast.AST] = []
        for i in chain:
            in_body = any(r.ast is x for s in i.body for x in ast.walk(s))
            t = i.test
            if isinstance(t, ast.Compare) and isinstance(t.left, ast.Attribute) and t.left.attr == "op" \
                    and isinstance(t.comparators[0], ast.Attribute) and in_body:
                op = t.comparators[0].attr
                conds = []
                continue
            if op is not None:
                conds.append(t if in_body else ast.UnaryOp(op=ast.Not(), operand=t))
        if op is None:
            out.setdefault("?", []).append((ast.Constant(value=True), r, []))
            continue
        if not conds:
            conds = [ast.Constant(value=True)]
        cond = conds[0] if len(conds) == 1 else ast.BoolOp(op=ast.And(), values=conds)
        # single-assignment locals defined inside the operator branch (e.g. has_possible_match = any(...))
        locs: List[ast.AST] = []
        for i in chain:
            for st in ast.walk(i):
                if isinstance(st, ast.Assign) and len(st.targets) == 1 and isinstance(st.targets[0], ast.Name):
                    locs.append(st)
        out.setdefault(op, []).append((cond, r, locs))
    return out


def r1r2(ctx: Ctx) -> None:
    ctx.rule("C13.R1", "order-type soundness of the pruning decision: for every operator branch and every weak ordering of "
             "(min <= max, literal), skip implies that no value in [min, max] satisfies the predicate", 6)
    ctx.rule("C13.R2", "unordered values: an operator that is true for an incomparable (NaN) row may only prune when the bounds' "
             "type excludes float", 1)
    f = ctx.fn("filters._file_may_match")
    R = pruning_roles(ctx, f)
    MIN, MAX, VAL = R["min"], R["max"], R["expr"] + ".value"
    g = ctx.cfg(f)
    # operator dispatch branches: `<expr>.op == FilterOp.X` (either operand order, == or !=)
    opb: Dict[int, Tuple[str, bool]] = {}
    for b in g.nodes:
        if b.kind == "branch" and isinstance(b.ast, ast.Compare) and len(b.ast.ops) == 1 and isinstance(b.ast.ops[0], (ast.Eq, ast.NotEq, ast.Is, ast.IsNot)) \
                and b.id in g.reachable():
            l_, r_ = b.ast.left, b.ast.comparators[0]
            for x, y in ((l_, r_), (r_, l_)):
                if isinstance(x, ast.Attribute) and x.attr == "op" and isinstance(y, ast.Attribute) and dotted(y.value) == "FilterOp":
                    opb[b.id] = (y.attr, isinstance(b.ast.ops[0], (ast.Eq, ast.Is)))
    ops_found = sorted({o for o, _p in opb.values()})
    adom = ctx.dom(f, ALL)
    table_mode = False
    if len(ops_found) >= 5:
        start = min(opb, key=lambda i: (len([j for j in opb if j in adom[i]]), i))
    else:
        # table-driven dispatch: a module-level dict keyed by FilterOp members, looked up with `<expr>.op`
        tabs = [(nm, d) for nm, d in f.module.consts.items() if isinstance(d, ast.Dict) and d.keys
                and all(isinstance(k, ast.Attribute) and dotted(k.value) == "FilterOp" for k in d.keys)
                and any(isinstance(x, ast.Name) and x.id == nm for x in ast.walk(f.node))]
        uses = [n for n in g.nodes if n.ast is not None and n.id in g.reachable() and n.kind in ("stmt", "branch")
                and any(isinstance(x, ast.Attribute) and x.attr == "op" and dotted(x.value) == R["expr"] for x in ast.walk(n.ast))]
        if not tabs or not uses:
            raise AnalysisError(f"only {len(ops_found)} pruning branches found in _file_may_match")
        ops_found = sorted({k.attr for _nm, d in tabs for k in d.keys})  # type: ignore[union-attr]
        start = min(u.id for u in uses)
        opb = {}
        table_mode = True

    def run(op: str, env: Dict[str, Any]) -> str:
        """Interpret the CFG of one loop iteration from the operator dispatch, for operator `op` under the order-type
        environment `env`: 'skip' (return False) or 'keep' (anything else)."""
        cur: Optional[int] = start
        envl = dict(env)
        envl[R["expr"] + ".op"] = OpVal(op)
        envl["__ctx__"], envl["__module__"] = ctx, f.module
        for _step in range(500):
            if cur is None or cur == g.exit:
                return "keep"
            n = g.nodes[cur]
            if n.kind == "return":
                v = n.ast.value  # type: ignore[union-attr]
                val = ev(v, envl) if v is not None else None
                return "skip" if val is False else "keep"
            if n.kind in ("loop", "loop_head", "raise"):
                return "keep"
            if n.kind == "branch" and n.ast is not None:
                if cur in opb:
                    val = (opb[cur][0] == op) == opb[cur][1]
                else:
                    val = bool(ev(n.ast, envl))
                cur = edge_target(g, n, "true" if val else "false")
                continue
            if n.kind == "stmt" and isinstance(n.ast, (ast.Assign, ast.AnnAssign)) and getattr(n.ast, "value", None) is not None:
                tg = n.ast.targets if isinstance(n.ast, ast.Assign) else [n.ast.target]
                if len(tg) == 1 and isinstance(tg[0], ast.Name):
                    envl[tg[0].id] = ev(n.ast.value, envl)
                else:
                    raise Unknown("assignment to " + norm_text(tg[0]))
            elif n.kind == "stmt" and isinstance(n.ast, (ast.AugAssign, ast.Delete)):
                raise Unknown(type(n.ast).__name__)
            nxt = [d for d, l in g.succ[cur] if l in NORMAL]
            cur = nxt[0] if nxt else None
        raise Unknown("no decision within 500 steps")

    dom_vals = range(4)
    anchor = {o: (g.nodes[min(i for i, (oo, _p) in opb.items() if oo == o)] if not table_mode else g.nodes[start]) for o in ops_found}
    # an expression whose operator has no dispatch branch is never a reason to skip
    try:
        stray = [(mn, mx, v) for mn in dom_vals for mx in range(mn, 4) for v in dom_vals
                 if run("<other>", {MIN: mn, MAX: mx, VAL: v, "__types__": {MIN: "int", MAX: "int", VAL: "int"}}) == "skip"]
    except Unknown as u:
        stray = [("?", "?", str(u))]
    ctx.ob("C13.R1", f, "no skip without an operator-specific bounds argument", g.nodes[start], not stray,
           "for an operator outside the dispatch the iteration never returns False" if not stray else
           f"an expression with an operator outside the dispatch makes the file be skipped (e.g. min,max,literal = {stray[0]})", text="other")
    for op in ops_found:
        r = anchor[op]
        if op not in OPS:
            ctx.ob("C13.R1", f, f"operator {op} has a known predicate", r, False, f"no row-level semantics for {op}")
            continue
        cells = 0
        skips = 0
        bad: Optional[str] = None
        unknown: Optional[str] = None
        lits: List[Any]
        if op in ("IN", "NOT_IN"):
            lits = [list(c) for k in (0, 1, 2) for c in itertools.product(dom_vals, repeat=k)]
        else:
            lits = list(dom_vals)
        for mn in dom_vals:
            for mx in range(mn, 4):
                for v in lits:
                    env = {MIN: mn, MAX: mx, VAL: v, "__types__": {MIN: "int", MAX: "int", VAL: "int"}}
                    try:
                        skip = run(op, env) == "skip"
                    except Unknown as u:
                        unknown = str(u)
                        break
                    cells += 1
                    if not skip:
                        continue
                    skips += 1
                    for x in range(mn, mx + 1):
                        if OPS[op](x, v) and bad is None:
                            bad = f"min={mn} max={mx} literal={v}: skipped although a row with value {x} satisfies {op}"
                if unknown:
                    break
            if unknown:
                break
        if unknown:
            ctx.ob("C13.R1", f, f"{op}: skip decision is in the comparison-only language", r, False,
                   f"the {op} branch uses `{unknown}` which the order-type interpreter does not model", text=op)
            continue
        ctx.ob("C13.R1", f, f"{op}: the skip decision is sound over all weak orderings", r, bad is None,
               f"{cells} (ordering x literal) cells, {skips} skipping; " + (bad or "every skip excludes every value in [min, max]"),
               text=op)
        # R2: float world
        if op in TRUE_FOR_INCOMPARABLE:
            can_skip_float = False
            for mn in dom_vals:
                for mx in range(mn, 4):
                    for v in (lits if op not in ("IN", "NOT_IN") else lits[:6]):
                        for vt in ("float", "int"):
                            env = {MIN: float(mn), MAX: float(mx), VAL: (float(v) if vt == "float" and not isinstance(v, list) else v),
                                   "__types__": {MIN: "float", MAX: "float", VAL: vt}}
                            try:
                                if run(op, env) == "skip":
                                    can_skip_float = True
                            except Unknown:
                                can_skip_float = True
            ctx.ob("C13.R2", f, f"{op} never prunes on float bounds", r, not can_skip_float,
                   "min/max statistics ignore NaN rows and NaN " + ("!=" if op == "NE" else "not in") + " v is TRUE: with float "
                   "bounds [v, v] a file holding a NaN row would be skipped although that row matches"
                   if can_skip_float else "guarded by a type test excluding float bounds", text=op)
    if not any(o.rule == "C13.R2" for o in ctx.obs):
        ctx.ob("C13.R2", f, "no operator that is true for incomparable values prunes", None, True,
               "NE / NOT_IN have no pruning branch", nontrivial=False)


def r3(ctx: Ctx) -> None:
    ctx.rule("C13.R3", "undecidable comparisons never prune: the TypeError handler and the unknown-column / missing-bound branches "
             "continue; no handler returns skip", 3)
    f = ctx.fn("filters._file_may_match")
    g = ctx.cfg(f)
    hs = handler_nodes(ctx, f)
    ctx.ob("C13.R3", f, "comparisons are guarded against TypeError", hs[0] if hs else None,
           any("TypeError" in handler_classes(h.ast) for h in hs), "incompatible literal/bound types cannot crash a scan", nontrivial=False)  # type: ignore[arg-type]
    for hn in hs:
        ex = handler_exits(ctx, f, hn)
        bad = [r for r in ex["return"] if isinstance(r.ast.value, ast.Constant) and r.ast.value.value is False]  # type: ignore[union-attr]
        ctx.ob("C13.R3", f, "handler never answers 'skip'", hn, not bad and not ex["raise"],
               "a comparison that cannot be decided keeps the file", text=",".join(handler_classes(hn.ast)))  # type: ignore[arg-type]
    R = pruning_roles(ctx, f)
    for pat in (f"{R['colid']} is None", f"{R['min']} is None", f"{R['max']} is None"):
        brs = [b for b in g.nodes if b.kind == "branch" and norm_text(b.ast) == pat]
        ok = bool(brs)
        for b in brs:
            t = edge_target(g, b, "true")
            if t is None:
                ok = False
                continue
            reach = reachable_from(g, t, NORMAL, avoid=[n.id for n in g.nodes if n.kind == "loop"])
            rets = [g.nodes[x] for x in reach if g.nodes[x].kind == "return"]
            if any(isinstance(r.ast.value, ast.Constant) and r.ast.value.value is False for r in rets):  # type: ignore[union-attr]
                ok = False
        ctx.ob("C13.R3", f, f"`{pat}` keeps the file", brs[0] if brs else None, ok, "no bounds / unknown column => cannot prune", text=pat)
    # all `return False` sit inside the try body
    # every ORDERING comparison against a bound is evaluated where a TypeError is caught (literal and bound of different types)
    cmpn = [n for n in g.nodes if n.ast is not None and n.kind in ("branch", "stmt", "return") and n.id in g.reachable()
            and any(isinstance(x, ast.Compare) and any(isinstance(o, (ast.Lt, ast.LtE, ast.Gt, ast.GtE)) for o in x.ops)
                    and ({R["min"], R["max"]} & set(names_in(x))) for x in ast.walk(n.ast))]
    # ... or handed to a function that compares them (table-driven dispatch)
    cmpn += [n for n in g.calls() if n.id in g.reachable() and isinstance(n.ast, ast.Call) and n.callee is not None
             and n.callee.kind in ("param", "unknown", "func")
             and {R["min"], R["max"]} <= {a.id for a in n.ast.args if isinstance(a, ast.Name)}]
    unguarded = [n for n in cmpn if ctx.eff.propagate(f, {"TypeError"}, n.frames, record=False)[0]]
    ctx.ob("C13.R3", f, "every comparison sits inside the TypeError guard", unguarded[0] if unguarded else (cmpn[0] if cmpn else None),
           bool(cmpn) and not unguarded, f"{len(cmpn)} ordering comparisons against the bounds, {len(unguarded)} outside a TypeError handler")


def _isinstance_chain(f: FunctionInfo, var: str) -> List[str]:
    """classes tested with isinstance(<var>, C), in SOURCE order (pre-order walk: an unrolled table loop keeps its row order)"""
    out: List[str] = []

    def visit(n: ast.AST) -> None:
        if isinstance(n, ast.If) and isinstance(n.test, ast.Call) and (dotted(n.test.func) or "") == "isinstance" \
                and isinstance(n.test.args[0], ast.Name) and n.test.args[0].id == var:
            out.append(norm_text(n.test.args[1]))
        for c in ast.iter_child_nodes(n):
            visit(c)
    visit(f.node)
    return out


def r4(ctx: Ctx) -> None:
    ctx.rule("C13.R4", "bound codec tables agree: tags written = tags read, inverse constructors, subclass tests first", 4)
    enc = ctx.fn("file_manager.FileManager._encode_bound")
    dec = ctx.fn("file_manager.FileManager._decode_bound")
    mod = enc.module

    def _table(e: Optional[ast.AST]) -> Optional[ast.AST]:
        """a module- or class-level constant display behind a name (`_TABLE`, `cls._TABLE`, `self._TABLE`)"""
        if isinstance(e, ast.Name) and e.id in mod.consts:
            return mod.consts[e.id]
        if isinstance(e, ast.Attribute) and enc.cls is not None and e.attr in enc.cls.consts:
            return enc.cls.consts[e.attr]
        return e if isinstance(e, (ast.Tuple, ast.List, ast.Dict)) else None

    def _fn_kind(fn: Optional[ast.AST], arg: str = "value") -> str:
        """what `fn(<arg>)` computes, as normalised text: builtin constructor / lambda body / the returned expression of a
        one-parameter function of the module (locals resolved)"""
        if isinstance(fn, ast.Lambda) and len(fn.args.args) == 1:
            body = ast.parse(norm_text(fn.body), mode="eval").body
            for x in ast.walk(body):
                if isinstance(x, ast.Name) and x.id == fn.args.args[0].arg:
                    x.id = arg
            return norm_text(body)
        d = dotted(fn) if fn is not None else None
        if d is None:
            return "?"
        tgt = next((x for x in ctx.prog.functions.values() if x.module is mod and x.name == d.split(".")[-1] and x.parent is None
                    and len([p_ for p_ in x.params if p_.name not in ("self", "cls")]) == 1), None) if "." not in d or d.split(".")[0] in ("self", "cls") else None
        if tgt is None:
            return f"{d}({arg})"
        pn = [p_.name for p_ in tgt.params if p_.name not in ("self", "cls")][0]
        outs = set()
        for r, v in effective_returns(ctx, tgt):
            for src, _a in resolve_value(ctx, tgt, v, r.id):
                if src is None:
                    outs.add("None")
                    continue
                body = ast.parse(norm_text(src), mode="eval").body
                for x in ast.walk(body):
                    if isinstance(x, ast.Name) and x.id == pn:
                        x.id = arg
                outs.add(norm_text(body))
        return outs.pop() if len(outs) == 1 else "?"

    written: Dict[str, str] = {}
    payloads: List[str] = []
    chain: List[str] = []
    for n in ast.walk(enc.node):
        if isinstance(n, ast.If) and isinstance(n.test, ast.Call) and (dotted(n.test.func) or "") == "isinstance":
            cls = norm_text(n.test.args[1])
            for d in [x for s in n.body for x in ast.walk(s) if isinstance(x, ast.Dict)]:
                for k, v in zip(d.keys, d.values):
                    if isinstance(k, ast.Constant) and k.value == "t" and isinstance(v, ast.Constant):
                        written[str(v.value)] = cls
    if written:
        chain = _isinstance_chain(enc, "value")
        for n in ast.walk(enc.node):
            if isinstance(n, ast.Dict):
                for k, v in zip(n.keys, n.values):
                    if isinstance(k, ast.Constant) and k.value == "v":
                        payloads.append(norm_text(v))
    else:
        # table form: first-match search `next((<tag>, <fn>) for <cls>, <tag>, <fn> in TABLE if isinstance(value, <cls>)), FALLBACK)`
        for n in ast.walk(enc.node):
            if not (isinstance(n, ast.Call) and dotted(n.func) == "next" and n.args and isinstance(n.args[0], ast.GeneratorExp)):
                continue
            ge = n.args[0]
            if len(ge.generators) != 1 or not isinstance(ge.generators[0].target, ast.Tuple):
                continue
            tnames = [t.id if isinstance(t, ast.Name) else "?" for t in ge.generators[0].target.elts]
            tests = [c for c in ge.generators[0].ifs if isinstance(c, ast.Call) and dotted(c.func) == "isinstance" and len(c.args) == 2
                     and isinstance(c.args[1], ast.Name) and c.args[1].id in tnames]
            tab = _table(ge.generators[0].iter)
            if len(tests) != 1 or len(ge.generators[0].ifs) != 1 or not isinstance(tab, (ast.Tuple, ast.List)):
                continue
            ci = tnames.index(tests[0].args[1].id)  # type: ignore[attr-defined]
            rows = [r_ for r_ in tab.elts if isinstance(r_, ast.Tuple) and len(r_.elts) == len(tnames)]
            if len(rows) != len(tab.elts):
                continue
            fb = _table(n.args[1]) if len(n.args) > 1 else None
            for r_ in rows + ([fb] if isinstance(fb, ast.Tuple) else []):
                consts_ = [x for x in r_.elts if isinstance(x, ast.Constant) and isinstance(x.value, str)]
                fns = [x for x in r_.elts if not isinstance(x, ast.Constant) and (r_ is fb or x is not r_.elts[ci])]
                if len(consts_) != 1 or len(fns) != 1:
                    continue
                if r_ is not fb:
                    written[str(consts_[0].value)] = norm_text(r_.elts[ci])
                    chain.append(norm_text(r_.elts[ci]))
                payloads.append(_fn_kind(fns[0]).replace("_identity(value)", "value"))
        payloads = ["value" if p_ == "value" else p_ for p_ in payloads]
    if not written:
        # flow form: the payload dict is built once from per-branch locals (`tag, v = "int", value` ... `json.dumps({"t": tag,
        # "v": v})`): every definition of the "t" entry that reaches the return is a constant set under one isinstance test
        g_e = ctx.cfg(enc)
        for r, rv in effective_returns(ctx, enc):
            arg0 = rv.args[0] if isinstance(rv, ast.Call) and (dotted(rv.func) or "").endswith("dumps") and rv.args else rv
            for src, sat in resolve_value(ctx, enc, arg0, r.id):
                if not isinstance(src, ast.Dict):
                    continue
                ent = {k.value: v for k, v in zip(src.keys, src.values) if isinstance(k, ast.Constant)}
                if "t" not in ent or "v" not in ent:
                    continue
                for tsrc, tsat in resolve_value(ctx, enc, ent["t"], sat):
                    if not (isinstance(tsrc, ast.Constant) and isinstance(tsrc.value, str)):
                        written["?" + (norm_text(tsrc) if tsrc is not None else "unresolved")] = "?"
                        continue
                    tests = [e_ for pol, e_, _fa in facts_at(ctx, enc, g_e.nodes[tsat]) if pol == "true" and isinstance(e_, ast.Call)
                             and (dotted(e_.func) or "") == "isinstance" and len(e_.args) == 2]
                    cls = norm_text(tests[-1].args[1]) if tests else "?"
                    if str(tsrc.value) in written and written[str(tsrc.value)] != cls and not tests:
                        continue  # the fallback branch (`else: "str", str(value)`) re-uses a tag
                    written.setdefault(str(tsrc.value), cls) if not tests else written.__setitem__(str(tsrc.value), cls)
                for vsrc, _vs in resolve_value(ctx, enc, ent["v"], sat):
                    payloads.append(norm_text(vsrc) if vsrc is not None else "?")
        if written:
            chain = _isinstance_chain(enc, "value")
    read: Dict[str, str] = {}
    for n in ast.walk(dec.node):
        if isinstance(n, ast.If) and isinstance(n.test, ast.Compare) and isinstance(n.test.comparators[0], ast.Constant) \
                and isinstance(n.test.comparators[0].value, str) and isinstance(n.test.left, ast.Name) and isinstance(n.test.ops[0], ast.Eq):
            tag = str(n.test.comparators[0].value)
            rets = [x for s in n.body for x in ast.walk(s) if isinstance(x, ast.Return) and x.value is not None]
            if rets:
                read[tag] = norm_text(rets[0].value)
    lookups: List[ast.AST] = []
    if not read:
        # table form: TABLE.get(tag) / TABLE[tag] with TABLE = {<tag>: <constructor>}
        for n in ast.walk(dec.node):
            tab = None
            if isinstance(n, ast.Call) and isinstance(n.func, ast.Attribute) and n.func.attr == "get" and n.args:
                tab = _table(n.func.value)
            elif isinstance(n, ast.Subscript) and isinstance(n.ctx, ast.Load):
                tab = _table(n.value)
            if isinstance(tab, ast.Dict) and tab.keys and all(isinstance(k, ast.Constant) and isinstance(k.value, str) for k in tab.keys):
                lookups.append(n)
                for k, v in zip(tab.keys, tab.values):
                    read[str(k.value)] = _fn_kind(v, "v")  # type: ignore[union-attr]
    if not written or not read:
        raise AnalysisError("bound codec tables not found")
    ctx.ob("C13.R4", enc, "tags written == tags read", None, set(written) == set(read),
           f"written {sorted(written)}; read {sorted(read)}", text="tags")
    inverse = {"bool": "bool(", "int": "int(", "float": "float(", "ts": "datetime.fromisoformat(", "date": "date.fromisoformat(",
               "time": "dt_time.fromisoformat(", "str": "str("}
    expected_cls = {"bool": "bool", "int": "int", "float": "float", "ts": "datetime", "date": "date", "time": "dt_time", "str": "str"}
    bad = []
    for t, ctor in read.items():
        want = inverse.get(t)
        if want is None or not ctor.startswith(want):
            bad.append((t, ctor))
        if t in written and expected_cls.get(t) != written[t]:
            bad.append((t, "encoded from " + written[t]))
    ctx.ob("C13.R4", dec, "each tag decodes with the inverse constructor of what encodes it", None, not bad,
           f"mismatches: {bad}" if bad else f"{len(read)} tags", text="inverse")
    # the encoder is LOSSLESS: the payload value is the value itself, its argument-less isoformat(), or str() of it
    def _canon_payload(t: str) -> str:
        """look through one-parameter module helpers (`_same(value)`), an outer str(), unbound-method spelling
        (`date.isoformat(value)`) and isoformat arguments that spell the defaults (sep='T', timespec='auto')"""
        for _round in range(4):
            try:
                e = ast.parse(t, mode="eval").body
            except SyntaxError:
                return t
            if isinstance(e, ast.Call) and isinstance(e.func, ast.Name) and len(e.args) == 1 and not e.keywords and norm_text(e.args[0]) == "value":
                k = _fn_kind(e.func)
                if k != "?" and k != t and not k.startswith(e.func.id + "("):
                    t = k
                    continue
            if isinstance(e, ast.Call) and isinstance(e.func, ast.Name) and e.func.id == "str" and len(e.args) == 1 \
                    and isinstance(e.args[0], ast.Call) and isinstance(e.args[0].func, ast.Attribute) and e.args[0].func.attr == "isoformat":
                t = norm_text(e.args[0])
                continue
            if isinstance(e, ast.Call) and isinstance(e.func, ast.Attribute) and e.func.attr == "isoformat" and isinstance(e.func.value, ast.Name) \
                    and e.func.value.id in ("date", "datetime", "dt_time", "time") and len(e.args) == 1 and norm_text(e.args[0]) == "value" and not e.keywords:
                t = "value.isoformat()"
                continue
            if isinstance(e, ast.Call) and isinstance(e.func, ast.Attribute) and e.func.attr == "isoformat" and norm_text(e.func.value) == "value":
                from .common import module_const_value
                vals = [module_const_value(ctx, mod, a_) for a_ in e.args] + [module_const_value(ctx, mod, k.value) for k in e.keywords]
                names = ["sep", "timespec"][:len(e.args)] + [k.arg for k in e.keywords]
                if all((n_ == "sep" and v_ == "T") or (n_ == "timespec" and v_ == "auto") for n_, v_ in zip(names, vals)):
                    t = "value.isoformat()"
                    continue
            break
        return t

    payloads = [_canon_payload(t) for t in payloads]
    # ('inf' / '-inf' for an infinite float under a math.isinf test: float() parses both back exactly)
    has_isinf = any(isinstance(x, ast.Call) and (dotted(x.func) or "").split(".")[-1] == "isinf" for x in ast.walk(enc.node))
    INF_FORMS = ("'inf' if value > 0 else '-inf'", "'-inf' if value < 0 else 'inf'")
    lossy = [t for t in payloads if t not in ("value", "str(value)", "value.isoformat()") and not (has_isinf and t in INF_FORMS)]
    # ... and it is the value ITSELF: the encoder does not re-bind its argument to something else first (a clamped / rounded /
    # truncated copy); a zone conversion of an aware datetime names the same instant
    pv = next((p_.name for p_ in enc.params if p_.name not in ("self", "cls")), "value")
    for x in ast.walk(enc.node):
        tg = x.targets if isinstance(x, ast.Assign) else ([x.target] if isinstance(x, (ast.AugAssign, ast.AnnAssign)) else [])
        if any(isinstance(t_, ast.Name) and t_.id == pv for t_ in tg):
            rhs = getattr(x, "value", None)
            if isinstance(rhs, ast.Call) and isinstance(rhs.func, ast.Attribute) and rhs.func.attr == "astimezone" and norm_text(rhs.func.value) == pv:
                continue
            lossy.append(f"{pv} = {norm_text(rhs)[:60] if rhs is not None else '?'} (the bound is replaced before it is encoded)")
    ctx.ob("C13.R4", enc, "every bound is encoded losslessly", None, bool(payloads) and not lossy,
           ("payload expressions are value / value.isoformat() / str(value)" if not lossy else
            f"lossy payload expression(s) {lossy}: a rounded upper bound lies BELOW the file's real maximum, so files holding "
            f"matching rows are pruned"), text="lossless")
    def before(a: str, b: str) -> bool:
        return a in chain and b in chain and chain.index(a) < chain.index(b)
    ctx.ob("C13.R4", enc, "bool is tested before int, datetime before date", None, before("bool", "int") and before("datetime", "date"),
           f"isinstance chain: {chain} (bool is a subclass of int, datetime of date: the superclass test would capture them)",
           text="subclass-order")
    # the decoded VALUE decides nothing by its truthiness: 0, 0.0, False and "" are bounds like any other (a falsy lower bound
    # handed to the legacy inference comes back as raw JSON text, and every comparison with it prunes wrongly)
    gd = ctx.cfg(dec)
    vnames = set()
    for n_ in gd.nodes:
        if n_.kind == "stmt" and isinstance(n_.ast, ast.Assign):
            tgs_, vals_ = [], []
            if len(n_.ast.targets) == 1 and isinstance(n_.ast.targets[0], ast.Name):
                tgs_, vals_ = [n_.ast.targets[0]], [n_.ast.value]
            elif len(n_.ast.targets) == 1 and isinstance(n_.ast.targets[0], ast.Tuple) and isinstance(n_.ast.value, ast.Tuple) \
                    and len(n_.ast.targets[0].elts) == len(n_.ast.value.elts):
                tgs_, vals_ = list(n_.ast.targets[0].elts), list(n_.ast.value.elts)
            for t_, v_ in zip(tgs_, vals_):
                if not isinstance(t_, ast.Name):
                    continue
                is_v = (isinstance(v_, ast.Subscript) and isinstance(v_.slice, ast.Constant) and v_.slice.value == "v") or \
                    (isinstance(v_, ast.Call) and isinstance(v_.func, ast.Attribute) and v_.func.attr == "get" and v_.args
                     and isinstance(v_.args[0], ast.Constant) and v_.args[0].value == "v")
                if is_v:
                    vnames.add(t_.id)
    truthy = []
    for n_ in gd.nodes:
        if n_.ast is None or n_.id not in gd.reachable() or n_.kind not in ("branch", "stmt", "return"):
            continue
        tests = [n_.ast] if n_.kind == "branch" else []
        for x in ast.walk(n_.ast):
            if isinstance(x, ast.BoolOp):
                tests += x.values
            elif isinstance(x, ast.UnaryOp) and isinstance(x.op, ast.Not):
                tests.append(x.operand)
            elif isinstance(x, ast.IfExp):
                tests.append(x.test)
        truthy += [(n_, t_) for t_ in tests if isinstance(t_, ast.Name) and t_.id in vnames]
    ctx.ob("C13.R4", dec, "the decoded payload value is never truth-tested", truthy[0][0] if truthy else None, not truthy,
           "presence of the 'v' key is what makes a payload tagged" if not truthy else
           f"`{truthy[0][0].text[:60]}` tests the VALUE `{truthy[0][1].id}` for truth: a bound of 0 / 0.0 / False / '' is taken for a missing "
           "payload and decoded by the lossy legacy inference", text="value-truth")
    g = ctx.cfg(dec)
    legacy = [n for n in g.calls() if any(t.name == "_infer_value_legacy" for t in ctx.eff.callees(dec, n))]
    dom = ctx.dom(dec, ALL)
    tag_b = [b for b in g.nodes if b.kind == "branch" and isinstance(b.ast, ast.Compare) and isinstance(b.ast.ops[0], ast.Eq)
             and isinstance(b.ast.comparators[0], ast.Constant) and b.ast.comparators[0].value in read]
    tag_b += [n for n in g.nodes if n.ast is not None and n.kind in ("stmt", "branch", "return", "call")
              and any(x is y for x in lookups for y in ast.walk(n.ast))]
    ok = bool(legacy) and bool(tag_b) and all(not any(l.id in reachable_from(g, b.id, NORMAL) for b in tag_b) for l in legacy)
    ctx.ob("C13.R4", dec, "the untagged fallback is unreachable for tagged input", legacy[0] if legacy else None, ok,
           "a tagged payload is never re-interpreted by the lossy legacy inference (audit #34)")
    # writer uses _encode_bound, reader uses _decode_bound, for both maps
    cm = ctx.fn("file_manager.FileManager.create_manifest_file")
    rm = ctx.fn("file_manager.FileManager.read_manifest_file")
    def _codec_sites(f: FunctionInfo, codec: str) -> Dict[str, bool]:
        """For the values stored under / passed as lower_bounds and upper_bounds in f: does the value derive from a
        call of `codec` (possibly inside a helper introduced later)?"""
        g_ = ctx.cfg(f)
        sl_ = ctx.slicer(f)
        res: Dict[str, bool] = {}
        for n in g_.nodes:
            if n.ast is None or n.kind not in ("stmt", "call", "return"):
                continue
            root = n.ast
            for x in ast.walk(root):
                pairs = []
                if isinstance(x, ast.Dict):
                    pairs = [(k.value, v) for k, v in zip(x.keys, x.values) if isinstance(k, ast.Constant)]
                elif isinstance(x, ast.Call):
                    pairs = [(k.arg, k.value) for k in x.keywords if k.arg]
                for key, v in pairs:
                    if key in ("lower_bounds", "upper_bounds"):
                        org = sl_.origins(v, n.id)
                        hit = any(isinstance(c, ast.Call) and (dotted(c.func) or "").endswith(codec) for c in org["calls"]) or \
                            any(nm.split(".")[-1] == codec for nm in org["names"])  # the codec passed on as a function value
                        res[key] = res.get(key, False) or hit
        return res

    # what is encoded is the bound itself: the argument of _encode_bound in the writer is the value iterated out of the bound map,
    # not a shortened / rounded / sentinel-padded copy of it
    altered = []
    n_enc = 0
    for f_ in [cm] + [h for h in ctx.prog.functions.values() if not isinstance(h.node, ast.Lambda) and h.module is cm.module
                      and not ctx.prog.is_known(h) and h.cls is cm.cls]:
        g_ = ctx.cfg(f_)
        for x in ast.walk(f_.node):
            if isinstance(x, ast.Call) and (dotted(x.func) or "").split(".")[-1] == "_encode_bound" and x.args:
                n_enc += 1
                a0 = x.args[0]
                if not isinstance(a0, ast.Name):
                    altered.append(norm_text(a0)[:40])
                    continue
                # every binding of that name in the function is an iteration target (comprehension / for), never an expression
                for y in ast.walk(f_.node):
                    if isinstance(y, (ast.Assign, ast.AugAssign)) and any(isinstance(t, ast.Name) and t.id == a0.id for t in ast.walk(
                            y.targets[0] if isinstance(y, ast.Assign) else y.target)):
                        altered.append(norm_text(y)[:50])
    # the codec handed on as a function value: `helper(df.lower_bounds, self._encode_bound)` - the helper applies it to the
    # iterated value
    for f_ in [cm] + [h for h in ctx.prog.functions.values() if not isinstance(h.node, ast.Lambda) and h.module is cm.module
                      and not ctx.prog.is_known(h) and h.cls is cm.cls]:
        for x in ast.walk(f_.node):
            if isinstance(x, ast.Call) and any((dotted(a) or "").split(".")[-1] == "_encode_bound" for a in list(x.args) + [k.value for k in x.keywords]):
                tgt = [t for t in ctx.prog.functions.values() if not isinstance(t.node, ast.Lambda) and t.module is cm.module
                       and t.name == (dotted(x.func) or "").split(".")[-1]]
                for t in tgt:
                    pos = [i for i, a in enumerate(x.args) if (dotted(a) or "").split(".")[-1] == "_encode_bound"]
                    params = [p.name for p in t.params if p.name not in ("self", "cls")]
                    pnames = {params[i] for i in pos if i < len(params)} | {k.arg for k in x.keywords if (dotted(k.value) or "").split(".")[-1] == "_encode_bound"}
                    for y in ast.walk(t.node):
                        if isinstance(y, ast.Call) and isinstance(y.func, ast.Name) and y.func.id in pnames and y.args:
                            n_enc += 1
                            a0 = y.args[0]
                            if not isinstance(a0, ast.Name) or any(
                                    isinstance(z, (ast.Assign, ast.AugAssign)) and any(isinstance(tt, ast.Name) and tt.id == a0.id for tt in ast.walk(
                                        z.targets[0] if isinstance(z, ast.Assign) else z.target)) for z in ast.walk(t.node)):
                                altered.append(norm_text(y)[:50])
    ctx.ob("C13.R4", cm, "the writer encodes the bound values unaltered", None, n_enc > 0 and not altered,
           "every _encode_bound(v) in the manifest writer is applied to the value iterated out of lower_bounds / upper_bounds"
           if not altered else f"the encoded value is a transformed copy: {altered[:3]} - a truncated / padded upper bound is not an upper bound",
           text="unaltered")
    es, ds = _codec_sites(cm, "_encode_bound"), _codec_sites(rm, "_decode_bound")
    ctx.ob("C13.R4", cm, "both bound maps are encoded / decoded", None,
           es.get("lower_bounds", False) and es.get("upper_bounds", False) and ds.get("lower_bounds", False) and ds.get("upper_bounds", False),
           f"encoded on write: {es}; decoded on read: {ds}", text="sites")


def r5r6(ctx: Ctx) -> None:
    ctx.rule("C13.R5", "bounds are attached to the field they describe: stored and looked up under the id of the field with the "
             "same name", 2)
    ctx.rule("C13.R6", "bounds are computed from the very table that is written", 1)
    cb = ctx.fn("data_operations.DataFileManager._compute_column_bounds")
    g = ctx.cfg(cb)
    sl = ctx.slicer(cb)
    stores = [n for n in g.nodes if n.kind == "stmt" and isinstance(n.ast, ast.Assign) and isinstance(n.ast.targets[0], ast.Subscript)
              and "bounds" in norm_text(n.ast.targets[0].value)]
    for s in stores:
        key = s.ast.targets[0].slice  # type: ignore[union-attr]
        ko = sl.origins(key, s.id)
        vo = sl.origins(s.ast.value, s.id)  # type: ignore[union-attr]
        def _reads_key(org, what: str) -> bool:  # type: ignore[no-untyped-def]
            """field.get("id") or field["id"] somewhere on the value's def-use chain"""
            if any(isinstance(c, ast.Call) and c.args and isinstance(c.args[0], ast.Constant) and c.args[0].value == what for c in org["calls"]):
                return True
            return any(isinstance(x, ast.Subscript) and isinstance(x.slice, ast.Constant) and x.slice.value == what
                       for e_ in org["exprs"] for x in ast.walk(e_))
        k_id = _reads_key(ko, "id") or (isinstance(key, ast.Subscript) and isinstance(key.slice, ast.Constant) and key.slice.value == "id")
        v_name = _reads_key(vo, "name")

        def _over_fields(it: ast.AST, at: int, depth: int = 0) -> bool:
            """the schema's field list itself, or a local built from it by a FILTERING comprehension (`[f for f in X.fields if ..]`)"""
            if norm_text(it).endswith(".fields"):
                return True
            if isinstance(it, ast.Name) and depth < 3:
                defs_ = ctx.rd(cb).reaching(at, it.id)
                vals_ = [g.nodes[d_].ast.value for d_ in defs_ if d_ != g.entry and isinstance(g.nodes[d_].ast, ast.Assign)]
                return bool(vals_) and len(vals_) == len(defs_) and all(
                    isinstance(v_, (ast.ListComp, ast.GeneratorExp)) and len(v_.generators) == 1 and isinstance(v_.generators[0].target, ast.Name)
                    and isinstance(v_.elt, ast.Name) and v_.elt.id == v_.generators[0].target.id
                    and _over_fields(v_.generators[0].iter, at, depth + 1) for v_ in vals_)
            return False
        loopvars = {l.ast.target.id for l in g.nodes if l.kind == "loop" and isinstance(l.ast, ast.For) and isinstance(l.ast.target, ast.Name)
                    and _over_fields(l.ast.iter, l.id)}
        same = bool({n for n in ko["names"]} & {n for n in vo["names"]} & loopvars)
        ctx.ob("C13.R5", cb, "bound stored under field_dict['id'] for the column field_dict['name']", s, k_id and v_name and same,
               "key and column come from the same schema field")
    # the stored bound is the UNTRANSFORMED pc.min / pc.max of the column
    for st in stores:
        v = st.ast.value  # type: ignore[union-attr]
        want = "pc.min" if "lower" in norm_text(st.ast.targets[0]) else "pc.max"  # type: ignore[union-attr]
        srcs = [(x, a) for x, a in resolve_value(ctx, cb, v, st.id) if not (isinstance(x, ast.Constant) and x.value is None)]
        why = " | ".join(norm_text(x) for x, _a in srcs if x is not None)
        ok_each = []
        for x, a in srcs:
            if isinstance(x, ast.Call) and isinstance(x.func, ast.Attribute) and x.func.attr == "as_py" and not x.args:
                recv = x.func.value
                if isinstance(recv, ast.Subscript) and isinstance(recv.slice, ast.Constant) and recv.slice.value in ("min", "max"):
                    # pc.min_max(column)["min" | "max"]: one pass, same kernel - the field must be the right one
                    inner = resolve_value(ctx, cb, recv.value, a)
                    ok_each.append(recv.slice.value == want.split(".")[-1] and bool(inner)
                                   and all(isinstance(y, ast.Call) and (dotted(y.func) or "") == "pc.min_max" for y, _b in inner))
                    continue
                inner = resolve_value(ctx, cb, recv, a)
                ok_each.append(bool(inner) and all(isinstance(y, ast.Call) and (dotted(y.func) or "") == want for y, _b in inner))
            else:
                ok_each.append(False)
        chain_ok = bool(ok_each) and all(ok_each)
        ctx.ob("C13.R5", cb, "stored bound = pc.min/pc.max(column).as_py(), untransformed", st, chain_ok,
               f"value chain `{why}`: any truncation / rounding / sentinel makes the stored interval narrower than the data and "
               "prunes files that hold matching rows")
    pr = ctx.fn("filters.prune_files_by_bounds")
    prg = ctx.cfg(pr)
    psl = ctx.slicer(pr)
    maps = [n for n in prg.nodes if n.kind == "stmt" and isinstance(n.ast, ast.Assign) and isinstance(n.ast.targets[0], ast.Subscript)]
    ok = bool(maps)
    for m in maps:
        ko = psl.origins(m.ast.targets[0].slice, m.id)  # type: ignore[union-attr]
        vo = psl.origins(m.ast.value, m.id)  # type: ignore[union-attr]
        k_name = any(isinstance(c, ast.Call) and c.args and isinstance(c.args[0], ast.Constant) and c.args[0].value == "name" for c in ko["calls"])
        v_id = any(isinstance(c, ast.Call) and c.args and isinstance(c.args[0], ast.Constant) and c.args[0].value == "id" for c in vo["calls"])
        ok = ok and k_name and v_id
    if not maps:
        # comprehension form: {f.get("name"): f.get("id") for f in schema.fields if ...} - key and value read the SAME field
        def _reads(e: ast.AST, what: str) -> set:
            out_ = set()
            for x in ast.walk(e):
                if isinstance(x, ast.Call) and isinstance(x.func, ast.Attribute) and x.func.attr == "get" and x.args \
                        and isinstance(x.args[0], ast.Constant) and x.args[0].value == what and isinstance(x.func.value, ast.Name):
                    out_.add(x.func.value.id)
                if isinstance(x, ast.Subscript) and isinstance(x.slice, ast.Constant) and x.slice.value == what and isinstance(x.value, ast.Name):
                    out_.add(x.value.id)
            return out_
        comps = [x for x in ast.walk(pr.node) if isinstance(x, ast.DictComp) and len(x.generators) == 1
                 and isinstance(x.generators[0].target, ast.Name) and norm_text(x.generators[0].iter).endswith(".fields")]
        ok = bool(comps) and all(c.generators[0].target.id in _reads(c.key, "name") and c.generators[0].target.id in _reads(c.value, "id")  # type: ignore[attr-defined]
                                 and not _reads(c.key, "id") and not _reads(c.value, "name") for c in comps)
    ctx.ob("C13.R5", pr, "lookup map is name -> id of the same field", None, ok, "col_name_to_id[field_name] = field_id")
    fm = ctx.fn("filters._file_may_match")
    R = pruning_roles(ctx, fm)
    gets = [n for n in ast.walk(fm.node) if isinstance(n, ast.Call) and isinstance(n.func, ast.Attribute) and n.func.attr == "get"
            and norm_text(n.func.value) in (R.get("min_map"), R.get("max_map"))]
    ok = len(gets) >= 2 and len({norm_text(x.args[0]) for x in gets}) == 1
    ctx.ob("C13.R5", fm, "both bounds are read under the filter column's id", None, ok,
           "lower_bounds.get(col_id), upper_bounds.get(col_id)")
    lo = [x for x in gets if "lower" in norm_text(x.func.value)]
    asg = {norm_text(n.targets[0]): norm_text(n.value) for n in ast.walk(fm.node) if isinstance(n, ast.Assign) and len(n.targets) == 1}
    ok = R.get("min_map", "?") in asg.get(R["min"], "") and R.get("max_map", "?") in asg.get(R["max"], "") and \
        ".lower_bounds" in asg.get(R.get("min_map", ""), "") and ".upper_bounds" in asg.get(R.get("max_map", ""), "")
    ctx.ob("C13.R5", fm, "file_min comes from lower_bounds, file_max from upper_bounds", None, ok,
           f"min <- {asg.get(R['min'])} ; max <- {asg.get(R['max'])}")
    wd = ctx.fn("data_operations.DataFileManager.write_data_file")
    wg = ctx.cfg(wd)
    wsl = ctx.slicer(wd)
    cbc = ctx.calls(wd, name="_compute_column_bounds")
    writer = [n for n in wg.calls() if n.callee and n.callee.kind == "ctor" and n.callee.cls and n.callee.cls.name == "DataFileWriter"]
    wr = [n for n in wg.calls() if any(t.name == "write_records" for t in ctx.eff.callees(wd, n))]
    ok = False
    if cbc and writer and wr:
        to = wsl.origins(cbc[0].ast.args[0], cbc[0].id)  # type: ignore[union-attr]
        rec_p = wd.params[2].name if len(wd.params) > 2 else "records"
        conv = [n for n in wg.calls() if n.callee and n.callee.name == "pyarrow.Table.from_pylist" and n.ast in to["calls"]]
        sch = kwarg(conv[0].ast, "schema") if conv else None
        sch_name = sch.id if isinstance(sch, ast.Name) else "?"
        from_records = rec_p in to["names"] and bool(conv)
        w_schema = sch_name in names_in(writer[0].ast)
        w_records = rec_p in wsl.origins(wr[0].ast.args[0], wr[0].id)["names"]  # type: ignore[union-attr]
        same_iceberg = norm_text(cbc[0].ast.args[1]) == "iceberg_schema"  # type: ignore[union-attr]
        ok = from_records and w_schema and w_records and same_iceberg
    ctx.ob("C13.R6", wd, "bounds table and written batches share records and arrow_schema", cbc[0] if cbc else None, ok,
           "the statistics describe exactly the rows in the file")


def bounds_producers(ctx: Ctx, rid: str = "C13.R9") -> None:
    ctx.rule(rid, "who may produce bounds: the lower_bounds / upper_bounds of every DataFile built in the package come from "
             "_compute_column_bounds (pc.min / pc.max over the very rows written), from the manifest decoder, or are copied from "
             "another DataFile - no second statistics source (parquet footer statistics may be absent or truncated per row group: "
             "bounds narrower than the data prune files that hold matching rows)", 6)
    n_sites = 0
    for f in sorted(ctx.prog.functions.values(), key=lambda x: x.qname):
        if isinstance(f.node, ast.Lambda) or judged_in_callers(ctx, f):
            continue
        g = ctx.cfg(f)
        for n in g.calls():
            if n.id not in g.reachable() or not isinstance(n.ast, ast.Call):
                continue
            is_ctor = n.callee is not None and n.callee.kind == "ctor" and n.callee.cls is not None and n.callee.cls.name == "DataFile"
            is_replace = (dotted(n.ast.func) or "").split(".")[-1] == "replace" and any(k.arg in ("lower_bounds", "upper_bounds") for k in n.ast.keywords)
            if not (is_ctor or is_replace):
                continue
            for k in n.ast.keywords:
                if k.arg not in ("lower_bounds", "upper_bounds"):
                    continue
                n_sites += 1
                org = ctx.slicer(f).origins(k.value, n.id)
                srcs = [x for x, _a in resolve_value(ctx, f, k.value, n.id)]
                computed = any(isinstance(c, ast.Call) and (dotted(c.func) or "").split(".")[-1] in ("_compute_column_bounds", "_decode_bound")
                               for c in org["calls"]) or any(nm.split(".")[-1] == "_decode_bound" for nm in org["names"])
                if computed and isinstance(k.value, ast.Name):
                    # EVERY definition reaching the keyword must be sanctioned: an alternative assignment (footer statistics,
                    # a truncated copy) on some path is a second source
                    for d in ctx.rd(f).reaching(n.id, k.value.id):
                        dn = g.nodes[d]
                        if d == g.entry or not isinstance(dn.ast, ast.Assign):
                            continue
                        v_ = dn.ast.value
                        if isinstance(v_, ast.Constant) and v_.value is None:
                            continue
                        o2 = ctx.slicer(f).origins(v_, d)
                        tuple_of_call = isinstance(dn.ast.targets[0], (ast.Tuple, ast.List)) and isinstance(v_, ast.Call)
                        fine = tuple_of_call or any(isinstance(c, ast.Call) and (dotted(c.func) or "").split(".")[-1] in ("_compute_column_bounds", "_decode_bound")
                                                    for c in o2["calls"] | ({v_} if isinstance(v_, ast.Call) else set())) \
                            or any(nm.split(".")[-1] == "_decode_bound" for nm in o2["names"])
                        if not fine:
                            computed = False
                copied = any(nm.endswith("." + k.arg) for nm in org["names"])
                deser = any(isinstance(c, ast.Call) and isinstance(c.func, ast.Attribute) and c.func.attr == "get" and c.args
                            and isinstance(c.args[0], ast.Constant) and c.args[0].value == k.arg for c in org["calls"])
                none = bool(srcs) and all(isinstance(x, ast.Constant) and x.value is None for x in srcs)
                ok = computed or copied or deser or none
                ctx.ob(rid, f, f"{k.arg} of a new DataFile has a sanctioned source", n, ok,
                       ("computed by _compute_column_bounds" if computed else "copied / deserialised / absent") if ok else
                       f"`{norm_text(k.value)[:60]}` is neither _compute_column_bounds' result, a decoded manifest value nor a copy: "
                       "an unverified statistics source decides which files a filtered scan skips", text=k.arg)
    # bounds attached to an existing DataFile afterwards (`df.lower_bounds = ...`) are production sites as well
    for f in sorted(ctx.prog.functions.values(), key=lambda x: x.qname):
        if isinstance(f.node, ast.Lambda) or judged_in_callers(ctx, f):
            continue
        g = ctx.cfg(f)
        for n in g.nodes:
            if n.kind != "stmt" or not isinstance(n.ast, ast.Assign) or n.id not in g.reachable():
                continue
            for t in n.ast.targets:
                if isinstance(t, ast.Attribute) and t.attr in ("lower_bounds", "upper_bounds") and not (isinstance(t.value, ast.Name) and t.value.id == "self"):
                    org = ctx.slicer(f).origins(n.ast.value, n.id)
                    ok = any(isinstance(c, ast.Call) and (dotted(c.func) or "").split(".")[-1] in ("_compute_column_bounds", "_decode_bound")
                             for c in org["calls"]) or any(nm.endswith("." + t.attr) for nm in org["names"]) \
                        or (isinstance(n.ast.value, ast.Constant) and n.ast.value.value is None)
                    ctx.ob(rid, f, f"{t.attr} stored on a DataFile has a sanctioned source", n, ok,
                           "computed / copied" if ok else f"`{n.text[:60]}`: bounds from an unverified statistics source are attached to a file",
                           text=t.attr)
    if n_sites < 6:
        raise AnalysisError(f"only {n_sites} DataFile bound sites found")


def check(ctx: Ctx) -> None:
    bounds_producers(ctx)
    r1r2(ctx)
    r3(ctx)
    r4(ctx)
    r5r6(ctx)
    # bounds are keyed by field id: they describe the right column only if appends cannot re-number ids (C11.R1)
    from .c11 import r1 as c11_r1
    n0 = len(ctx.obs)
    c11_r1(ctx)
    for o in ctx.obs[n0:]:
        o.rule = "C13.R7"
    ctx.rule_text["C13.R7"] = ctx.rule_text.pop("C11.R1")
    ctx.floors["C13.R7"] = ctx.floors.pop("C11.R1")
    # ... and only if the name -> id mapping used for the lookup is the current one: the read path keeps no memo
    from .c02 import r6 as c02_r6
    ctx.shared(c02_r6, "C02.R6", "C13.R8", "a remembered schema looks bounds up under another column's id")
    from .common import no_shared_mutable_class_state
    no_shared_mutable_class_state(ctx, "C13.R12", "the bounds collected for one data file would be stored on every file written by the "
                                  "same process, and files are pruned by another file's minimum / maximum")
    per_entry_scratch_is_per_entry(ctx, "C13.R13")
    # pruning compares the LITERAL with the bounds: the row filter must compare the same way, or the answer depends on pruning
    from .c12 import membership_compares_like_equality
    membership_compares_like_equality(ctx, "C13.R10")
    # the pruning rules (R1 / R2) were derived for the row filter's NULL semantics: NULL never matches a comparison
    from .c12 import r3 as c12_r3
    ctx.shared(c12_r3, "C12.R3", "C13.R11", "the pruning rules assume the row filter's NULL semantics")


def per_entry_scratch_is_per_entry(ctx: Ctx, rid: str) -> None:
    ctx.rule(rid, "a manifest entry's statistics come from that entry alone: in the record loops of read_manifest_file / "
             "read_manifest_list_file a scratch collection that is filled inside the loop (`stats[k] = ...`) is created inside the "
             "loop - one created before the loop carries the previous entry's bounds over to an entry that has none (only the "
             "returned accumulator outlives an iteration)", 1)
    MUT = ("update", "setdefault", "add", "append", "extend")
    n_loops = 0
    for q in ("file_manager.FileManager.read_manifest_file", "file_manager.FileManager.read_manifest_list_file"):
        f = ctx.fn(q)
        g = ctx.cfg(f)
        rd = ctx.rd(f)
        rets: Set[str] = set()
        for r in g.nodes:
            if r.kind == "return" and r.ast is not None and getattr(r.ast, "value", None) is not None:
                rets |= set(names_in(r.ast.value))  # type: ignore[union-attr]
        for lp in [l for l in g.nodes if l.kind == "loop" and isinstance(l.ast, ast.For) and l.id in g.reachable()
                   and not any(fr.kind == "loop" for fr in l.frames)]:
            inside = {n.id for n in g.nodes if any(fr.kind == "loop" and fr.node is lp.ast for fr in n.frames)}
            # only the outermost record loops matter: a loop nested in another is covered by the outer one's own check
            n_loops += 1
            for n in [x for x in g.nodes if x.id in inside and x.ast is not None and x.kind in ("stmt", "call")]:
                names: Set[str] = set()
                if n.kind == "stmt" and isinstance(n.ast, (ast.Assign, ast.AugAssign)):
                    tg = n.ast.targets if isinstance(n.ast, ast.Assign) else [n.ast.target]
                    names |= {t.value.id for t in tg if isinstance(t, ast.Subscript) and isinstance(t.value, ast.Name)}
                if n.kind == "call" and isinstance(n.ast, ast.Call) and isinstance(n.ast.func, ast.Attribute) and n.ast.func.attr in MUT \
                        and isinstance(n.ast.func.value, ast.Name):
                    names.add(n.ast.func.value.id)
                for nm in sorted(names - rets):
                    base = re.sub(r"__i\d+$", "", nm)
                    if base in rets:
                        continue
                    defs = rd.reaching(n.id, nm)
                    outside = [d for d in defs if d not in inside and d != g.entry]
                    if not outside:
                        continue
                    # the definition outside the loop creates a collection (a display / constructor), and the collection's
                    # content reaches a record built in the loop
                    dn = g.nodes[outside[0]]
                    ctx.ob(rid, f, f"`{nm}` is created per entry", n, False,
                           f"`{n.text[:50]}` fills `{nm}`, which is created at {f.file}:{dn.lineno} BEFORE `{lp.text[:40]}`: what one entry "
                           "stored is still there for the next - an entry without bounds is given (and pruned by) its predecessor's",
                           text=f"{f.name}:{nm}")
    ctx.ob(rid, ctx.fn("file_manager.FileManager.read_manifest_file"), "record loops examined", None, n_loops >= 2, f"{n_loops} loops",
           nontrivial=False, text="loops")
