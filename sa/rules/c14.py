"""C14 - reads fail closed: damaged or missing files raise, never yield partial rows."""
from __future__ import annotations

import ast
from typing import Dict, List, Optional, Sequence, Set, Tuple

from ..cfg import NORMAL, Node, handler_classes
from ..core import Ctx
from ..flow import ALL, find_path, names_in
from ..model import AnalysisError, FunctionInfo, dotted, norm_text
from .common import (facts_at, eval3, effective_returns, resolve_value, pure_guard, judged_in_callers, walk_all, str_consts, owner_tops, nonnull_inline_return_edges, cleanup_in_reraising_handler, edge_target, guarded_names, handler_exits, handler_key, handler_nodes, in_handler, kwarg,
                     path_arg, reachable_from)

EXPLANATION = (
    "Static analysis of the read path (row_count, scan, to_pandas, scan_batches, iter_records, iter_pandas and "
    "everything they reach outside the storage backends): (R1) every except-handler is classified with the CFG; one "
    "that can complete normally must be in the reasoned allow-list; (R2) the two manifest parsers have no silent exit: "
    "no handler returns, the JSON stage's handler always raises, no constant-empty return; (R3) `return []` in "
    "_get_all_data_files is dominated by the unset-snapshot test and missing manifest (list) branches raise; (R4) on the "
    "verification branch the Parquet parse is dominated by the checksum test, whose failure edge raises CorruptDataError, "
    "and the bytes parsed are the bytes verified (same reaching definition); verification defaults to on; (R5) field-flow "
    "of `checksum` over the four hops writer -> append_data -> manifest writer -> manifest reader."
    ' Also: census - every DataFile built in the package carries a checksum, carried-over files are not re-built field by field, every reaching definition of the recorded checksum is a computed digest and a failing read-back fails the append.'
    ' Also in R2: handlers of streaming (generator) helpers of the parsers may not end the stream quietly; in R4: every call of the verifying readers receives the RESOLVED verify flag (argument -> environment -> default ON), also through helpers and closures.'
    ' (R6) who may turn a data file into rows: every Parquet read lies in the two verifying readers or a reasoned list.'
    ' (R7) the manifest parsers drop no entry; (R8) the checksum functions hash every byte and the verify functions return computed == expected.'
    ' (R11) who may produce a recorded checksum / size: the function that wrote the file, a copy, or the manifest decoder - never a later re-hash of stored bytes.'
    ' (R12) the metadata decoder reads every key the encoder writes with a subscript; (R13) no sync_interval on the Avro writers. R3: the de-duplication key is the path itself; R4: verify_checksums is handed on unchanged (None stays None) at every hop.'
    ' (R15) recovery orders versions as integers (C10.R11); R4 decides the environment default by scenario (unset / true / 1 / yes / on -> ON).'
    ' R3: a path listed twice keeps its FIRST entry; (R16) the paths of manifest / manifest-list entries are read with a subscript (a missing key fails the read, it is not None).'
    ' R7 / R2 judge decoding STAGES extracted into helpers in place (`x = stage(path); if x is not None: return x`).')
NOT_DECIDED = ("damage classes that still parse (Avro cut at a block boundary, a sibling file that is valid JSON); "
               "pyarrow's behaviour on corrupt pages when verification is off")

READ_APIS = ["row_count", "scan", "to_pandas", "scan_batches", "iter_records", "iter_pandas"]
READ_MODULES = ("transaction", "file_manager", "data_operations", "metadata_manager", "snapshot_manager", "filters",
                "integrity")

SWALLOW_OK: Dict[Tuple[str, str], str] = {
    ("datashard.file_manager.FileManager.read_manifest_file", "ValueError,IndexError,StopIteration,OSError"):
        "Avro parse failure falls through to the JSON parser, whose own failure raises (R2)",
    ("datashard.file_manager.FileManager.read_manifest_list_file", "ValueError,IndexError,StopIteration,OSError"):
        "Avro parse failure falls through to the JSON parser, whose own failure raises (R2)",
    ("datashard.file_manager.FileManager._decode_bound", "ValueError,TypeError"):
        "bound decoding falls back to the raw value; bounds only drive pruning, where an undecidable comparison never prunes (C13.R3)",
    ("datashard.file_manager.FileManager._infer_value_legacy", "ValueError"): "legacy bound inference chain",
    ("datashard.file_manager.FileManager._safe_int", "ValueError,TypeError"): "statistics counters only",
    ("datashard.metadata_manager.MetadataManager._parse_hint_content", "UnicodeDecodeError"):
        "an undecodable pointer is 'no usable hint': recovery by scanning follows (C10)",
    ("datashard.metadata_manager.MetadataManager._recover_version_from_files", "Exception#get_modified_time"):
        "mtime only breaks ties among same-version files",
    ("datashard.filters._file_may_match", "TypeError"): "an undecidable comparison never prunes (C13.R3)",
    ("datashard.data_operations.DataFileManager._get_arrow_path", "ValueError"):
        "commonpath ValueError (different drives) means 'outside': the code raises right below",
    ("datashard.data_operations.DataFileManager._compute_column_bounds", "pa.ArrowNotImplementedError"):
        "write path only: no bounds for that column (never prunes)",
    # storage layer (consulted by the collector's census C07.R8, whose call tree reaches the backends)
    ("datashard.s3_consistency.S3ConsistencyHandler.retry_with_backoff", "self.retryable_exceptions"):
        "the retry loop: a retryable error is retried and re-raised once the budget is exhausted (C20.R3)",
    ("datashard.storage_backend.LocalStorageBackend._resolve_path", "ValueError"):
        "commonpath ValueError (different drives) means 'outside': the code raises right below (C17)",
    ("datashard.storage_backend.S3StorageBackend.exists", "ClientError"):
        "404 is the answer 'absent'; every other code re-raises (C20.R2)",
}


def check(ctx: Ctx) -> None:
    r1(ctx)
    r2_parsers(ctx, "C14.R2")
    r3(ctx)
    r4(ctx)
    r5(ctx)
    row_sources_sanctioned(ctx)
    parsers_keep_every_entry(ctx)
    hashers_hash_everything(ctx)
    checksum_producers(ctx)
    metadata_reader_is_strict(ctx)
    avro_blocks_not_shrunk(ctx)
    parsers_read_containers_strictly(ctx)
    # "a broken table is never reported as an empty one": hint-less recovery sees every metadata file only if the listing is complete
    from .c20 import r10_listing_exhaustive
    r10_listing_exhaustive(ctx, "C14.R9")
    from .c20 import r12_stream_faithful
    r12_stream_faithful(ctx, "C14.R10")
    # every read API reads the version recovery resolves to: with the pointer lost, a textual 'latest' (v9 over v12) answers
    # with a SUBSET of the committed rows instead of raising or answering in full
    from .c10 import r11 as c10_r11_
    c10_r11_(ctx, "C14.R15")
    entry_paths_read_strictly(ctx, "C14.R16")


ROW_SOURCE_OWNERS: Dict[str, str] = {
    "datashard.transaction.Table._read_datafile_table": "the verifying reader (R3/R4: checksum compared before rows are returned)",
    "datashard.transaction.Table._iter_file_batches": "the verifying batch reader (R3/R4)",
    "datashard.transaction.Transaction._validate_file_schema": "reads the Parquet footer schema of a file being appended (no rows)",
    "datashard.data_operations.DataFileReader.open": "the low-level reader object itself",
    "datashard.data_operations.DataFileManager.read_data_file": "low-level utility (no caller inside the package)",
    "datashard.data_operations.DataFileManager.read_pandas_file": "low-level utility (no caller inside the package)",
}


def parsers_read_containers_strictly(ctx: Ctx, rid: str = "C14.R14") -> None:
    ctx.rule(rid, "a document that is not a manifest is not an EMPTY manifest: in the manifest / manifest-list parsers the list of "
             "entries of the JSON fallback is read with a subscript on the decoded document (`doc[\"files\"]`, KeyError -> parse "
             "error) - never `.get(key, [])`: a manifest swapped with a sibling JSON file (the table's own metadata file, `{}`) would "
             "load as 'no entries': scans answer with fewer rows / an empty table, the collector deletes the files it referenced "
             "(repro: /verif/repro/repro_sibling_swap.py) [D21]", 2)
    n = 0
    for q in ("file_manager.FileManager.read_manifest_file", "file_manager.FileManager.read_manifest_list_file"):
        f = ctx.fn(q)
        g = ctx.cfg(f)
        sl = ctx.slicer(f)
        # the decoded documents: locals assigned from json.loads(...) (directly or through a helper analysed in place)
        iters: List[Tuple[ast.AST, Node]] = [(x.ast.iter, x) for x in g.nodes if x.kind == "loop" and isinstance(x.ast, ast.For) and x.id in g.reachable()]
        # ... and the comprehension form `[entry(e) for e in doc["files"]]`
        for host in [x for x in g.nodes if x.kind in ("stmt", "return") and x.ast is not None and x.id in g.reachable()]:
            for comp in [y for y in ast.walk(host.ast) if isinstance(y, (ast.ListComp, ast.GeneratorExp, ast.SetComp, ast.DictComp))]:
                iters += [(gen.iter, host) for gen in comp.generators]
        for it, lp in iters:
            org = sl.origins(it, lp.id)
            if not any(isinstance(c, ast.Call) and (dotted(c.func) or "").split(".")[-1] in ("loads", "load") and "json" in (dotted(c.func) or "")
                       for c in org["calls"]):
                continue
            n += 1
            lenient = [x for e in [it] + list(org["exprs"]) for x in ast.walk(e)
                       if (isinstance(x, ast.Call) and isinstance(x.func, ast.Attribute) and x.func.attr in ("get", "pop", "setdefault") and x.args
                           and isinstance(x.args[0], ast.Constant) and isinstance(x.args[0].value, str))]
            # only the container of the entries counts (optional per-entry fields are read leniently on purpose)
            top = [x for x in lenient if any(isinstance(c, ast.Call) and (dotted(c.func) or "").split(".")[-1] in ("loads", "load")
                                            for c in sl.origins(x.func.value, lp.id)["calls"] | ({x.func.value} if isinstance(x.func.value, ast.Call) else set()))]
            ctx.ob(rid, f, "the entry list of the JSON fallback is read strictly", lp, not top,
                   "doc[...]: a document without the entry list fails to parse" if not top else
                   f"`{norm_text(top[0])[:50]}` answers a missing entry list with an empty one: any JSON object loads as an empty "
                   f"{'manifest' if 'list' not in q else 'manifest list'}")
    if n < 2:
        raise AnalysisError(f"only {n} JSON-fallback entry loop(s) found in the manifest parsers")


def avro_blocks_not_shrunk(ctx: Ctx, rid: str = "C14.R13") -> None:
    ctx.rule(rid, "manifests are written as few Avro blocks as the library default gives: no fastavro.writer call passes "
             "`sync_interval` - a small block size turns every ordinary manifest / manifest list into many blocks, and a file cut at "
             "an interior block boundary is a WELL-FORMED shorter container: the readers return a subset of the entries without any "
             "error (with the default, a cut anywhere after the header of an ordinary manifest fails to parse)", 2)
    n = 0
    for f in sorted(ctx.prog.functions.values(), key=lambda x: x.qname):
        if isinstance(f.node, ast.Lambda):
            continue
        for c in ctx.cfg(f).calls():
            if isinstance(c.ast, ast.Call) and (dotted(c.ast.func) or "").split(".")[-1] == "writer" and "avro" in (dotted(c.ast.func) or "").lower():
                n += 1
                si = kwarg(c.ast, "sync_interval")
                ctx.ob(rid, f, "Avro writer uses the default block size", c, si is None,
                       "no sync_interval" if si is None else f"sync_interval={norm_text(si)[:30]}: truncation at a block boundary goes unnoticed")
    if n < 2:
        raise AnalysisError(f"only {n} fastavro.writer call(s) found")


def metadata_reader_is_strict(ctx: Ctx, rid: str = "C14.R12") -> None:
    ctx.rule(rid, "writer / reader agreement of the table metadata: every top-level key _metadata_to_dict writes is read by "
             "_dict_to_metadata with a subscript on the decoded document (KeyError when absent) - never `.get(key) or <empty>`: a "
             "metadata file whose `snapshots` / `snapshot_log` is missing or null must fail to load, not load as a table with no "
             "snapshots (readers would answer [], the collector would find nothing reachable and delete every file)", 8)
    w = ctx.fn("metadata_manager.MetadataManager._metadata_to_dict")
    r = ctx.fn("metadata_manager.MetadataManager._dict_to_metadata")
    written: Set[str] = set()
    for _n, v in effective_returns(ctx, w):
        for src, _a in resolve_value(ctx, w, v, _n.id):
            if isinstance(src, ast.Dict):
                written |= {k.value for k in src.keys if isinstance(k, ast.Constant) and isinstance(k.value, str)}
    if len(written) < 8:
        raise AnalysisError(f"only {len(written)} top-level keys found in _metadata_to_dict's result")
    param = next((p.name for p in r.params if p.name != "self"), None)
    if param is None:
        raise AnalysisError("_dict_to_metadata lost its document parameter")
    strict: Set[str] = set()
    lenient: Dict[str, str] = {}
    for x in walk_all(ctx, r):
        if isinstance(x, ast.Subscript) and isinstance(x.value, ast.Name) and x.value.id == param and isinstance(x.slice, ast.Constant) \
                and isinstance(x.slice.value, str):
            strict.add(x.slice.value)
        if isinstance(x, ast.Call) and isinstance(x.func, ast.Attribute) and x.func.attr in ("get", "pop", "setdefault") \
                and isinstance(x.func.value, ast.Name) and x.func.value.id == param and x.args and isinstance(x.args[0], ast.Constant) \
                and isinstance(x.args[0].value, str):
            lenient[x.args[0].value] = norm_text(x)[:60]
    for k in sorted(written):
        ok = k in strict and k not in lenient
        ctx.ob(rid, r, f"`{k}` is read strictly", None, ok,
               "metadata_dict[...]: absent -> KeyError" if ok else
               (f"`{lenient[k]}` substitutes a default for a missing / null `{k}`" if k in lenient else f"`{k}` is written but never read back")
               + ": a damaged metadata file loads as a smaller table instead of failing", text=k)


def checksum_producers(ctx: Ctx, rid: str = "C14.R11") -> None:
    ctx.rule(rid, "who may produce a recorded checksum (and size): the checksum / file_size_in_bytes of every DataFile built in the "
             "package is computed by the function that WROTE the file (a data_operations writer, right after its DataFileWriter "
             "closed), copied from another DataFile, or decoded from a manifest - never re-derived later from the stored bytes (a "
             "manifest rewrite that re-hashes a survivor records the checksum of whatever damage the file has suffered since, and "
             "every later read verifies the damage as genuine)", 4)
    n_sites = 0
    writers = {f.qname for f in ctx.prog.functions.values() if not isinstance(f.node, ast.Lambda) and f.module.short == "data_operations"
               and any(c.callee is not None and c.callee.kind == "ctor" and c.callee.cls is not None and c.callee.cls.name == "DataFileWriter"
                       for c in ctx.cfg(f).calls())}
    for f in sorted(ctx.prog.functions.values(), key=lambda x: x.qname):
        if isinstance(f.node, ast.Lambda) or judged_in_callers(ctx, f):
            continue
        g = ctx.cfg(f)
        sites: List[Tuple[Node, str, ast.AST]] = []
        for n in g.calls():
            if n.id not in g.reachable() or not isinstance(n.ast, ast.Call):
                continue
            is_ctor = n.callee is not None and n.callee.kind == "ctor" and n.callee.cls is not None and n.callee.cls.name == "DataFile"
            is_replace = (dotted(n.ast.func) or "").split(".")[-1] in ("replace", "_replace")
            if is_ctor or is_replace:
                sites += [(n, k.arg, k.value) for k in n.ast.keywords if k.arg in ("checksum", "file_size_in_bytes")]
        for n in g.nodes:
            if n.kind == "stmt" and isinstance(n.ast, ast.Assign) and n.id in g.reachable():
                for t in n.ast.targets:
                    if isinstance(t, ast.Attribute) and t.attr in ("checksum", "file_size_in_bytes") and not (isinstance(t.value, ast.Name) and t.value.id == "self"):
                        sites.append((n, t.attr, n.ast.value))
        owners = {o.qname for o in owner_tops(ctx, f)}
        for n, field, v in sites:
            n_sites += 1
            org = ctx.slicer(f).origins(v, n.id)
            srcs = [x for x, _a in resolve_value(ctx, f, v, n.id)]
            copied = any(nm.endswith("." + field) for nm in org["names"]) and not org["calls"] - {c for c in org["calls"] if isinstance(c, ast.Call)
                                                                                                and isinstance(c.func, ast.Attribute) and c.func.attr in ("get", "int", "str")}
            copied = copied or all(isinstance(x, ast.Attribute) and x.attr == field for x in srcs) and bool(srcs)
            deser = any(isinstance(c, ast.Call) and isinstance(c.func, ast.Attribute) and c.func.attr == "get" and c.args
                        and isinstance(c.args[0], ast.Constant) and c.args[0].value in (field, "file_size_in_bytes", "checksum") for c in org["calls"])
            at_write = bool(owners) and owners <= writers
            deser = deser or any(isinstance(x, ast.Subscript) and isinstance(x.slice, ast.Constant) and x.slice.value == field for x in srcs)
            none = bool(srcs) and all(isinstance(x, ast.Constant) and x.value is None for x in srcs)
            ok = copied or deser or at_write or none
            ctx.ob(rid, f, f"{field} of a DataFile has a sanctioned source", n, ok,
                   ("computed where the file was written" if at_write else "copied / deserialised / absent") if ok else
                   f"`{norm_text(v)[:60]}` in {f.name} is neither the writer's own measurement, a decoded manifest value nor a copy: a "
                   "checksum re-derived from stored bytes certifies whatever the file contains now", text=field)
    if n_sites == 0:
        raise AnalysisError("no DataFile construction with a checksum found")


def row_sources_sanctioned(ctx: Ctx, rid: str = "C14.R6") -> None:
    ctx.rule(rid, "who may turn a data file into rows: every Parquet read (pq.read_table / pq.ParquetFile / DataFileReader / the "
             "low-level read_data_file utilities) lies in the two verifying readers of Table or in the reasoned list - a read API "
             "added elsewhere has neither the checksum comparison nor the raise-on-missing behaviour", 8)
    low = {f.qname for f in ctx.prog.functions.values() if f.module.short == "data_operations" and not isinstance(f.node, ast.Lambda)
           and any(n.callee and n.callee.kind == "ctor" and n.callee.cls and n.callee.cls.name == "DataFileReader" for n in ctx.cfg(f).calls())}
    for f in sorted(ctx.prog.functions.values(), key=lambda x: x.qname):
        if isinstance(f.node, ast.Lambda):
            continue
        g = ctx.cfg(f)
        for n in g.calls():
            if n.id not in g.reachable() or n.callee is None:
                continue
            c = n.callee
            what = None
            if c.kind == "prim" and c.name in ("pyarrow.parquet.read_table", "pyarrow.parquet.ParquetFile", "pyarrow.parquet.ParquetDataset",
                                               "pyarrow.dataset.dataset", "pyarrow.parquet.read_pandas"):
                what = c.name
            elif c.kind == "ctor" and c.cls is not None and c.cls.name == "DataFileReader":
                what = "DataFileReader"
            elif f.module.short != "data_operations" and any(t.qname in low for t in ctx.eff.callees(f, n)):
                what = "low-level " + "/".join(sorted(t.name for t in ctx.eff.callees(f, n) if t.qname in low))
            if what is None:
                continue
            owners = owner_tops(ctx, f)
            reasons = [ROW_SOURCE_OWNERS.get(ctx.prog.anchor(o)) for o in owners]
            ok = bool(owners) and all(r is not None for r in reasons)
            ctx.ob(rid, f, f"{what} site", n, ok, (f"sanctioned: {reasons[0]}" if ok else
                   "rows are produced outside the verifying readers: altered bytes are returned as rows, and whatever this function "
                   "does about a missing file is not the readers' raise"), text=what)


def parsers_keep_every_entry(ctx: Ctx, rid: str = "C14.R7") -> None:
    ctx.rule(rid, "the manifest parsers drop no entry: in every decoding loop (Avro and JSON stage alike) each iteration reaches "
             "the append of the record object it built, to the list that is returned - no conditional skip, no lost append", 4)
    for q, cname in (("file_manager.FileManager.read_manifest_file", "DataFile"),
                     ("file_manager.FileManager.read_manifest_list_file", "ManifestFile")):
        f = ctx.fn(q)
        g = ctx.cfg(f)
        sl = ctx.slicer(f)
        n_sites = 0
        def builds(fn_: FunctionInfo, depth: int = 0) -> bool:
            """every return of fn_ is `cname(...)` (a per-entry decoder extracted into a helper)"""
            rets_ = [r for r in ast.walk(fn_.node) if isinstance(r, ast.Return)]
            return bool(rets_) and all(isinstance(r.value, ast.Call) and (dotted(r.value.func) or "").split(".")[-1] == cname for r in rets_)

        ctors = []
        for n in g.calls():
            if n.id not in g.reachable():
                continue
            inl_ = [fr for fr in n.frames if fr.kind == "inline"]
            if inl_ and any(id(fr.node) in g.inlined_calls and builds(g.inlined_calls[id(fr.node)]) for fr in inl_):
                continue  # statements of a per-entry decoder analysed in place are represented by the decoder's call
            # (a whole decoding STAGE extracted into a helper - its loop, its append, its return - is judged in place)
            if n.callee is not None and n.callee.kind == "ctor" and n.callee.cls is not None and n.callee.cls.name == cname:
                ctors.append(n)
            elif isinstance(n.ast, ast.Call) and id(n.ast) in g.inlined_calls and builds(g.inlined_calls[id(n.ast)]):
                ctors.append(n)
            elif any(builds(t) for t in ctx.eff.callees(f, n)):
                ctors.append(n)
        # ... and per-entry decoders called from a comprehension (comprehension bodies are not CFG nodes)
        comp_calls = [x for cmp_ in ast.walk(f.node) if isinstance(cmp_, (ast.ListComp, ast.GeneratorExp)) for x in ast.walk(cmp_.elt)
                      if isinstance(x, ast.Call) and ((dotted(x.func) or "").split(".")[-1] == cname or any(
                          t_.name == (dotted(x.func) or "").split(".")[-1] and builds(t_) for t_ in ctx.prog.functions.values()
                          if t_.module is f.module and not isinstance(t_.node, ast.Lambda)))]
        for x in comp_calls:
            if not any(c.ast is x for c in ctors):
                comp = next(cmp_ for cmp_ in ast.walk(f.node) if isinstance(cmp_, (ast.ListComp, ast.GeneratorExp)) and any(y is x for y in ast.walk(cmp_.elt)))
                n_sites += 1
                ctx.ob(rid, f, f"every decoded {cname} is kept", None, not any(gen.ifs for gen in comp.generators),
                       "unfiltered comprehension", text=f"{cname}@{n_sites}", line=x.lineno)
        for c in ctors:
            loops = [fr.node for fr in c.frames if fr.kind == "loop"]
            if not loops:
                # comprehension form: the constructor is the element of an unfiltered comprehension
                comp = next((x for x in ast.walk(f.node) if isinstance(x, (ast.ListComp, ast.GeneratorExp)) and any(y is c.ast for y in ast.walk(x.elt))), None)
                n_sites += 1
                ctx.ob(rid, f, f"every decoded {cname} is kept", c, comp is not None and not any(gen.ifs for gen in comp.generators),
                       "unfiltered comprehension" if comp is not None else f"a {cname} built outside any decoding loop", text=f"{cname}@{n_sites}")
                continue
            lp = next((n for n in g.nodes if n.kind == "loop" and n.ast is loops[-1]), None)
            if lp is None:
                raise AnalysisError("loop node of the de-duplication loop not found in the CFG")
            body = edge_target(g, lp, "true")
            apps = [n for n in g.calls() if isinstance(n.ast, ast.Call) and isinstance(n.ast.func, ast.Attribute) and n.ast.func.attr == "append"
                    and n.ast.args and c.ast in sl.origins(n.ast.args[0], n.id)["calls"]
                    and any(fr.kind == "loop" and fr.node is lp.ast for fr in n.frames)]
            n_sites += 1
            wit = find_path(g, body, [lp.id], avoid=[a.id for a in apps], labels=NORMAL) if body is not None and body not in [a.id for a in apps] else None
            # the list appended to is the one returned after the loop
            lists = {dotted(a.ast.func.value) for a in apps if isinstance(a.ast, ast.Call)}  # type: ignore[union-attr]
            rets = [r for r in g.nodes if r.kind == "return" and r.id in reachable_from(g, lp.id, NORMAL) and r.ast is not None and r.ast.value is not None]  # type: ignore[union-attr]
            returned = any(names_in(r.ast.value) & {x for x in lists if x} for r in rets)  # type: ignore[union-attr]
            if not returned:
                # through the return of a stage helper analysed in place: the list flows into a value the function returns
                rets2 = [r for r in g.nodes if r.kind == "return" and r.ast is not None and r.ast.value is not None and r.id in g.reachable()]  # type: ignore[union-attr]
                returned = any({x for x in lists if x} & set(sl.origins(r.ast.value, r.id)["names"]) for r in rets2)  # type: ignore[union-attr]
            ctx.ob(rid, f, f"every decoded {cname} is kept", c, bool(apps) and wit is None and returned,
                   "each iteration appends the object to the returned list" if apps and wit is None and returned else
                   ("an iteration can complete without appending the object it decoded (or the list is not the one returned): the "
                    "reader answers with fewer files than the manifest holds - rows silently missing, and the collector sees their "
                    "files as unreachable"), witness=ctx.path_witness(f, wit), text=f"{cname}@{n_sites}")
        if n_sites < 2:
            raise AnalysisError(f"only {n_sites} decoding site(s) of {cname} found in {q}")


def hashers_hash_everything(ctx: Ctx, rid: str = "C14.R8") -> None:
    ctx.rule(rid, "the checksum functions hash every byte: each returns hexdigest() of a hasher that was fed the whole input - "
             "update(data), or in the chunked readers every non-empty chunk reaches update() and the loop ends only on an empty "
             "read; the verify functions return the equality of computed and expected checksum (a writer-side hash of nothing "
             "makes every file 'verify' on S3 while corruption goes unnoticed)", 5)
    ic = ctx.prog.cls("integrity.IntegrityChecker")
    for name in ("compute_checksum", "compute_checksum_from_stream", "compute_file_checksum"):
        f = ic.methods.get(name)
        if f is None:
            raise AnalysisError(f"IntegrityChecker.{name} vanished")
        g = ctx.cfg(f)
        sl = ctx.slicer(f)
        ups = [n for n in g.calls() if n.id in g.reachable() and isinstance(n.ast, ast.Call) and isinstance(n.ast.func, ast.Attribute) and n.ast.func.attr == "update"
               and any(isinstance(c, ast.Call) and (dotted(c.func) or "").startswith("hashlib.") for c in sl.origins(n.ast.func.value, n.id)["calls"])]
        hexes = [n for n in g.calls() if isinstance(n.ast, ast.Call) and isinstance(n.ast.func, ast.Attribute) and n.ast.func.attr == "hexdigest"]
        rets = [r for r in g.nodes if r.kind == "return" and r.id in g.reachable() and r.ast is not None and r.ast.value is not None]  # type: ignore[union-attr]
        ret_ok = bool(rets) and bool(hexes) and all(any(h.ast in sl.origins(r.ast.value, r.id)["calls"] or h.ast is r.ast.value for h in hexes) for r in rets)  # type: ignore[union-attr]
        loops = [l for l in g.nodes if l.kind in ("loop", "loop_head") and l.id in g.reachable()]
        ok, why = bool(ups) and ret_ok, "update(...) feeds the hasher and hexdigest() is returned"
        if not ups:
            why = "the hasher is never fed: every input has the checksum of the empty string"
        elif not ret_ok:
            why = "the returned value is not the hasher's hexdigest()"
        if ok and not loops:
            dom = ctx.dom(f, NORMAL)
            if not all(any(u.id in dom[h.id] for u in ups) for h in hexes):
                ok, why = False, "hexdigest() can be reached without update()"
            pn = next((p.name for p in f.params if p.name not in ("self", "cls", "algorithm")), None)
            if ok and pn is not None and not any(pn in names_in(u.ast.args[0]) for u in ups if isinstance(u.ast, ast.Call) and u.ast.args):
                ok, why = False, f"update() is not given the `{pn}` argument"
        for lp in loops if ok else []:
            reads = [n for n in g.nodes if n.kind == "stmt" and isinstance(n.ast, ast.Assign) and isinstance(n.ast.value, ast.Call)
                     and isinstance(n.ast.value.func, ast.Attribute) and n.ast.value.func.attr == "read" and isinstance(n.ast.targets[0], ast.Name)
                     and any(fr.kind == "loop" and fr.node is lp.ast for fr in n.frames)]
            if not reads:
                continue
            chunk = reads[0].ast.targets[0].id  # type: ignore[union-attr]

            def scen(x: ast.AST, chunk: str = chunk) -> Optional[bool]:
                return True if isinstance(x, ast.Name) and x.id == chunk else None  # scenario: the read returned data

            def edge_ok(s_: int, d_: int, l_: str) -> bool:
                n_ = g.nodes[s_]
                if n_.kind == "branch" and n_.ast is not None and l_ in ("true", "false"):
                    v_ = eval3(n_.ast, scen)
                    if v_ is not None:
                        return l_ == ("true" if v_ else "false")
                return True

            in_loop = {n.id for n in g.nodes if any(fr.kind == "loop" and fr.node is lp.ast for fr in n.frames)}
            outside = [n.id for n in g.nodes if n.id not in in_loop and n.id != lp.id and n.kind not in ("entry",)]
            starts = [d for d, l in g.succ[reads[0].id] if l in NORMAL]
            w = None
            for st in starts:
                w = w or find_path(g, st, [lp.id] + outside, avoid=[u.id for u in ups], labels=NORMAL | {"back"}, edge_ok=edge_ok)
            if w is not None:
                ok, why = False, "a non-empty chunk can leave the iteration (or the loop) without reaching update()"
            # ... and an empty read ends the loop (no endless loop / no early stop is the scenario above)
        ctx.ob(rid, f, f"{name} hashes its whole input", ups[0] if ups else None, ok, why, text=name)
    for name in ("verify_checksum", "verify_stream_checksum"):
        f = ic.methods.get(name)
        if f is None:
            raise AnalysisError(f"IntegrityChecker.{name} vanished")
        g = ctx.cfg(f)
        ok = True
        seen_cmp = False
        for r, v in effective_returns(ctx, f):
            for src, at in resolve_value(ctx, f, v, r.id):
                if isinstance(src, ast.Compare) and len(src.ops) == 1 and isinstance(src.ops[0], ast.Eq):
                    org = ctx.slicer(f).origins(src, at)
                    seen_cmp = seen_cmp or (any(isinstance(c, ast.Call) and (dotted(c.func) or "").split(".")[-1].startswith("compute_checksum") for c in org["calls"])
                                            and any("expected" in p for p in org["params"]))
                elif isinstance(src, ast.Constant) and src.value is False:
                    pass
                elif isinstance(src, ast.Constant) and src.value is True:
                    # `if computed == expected: return True`: the equality is a fact on arrival
                    eqs = [e for pol, e, _a in facts_at(ctx, f, g.nodes[at]) if pol == "true" and isinstance(e, ast.Compare)
                           and len(e.ops) == 1 and isinstance(e.ops[0], ast.Eq)]
                    hit = False
                    for e in eqs:
                        org = ctx.slicer(f).origins(e, at)
                        if any(isinstance(c, ast.Call) and (dotted(c.func) or "").split(".")[-1].startswith("compute_checksum") for c in org["calls"]) \
                                and any("expected" in p for p in org["params"]):
                            hit = True
                    seen_cmp = seen_cmp or hit
                    ok = ok and hit
                else:
                    ok = False
        ctx.ob(rid, f, f"{name} returns computed == expected", None, ok and seen_cmp,
               "the verdict is the equality of the computed and the expected checksum", text=name)


def read_path_functions(ctx: Ctx, roots: Optional[List[FunctionInfo]] = None, modules: Tuple[str, ...] = READ_MODULES) -> List[FunctionInfo]:
    table = ctx.prog.cls("transaction.Table")
    seen: Dict[str, FunctionInfo] = {}
    for api in (READ_APIS if roots is None else roots):
        if roots is None and api not in table.methods:
            raise AnalysisError(f"read API vanished: Table.{api}")
        r = table.methods[api] if roots is None else api  # type: ignore[index,assignment]
        seen[r.qname] = r
        for f, n, _c in ctx.eff.transitive_calls(r):
            for t in ctx.eff.callees(f, n):
                seen.setdefault(t.qname, t)
    out = []
    for f in seen.values():
        top = f
        while top.parent is not None:
            top = top.parent
        if top.module.short in modules:
            out.append(f)
    return sorted(out, key=lambda x: x.qname)


def allow_key(ctx: Ctx, f: FunctionInfo, hn: Node) -> Tuple[str, str]:
    cs = ",".join(handler_classes(hn.ast))  # type: ignore[arg-type]
    top = f
    while top.parent is not None:
        top = top.parent
    if cs == "Exception":
        gn = guarded_names(ctx, f, hn.stmt)
        if gn:
            cs = "Exception#" + "+".join(gn)
    return (ctx.prog.anchor(top), cs)


def r1(ctx: Ctx, rid: str = "C14.R1", roots: Optional[List[FunctionInfo]] = None, modules: Tuple[str, ...] = READ_MODULES,
       what: str = "read path: every handler reachable from a read API", floor: int = 8, min_fns: int = 20) -> None:
    ctx.rule(rid, f"no swallowing on the {what} re-raises / converts, or is in the reasoned allow-list", floor)
    fns = read_path_functions(ctx, roots, modules)
    if len(fns) < min_fns:
        raise AnalysisError(f"{what.split(':')[0]} has only {len(fns)} functions - call graph broken")
    for f in fns:
        if judged_in_callers(ctx, f):
            continue  # a helper introduced later: its handlers are judged where it is inlined (in its callers)
        for hn in handler_nodes(ctx, f):
            if hn.id not in ctx.cfg(f).reachable():
                continue
            ex = handler_exits(ctx, f, hn)
            swallow = bool(ex["fallthrough"] or ex["return"] or ex["loop"])
            if not swallow:
                ctx.ob(rid, f, handler_key(ctx, f, hn), hn, True, "re-raises / converts on every path", text="")
                continue
            k = allow_key(ctx, f, hn)
            reason = SWALLOW_OK.get(k)
            if reason is None:
                for o in owner_tops(ctx, f):
                    reason = reason or SWALLOW_OK.get((ctx.prog.anchor(o), k[1]))
            if reason is None and cleanup_in_reraising_handler(ctx, f, hn):
                reason = "best-effort cleanup nested in a handler that re-raises the original error on every path"
            if reason is None and pure_guard(ctx, f, hn):
                reason = "guards a pure computation (builtins only, value errors only): no storage / parse failure can be hidden"
            ctx.ob(rid, f, handler_key(ctx, f, hn), hn, reason is not None,
                   (f"allow-listed: {reason}" if reason else
                    f"a handler on the read path can complete normally: a storage/parse failure would yield a partial or "
                    f"empty answer instead of raising; key={k}"), text="")
    # the yield-from / generator path must not wrap reads in a try at all: covered by the handler census above.


def r2_parsers(ctx: Ctx, rid: str) -> None:
    ctx.rule(rid, "manifest parsers have no silent exit: no handler returns; the last (JSON) stage's handler always raises; no "
             "return of a constant-empty list; every return is dominated by the end of a parse loop", 6)
    for q in ("file_manager.FileManager.read_manifest_file", "file_manager.FileManager.read_manifest_list_file"):
        f = ctx.fn(q)
        g = ctx.cfg(f)
        hs = handler_nodes(ctx, f)
        if not hs:
            raise AnalysisError(f"no handlers in {q}: parser shape changed")
        for hn in hs:
            ex = handler_exits(ctx, f, hn)
            ctx.ob(rid, f, "handler does not return / continue", hn, not ex["return"] and not ex["loop"],
                   "a parse failure never produces a result directly", text=",".join(handler_classes(hn.ast)))  # type: ignore[arg-type]
        # helpers introduced later that could not be inlined (generators): their handlers are part of the parser too -
        # a generator that ends quietly on a parse error hands the caller a silently truncated stream
        helpers = {t.qname: t for hf, n_, _c in [(f, x, None) for x in g.calls()] + ctx.eff.transitive_calls(f)
                   for t in ctx.eff.callees(hf, n_)
                   if not ctx.prog.is_known(t) and not ctx.prog.is_transparent(t) and not isinstance(t.node, ast.Lambda)}
        for t in helpers.values():
            for hn in handler_nodes(ctx, t):
                ex = handler_exits(ctx, t, hn)
                quiet = bool(ex["return"] or ex["loop"] or ex["fallthrough"])
                ctx.ob(rid, t, "handler of a streaming helper does not end the stream quietly", hn, not quiet,
                       "records yielded before the failure would be returned as the whole manifest", text=",".join(handler_classes(hn.ast)))  # type: ignore[arg-type]
        last = max(hs, key=lambda n: n.lineno)
        exl = handler_exits(ctx, f, last)
        ctx.ob(rid, f, "the final stage's handler always raises", last, bool(exl["raise"]) and not exl["fallthrough"] and not exl["return"],
               "when neither Avro nor JSON parses the function raises", text="final-handler")
        # nothing after the final try: falling off the end would return None
        end = find_path(g, last.id, [g.exit], labels=NORMAL)
        ctx.ob(rid, f, "no fall-through to an implicit return None after the last handler", last, end is None,
               "the function cannot end without a result or an exception", witness=ctx.path_witness(f, end), text="fallthrough")
        rets = [n for n in g.nodes if n.kind == "return" and n.id in g.reachable()]
        for r in rets:
            v = r.ast.value  # type: ignore[union-attr]
            const_empty = v is None or isinstance(v, (ast.List, ast.Tuple, ast.Constant, ast.Dict))
            # the returned list is filled by a loop that precedes the return
            dom = ctx.dom(f, ALL)
            loops = [l for l in g.nodes if l.kind == "loop" and l.id in dom[r.id]]
            comp = isinstance(v, (ast.ListComp,)) or (isinstance(v, ast.Call) and isinstance(v.func, ast.Name) and v.func.id == "list"
                                                      and v.args and isinstance(v.args[0], (ast.GeneratorExp, ast.ListComp)))
            if not loops and not comp and isinstance(v, ast.Name):
                # `x = self._stage(path)` (analysed in place; None = 'not this format') ... `if x is not None: return x`: on the way
                # to this return the stage was left through a `return <list>` - each of THOSE follows the stage's parse loop
                ndom = ctx.dom(f, NORMAL)
                for b in [b_ for b_ in g.nodes if b_.kind == "branch" and b_.id in ndom[r.id] and isinstance(b_.ast, ast.Compare)
                          and len(b_.ast.ops) == 1 and isinstance(b_.ast.left, ast.Name) and b_.ast.left.id == v.id
                          and isinstance(b_.ast.comparators[0], ast.Constant) and b_.ast.comparators[0].value is None]:
                    lab = "false" if isinstance(b.ast.ops[0], (ast.Is, ast.Eq)) else "true"  # the not-None side
                    t1, t0 = edge_target(g, b, lab), edge_target(g, b, "true" if lab == "false" else "false")
                    if t1 is None or r.id not in reachable_from(g, t1, NORMAL) or (t0 is not None and r.id in reachable_from(g, t0, NORMAL)):
                        continue
                    ds = ctx.rd(f).reaching(b.id, v.id)
                    outs = []
                    okd = bool(ds)
                    for d_ in ds:
                        dn_ = g.nodes[d_]
                        val_ = dn_.ast.value if d_ != g.entry and isinstance(dn_.ast, ast.Assign) else None
                        if isinstance(val_, ast.Call) and id(val_) in g.inline_returns:
                            outs += [(e_, n_) for e_, n_ in g.inline_returns[id(val_)] if not (e_ is None or (isinstance(e_, ast.Constant) and e_.value is None))]
                        else:
                            okd = False
                    if okd and outs and all(not isinstance(e_, (ast.List, ast.Tuple, ast.Dict, ast.Constant))
                                            and any(l.kind == "loop" and l.id in dom[n_] for l in g.nodes) for e_, n_ in outs):
                        loops = [l for l in g.nodes if l.kind == "loop" and any(l.id in dom[n_] for _e, n_ in outs)]
            ctx.ob(rid, f, "return value is the parsed list, after its parse loop", r, (not const_empty) and (bool(loops) or comp),
                   "every successful exit returns what a completed parse loop accumulated")
        # missing file raises explicitly
        ex_b = [b for b in g.nodes if b.kind == "branch" and "exists" in b.text]
        ok = False
        for b in ex_b:
            fl = edge_target(g, b, "false")
            if fl is not None:
                reach = reachable_from(g, fl, NORMAL)
                ok = any(g.nodes[x].kind == "raise" for x in reach) and g.exit not in reach
        ctx.ob(rid, f, "missing file raises", ex_b[0] if ex_b else None, ok or not ex_b,
               "exists() false -> FileNotFoundError (or the read itself raises)", text="exists")


def r3(ctx: Ctx) -> None:
    ctx.rule("C14.R3", "broken is not empty: in _get_all_data_files an empty result is only returned under the unset-snapshot test; "
             "a missing manifest list / manifest raises", 3)
    f = ctx.fn("transaction.Table._get_all_data_files")
    g = ctx.cfg(f)
    dom = ctx.dom(f, NORMAL)
    sl = ctx.slicer(f)
    rets = [n for n in g.nodes if n.kind == "return" and n.id in g.reachable()
            and isinstance(n.ast.value, ast.List) and not n.ast.value.elts]  # type: ignore[union-attr]
    # objects from which .current_snapshot_id is read (their being None also means "no table / empty")
    roots = {dotted(x.value) for n_ in g.nodes if n_.ast is not None for x in ast.walk(n_.ast)
             if isinstance(x, ast.Attribute) and x.attr == "current_snapshot_id" and dotted(x.value)}
    for r in rets:
        unset_edges = set()
        guards = []
        for b in g.nodes:
            if b.kind != "branch":
                continue
            t_ = b.ast
            subj = None
            unset_label = None
            if isinstance(t_, ast.Compare) and len(t_.ops) == 1:
                org = sl.origins(t_.left, b.id)
                touches = any(isinstance(x, ast.Attribute) and x.attr == "current_snapshot_id" for e in org["exprs"] for x in ast.walk(e)) \
                    or dotted(t_.left) in roots
                c0 = t_.comparators[0]
                if touches and isinstance(c0, ast.Constant) and c0.value is None:
                    unset_label = "true" if isinstance(t_.ops[0], (ast.Is, ast.Eq)) else "false"
                elif touches and isinstance(c0, ast.UnaryOp) and isinstance(c0.operand, ast.Constant) and c0.operand.value == 1 \
                        or touches and isinstance(c0, ast.Constant) and c0.value == -1:
                    unset_label = "true" if isinstance(t_.ops[0], ast.Eq) else "false"
            elif isinstance(t_, ast.Name) and t_.id in roots:
                unset_label = "false"  # `if metadata:` - falsy means no table
            if unset_label is None:
                continue
            guards.append(b)
            for d, l in g.succ[b.id]:
                if l == unset_label:
                    unset_edges.add((b.id, d))
        infeasible = nonnull_inline_return_edges(ctx, f, r)
        w = find_path(g, g.entry, [r.id], labels=ALL, edge_ok=lambda s_, d_, l_: (s_, d_) not in unset_edges and (s_, d_) not in infeasible)
        raises = False
        for b in guards:
            for lab in ("true", "false"):
                t = edge_target(g, b, lab)
                if t is not None and (b.id, t) not in unset_edges and any(
                        g.nodes[x].kind == "raise" for x in reachable_from(g, t, NORMAL, avoid=[r.id])):
                    raises = True
        ok = bool(guards) and w is None and raises
        ctx.ob("C14.R3", f, "`return []` only when current_snapshot_id is unset", r, ok,
               "a SET current_snapshot_id that resolves to nothing raises instead of reporting an empty table")
    for b in [b for b in g.nodes if b.kind == "branch" and "exists" in b.text]:
        fl = edge_target(g, b, "false")
        ok = False
        if fl is not None:
            reach = reachable_from(g, fl, NORMAL, avoid=[n.id for n in g.nodes if n.kind == "loop"])
            ok = any(g.nodes[x].kind == "raise" for x in reach) and not any(g.nodes[x].kind == "return" for x in reach) \
                and not any(isinstance(g.nodes[x].ast, ast.Continue) for x in reach)
        ctx.ob("C14.R3", f, "a missing referenced file raises", b, ok, "exists() false -> RuntimeError, never skip")
    skips = [n for n in g.nodes if isinstance(n.ast, ast.Continue) and n.id in g.reachable()]
    reads = ctx.calls(f, name="read_manifest_file") + ctx.calls(f, name="read_manifest_list_file")
    read_arg_names: Set[str] = set()
    for rc in reads:
        ro = sl.origins(rc.ast.args[0] if isinstance(rc.ast, ast.Call) and rc.ast.args else None, rc.id)
        read_arg_names |= {n for n in ro["names"] if n != "self" and not n.startswith("self.")}
        # ... and the attribute chains the argument is computed from (`manifest_ref.manifest_path` handed to a helper that
        # normalises and reads it)
        read_arg_names |= {dotted(x) for e in ro["exprs"] for x in ast.walk(e) if isinstance(x, ast.Attribute) and dotted(x)
                           and not (dotted(x) or "").startswith("self.")}  # type: ignore[misc]
    for s_ in skips:
        brs = [b for b in g.nodes if b.kind == "branch" and b.id in dom[s_.id]]
        inner = max(brs, key=lambda b: len(dom[b.id])) if brs else None
        ok = False
        why = inner.text if inner is not None else "?"
        if inner is not None and isinstance(inner.ast, (ast.Name, ast.Attribute)) and dotted(inner.ast) in read_arg_names:
            ok = True  # empty path entry: nothing to read
            why += " (empty path entry)"
        elif inner is not None and isinstance(inner.ast, ast.Compare) and isinstance(inner.ast.ops[0], ast.In) \
                and isinstance(inner.ast.comparators[0], ast.Name):
            # de-duplication: `x in S` where S is a local set that receives S.add(x) on the other path
            sname = inner.ast.comparators[0].id
            x = norm_text(inner.ast.left)
            adds = [c for c in g.calls() if isinstance(c.ast, ast.Call) and isinstance(c.ast.func, ast.Attribute) and c.ast.func.attr == "add"
                    and norm_text(c.ast.func.value) == sname and c.ast.args and norm_text(c.ast.args[0]) == x]
            ok = bool(adds)
            why += " (duplicate of an already collected file)"
            # ... and the de-duplication key identifies the FILE: the path itself, at most stripped of leading slashes - a key
            # that drops directories (basename), case or a suffix merges distinct files and silently drops one of them
            def path_key(e: Optional[ast.AST], depth: int = 0) -> bool:
                if e is None or depth > 4:
                    return False
                if isinstance(e, ast.Attribute):
                    return e.attr == "file_path"
                if isinstance(e, ast.Call) and isinstance(e.func, ast.Attribute) and e.func.attr in ("lstrip", "strip") \
                        and all(isinstance(a_, ast.Constant) and a_.value == "/" for a_ in e.args):
                    return path_key(e.func.value, depth + 1)
                if isinstance(e, ast.Call) and isinstance(e.func, ast.Name) and e.func.id == "str" and len(e.args) == 1:
                    return path_key(e.args[0], depth + 1)
                return False
            srcs = [x_ for x_, _a in resolve_value(ctx, f, inner.ast.left, inner.id)]
            if ok and not (srcs and all(path_key(x_) for x_ in srcs)):
                ok = False
                why += f" - but the key `{' | '.join(norm_text(x_)[:50] for x_ in srcs if x_ is not None)}` is not the file's path"
        ctx.ob("C14.R3", f, "`continue` only for an empty path entry or a duplicate", s_, ok, f"skip condition: `{why}`")
    # when a path is listed twice the FIRST entry is the one kept (the entry written together with the file carries its recorded
    # checksum; a later re-registration may not): a dict filled with update() / plain item assignment keeps the LAST
    rets_all = [n for n in g.nodes if n.kind == "return" and n.id in g.reachable() and n.ast is not None and n.ast.value is not None]
    dicts = set()
    for r in rets_all:
        for e_ in list(sl.origins(r.ast.value, r.id)["exprs"]) + [r.ast.value]:  # type: ignore[union-attr]
            for x in ast.walk(e_):
                if isinstance(x, ast.Call) and isinstance(x.func, ast.Attribute) and x.func.attr == "values" and isinstance(x.func.value, ast.Name):
                    dicts.add(x.func.value.id)
    for dname in sorted(dicts):
        last_wins = []
        for n in g.nodes:
            if n.id not in g.reachable() or n.ast is None:
                continue
            if n.kind == "call" and isinstance(n.ast, ast.Call) and isinstance(n.ast.func, ast.Attribute) and n.ast.func.attr == "update" \
                    and isinstance(n.ast.func.value, ast.Name) and n.ast.func.value.id == dname:
                last_wins.append(n)
            if n.kind == "stmt" and isinstance(n.ast, ast.Assign) and any(isinstance(t, ast.Subscript) and isinstance(t.value, ast.Name)
                                                                        and t.value.id == dname for t in n.ast.targets):
                key_txt = next(norm_text(t.slice) for t in n.ast.targets if isinstance(t, ast.Subscript))
                guarded = any(pol in ("true", "false") and isinstance(e_, ast.Compare) and len(e_.ops) == 1
                              and isinstance(e_.comparators[0], ast.Name) and e_.comparators[0].id == dname and norm_text(e_.left) == key_txt
                              and ((isinstance(e_.ops[0], ast.NotIn) and pol == "true") or (isinstance(e_.ops[0], ast.In) and pol == "false"))
                              for pol, e_, _a in facts_at(ctx, f, n))
                if not guarded:
                    last_wins.append(n)
            if n.kind == "stmt" and isinstance(n.ast, ast.Assign) and len(n.ast.targets) == 1 and isinstance(n.ast.targets[0], ast.Name) \
                    and n.ast.targets[0].id == dname and isinstance(n.ast.value, ast.DictComp):
                last_wins.append(n)
        ctx.ob("C14.R3", f, "a path listed twice keeps its FIRST entry", last_wins[0] if last_wins else None, not last_wins,
               f"`{dname}` is filled with setdefault / a guarded store" if not last_wins else
               f"`{last_wins[0].text[:60]}`: the LAST entry for a path replaces the first - an entry re-registered without its "
               "checksum switches verification off for that file", text=dname)


def r4(ctx: Ctx) -> None:
    ctx.rule("C14.R4", "verify before parse: on the verification branch the Parquet parse is dominated by the checksum test whose "
             "failing edge raises CorruptDataError; parsed bytes = verified bytes; verification defaults to on", 5)
    for q in ("transaction.Table._read_datafile_table", "transaction.Table._iter_file_batches"):
        f = ctx.fn(q)
        g = ctx.cfg(f)
        dom = ctx.dom(f, NORMAL)
        rd = ctx.rd(f)
        ver = [n for n in g.calls() if any(t.name == "verify_checksum" for t in ctx.eff.callees(f, n))]
        if not ver:
            ctx.ob("C14.R4", f, "checksum verification call exists", None, False, "IntegrityChecker.verify_checksum is called")
            continue
        v = ver[0]
        vb = [b for b in g.nodes if b.kind == "branch" and b.stmt is v.stmt]
        raw_names = names_in(v.ast.args[0]) if isinstance(v.ast, ast.Call) and v.ast.args else set()
        parses = [n for n in g.calls() if n.callee and n.callee.kind == "prim"
                  and n.callee.name in ("pyarrow.parquet.read_table", "pyarrow.parquet.ParquetFile")]
        verified_parses = []
        for p in parses:
            sl = ctx.slicer(f)
            org = sl.origins(p.ast.args[0] if isinstance(p.ast, ast.Call) and p.ast.args else None, p.id)
            if raw_names & org["names"]:
                verified_parses.append(p)
        ctx.ob("C14.R4", f, "a parse of the verified bytes exists", verified_parses[0] if verified_parses else None,
               bool(verified_parses), "the verification branch parses the bytes it read")
        def _verified(pol: str, e: ast.AST) -> bool:
            return pol == "true" and isinstance(e, ast.Call) and (dotted(e.func) or "").endswith("verify_checksum")

        mismatch_raises = [n for n in g.nodes if n.kind == "raise" and n.raised == "CorruptDataError" and any(
            pol == "false" and isinstance(e, ast.Call) and (dotted(e.func) or "").endswith("verify_checksum")
            for pol, e, _a in facts_at(ctx, f, n))]
        for p in verified_parses:
            okd = bool(mismatch_raises) and any(_verified(pol, e) for pol, e, _a in facts_at(ctx, f, p))
            for b in vb if not okd else []:
                # `if not verify_checksum(...)`: cond() swapped edges: branch 'false' -> raise side
                bad = edge_target(g, b, "false")
                good = edge_target(g, b, "true")
                if bad is None or good is None:
                    continue
                bad_reach = reachable_from(g, bad, NORMAL)
                raises = [g.nodes[x] for x in bad_reach if g.nodes[x].kind == "raise"]
                if b.id in dom[p.id] and p.id not in bad_reach and raises and all(r.raised == "CorruptDataError" for r in raises):
                    okd = True
            ctx.ob("C14.R4", f, "parse dominated by a passed checksum test", p, okd,
                   "checksum mismatch -> CorruptDataError; the parse is only reachable from the match edge")
            # same bytes: the definition of raw reaching verify and the parse is the same single def
            same = True
            for nm in raw_names:
                if rd.reaching(v.id, nm) != rd.reaching(p.id, nm) or len(rd.reaching(p.id, nm)) != 1:
                    same = False
            ctx.ob("C14.R4", f, "bytes parsed are the bytes verified", p, same,
                   "one reaching definition of the raw bytes for both the checksum and the parser")
        # the unverified parse is only reachable when `verify and data_file.checksum` is false
        unver = [p for p in parses if p not in verified_parses]
        gate = [b for b in g.nodes if b.kind == "branch" and isinstance(b.ast, ast.Name) and b.ast.id == "verify"]
        for p in unver:
            ok = False
            for b in gate:
                t = edge_target(g, b, "true")
                # after verify true comes the `data_file.checksum` branch; both true => verified side
                cb = [c for c in g.nodes if c.kind == "branch" and "checksum" in c.text and t is not None and c.id == t]
                if cb:
                    tt = edge_target(g, cb[0], "true")
                    if tt is not None and p.id not in reachable_from(g, tt, NORMAL, avoid=[n.id for n in g.nodes if n.kind == "loop"]):
                        ok = True
            ctx.ob("C14.R4", f, "unverified parse unreachable when verification applies", p, ok,
                   "with verify on and a recorded checksum, only the verified parse can run")
    # the flag handed to the verifying readers is the RESOLVED one (argument -> environment -> default ON), at every call
    # site, also through helpers / closures that merely pass it on
    def _resolved(fn: FunctionInfo, e: Optional[ast.AST], at: int, depth: int = 0, seen: Optional[Set[str]] = None) -> Tuple[bool, str]:
        seen = seen if seen is not None else set()
        if e is None:
            return False, "no argument (the reader's own default applies)"
        org = ctx.slicer(fn).origins(e, at)
        if any(isinstance(c, ast.Call) and (dotted(c.func) or "").endswith("_resolve_verify_checksums") for c in org["calls"]):
            return True, ""
        names = sorted((org["params"] | org["free"]) - {"self"})
        if not names or depth > 4:
            return False, f"`{norm_text(e)}` does not derive from _resolve_verify_checksums(...)"
        # the value is a parameter (or a closure variable = a parameter / local of the enclosing function): discharge it at
        # every call site of the function that owns it
        owner = fn
        for nm in names:
            own = fn
            while own is not None and nm not in {p.name for p in own.params}:
                own = own.parent
            if own is None:
                # a local of an enclosing function captured by a closure
                enc = fn.parent
                if enc is None:
                    return False, f"`{nm}` is neither a parameter nor a resolved flag"
                ge = ctx.cfg(enc)
                defs = [n for n in ge.nodes if n.kind == "stmt" and isinstance(n.ast, (ast.Assign, ast.AnnAssign))
                        and getattr(n.ast, "value", None) is not None
                        and any(isinstance(t, ast.Name) and t.id == nm
                                for t in (n.ast.targets if isinstance(n.ast, ast.Assign) else [n.ast.target]))]
                if not defs:
                    return False, f"`{nm}` has no definition in {enc.name}"
                for d in defs:
                    ok_, why_ = _resolved(enc, d.ast.value, d.id, depth + 1, seen)  # type: ignore[union-attr]
                    if not ok_:
                        return False, why_
                continue
            owner = own
            key = f"{owner.qname}:{nm}"
            if key in seen:
                continue
            seen.add(key)
            sites = ctx.eff.call_sites.get(owner.qname, [])
            if not sites:
                return False, f"`{nm}` is a parameter of {owner.name}, which has no call site in the package"
            for caller, n in sites:
                arg = ctx.eff.bind_arg(n.ast, owner, nm, True)  # type: ignore[arg-type]
                if arg is None:
                    p_ = next(p for p in owner.params if p.name == nm)
                    return False, f"{caller.name} calls {owner.name} without `{nm}` (default {norm_text(p_.default) if p_.default is not None else 'none'})"
                ok_, why_ = _resolved(caller, arg, n.id, depth + 1, seen)
                if not ok_:
                    return False, f"{caller.name} -> {owner.name}({nm}=...): {why_}"
        return True, ""

    for rq in ("transaction.Table._read_datafile_table", "transaction.Table._iter_file_batches"):
        rf_ = ctx.fn(rq)
        vparam = next((p.name for p in rf_.params if p.name == "verify" or p.name.startswith("verify")), None)
        if vparam is None:
            raise AnalysisError(f"{rq} has no verify parameter")
        sites = ctx.eff.call_sites.get(rf_.qname, [])
        if not sites:
            raise AnalysisError(f"{rq} has no call site")
        for caller, n in sites:
            arg = ctx.eff.bind_arg(n.ast, rf_, vparam, True)  # type: ignore[arg-type]
            ok_, why_ = _resolved(caller, arg, n.id)
            ctx.ob("C14.R4", caller, f"{rf_.name}: the verify flag is the resolved one", n, ok_,
                   "argument -> DATASHARD_VERIFY_CHECKSUMS -> default ON is applied on this path" if ok_ else
                   f"{why_}: under the default setting this read path skips checksum verification and returns altered rows")
    # the tri-state survives every hop: `verify_checksums=None` means "default ON" only for _resolve_verify_checksums, so an
    # API that hands the flag on passes its own parameter AS IS (bool(None) is False = verification silently off)
    n_pass = 0
    for fcallee in sorted(ctx.prog.functions.values(), key=lambda x: x.qname):
        vp = next((p_.name for p_ in fcallee.params if p_.name == "verify_checksums"), None)
        if vp is None or isinstance(fcallee.node, ast.Lambda):
            continue
        for caller, n in ctx.eff.call_sites.get(fcallee.qname, []):
            if not isinstance(n.ast, ast.Call):
                continue
            arg = ctx.eff.bind_arg(n.ast, fcallee, vp, True)
            if arg is None:
                continue
            n_pass += 1
            plain = (isinstance(arg, ast.Name) and any(p_.name == arg.id for p_ in caller.params)
                     and ctx.cfg(caller).entry in ctx.rd(caller).reaching(n.id, arg.id) and len(ctx.rd(caller).reaching(n.id, arg.id)) == 1) \
                or (isinstance(arg, ast.Constant) and arg.value in (None, True))
            ctx.ob("C14.R4", caller, f"{fcallee.name}: verify_checksums is handed on unchanged", n, plain,
                   "the caller's own parameter (None stays None)" if plain else
                   f"`{norm_text(arg)[:50]}` re-computes the flag: None (= default ON) no longer reaches _resolve_verify_checksums as None")
    if n_pass == 0:
        raise AnalysisError("no API hands verify_checksums on to another (iter_records -> scan_batches vanished?)")
    rv = ctx.fn("transaction.Table._resolve_verify_checksums")
    g = ctx.cfg(rv)
    env = [n for n in g.calls() if n.callee and n.callee.name in ("os.getenv", "os.environ.get")]
    ok = False
    for e in env:
        d = e.ast.args[1] if isinstance(e.ast, ast.Call) and len(e.ast.args) > 1 else kwarg(e.ast, "default")
        tup = [n for n in ast.walk(rv.node) if isinstance(n, ast.Compare) and isinstance(n.ops[0], ast.In)]
        vals = sorted(v for t in tup for v in str_consts(ctx, rv, t.comparators[0]))
        dv = ctx.prog.const_str(d, rv.module, rv) if d is not None else None
        ok = dv is not None and dv.strip().lower() in vals
    # scenario evaluation (nothing is run): with no explicit argument, what does the resolver answer for an unset variable and for
    # each spelling of "on" the documentation promises?
    from .common import concrete_eval, explore, UNKNOWN
    vpar = next((p_.name for p_ in rv.params if p_.name not in ("self", "cls")), None)
    decided = {}
    for label, val in (("unset", None), ("'true'", "true"), ("'1'", "1"), ("'yes'", "yes"), ("'on'", "on"), ("' ON '", " ON "),
                       ("'0'", "0"), ("'false'", "false"), ("'off'", "off")):
        scen = {"os.getenv()": val}
        if vpar:
            scen[vpar] = None
        outs = set()
        for nid, store, _asm in explore(ctx, rv, [g.entry], scen, stop=[n.id for n in g.nodes if n.kind == "return"]):
            n_ = g.nodes[nid]
            if n_.kind == "return" and n_.ast is not None:
                sc2 = dict(scen)
                sc2.update({k: v for k, v in store.items() if isinstance(k, str) or (isinstance(k, tuple) and k[0] == "ret")})  # type: ignore[misc]
                outs.add(concrete_eval(ctx, rv, n_.ast.value, sc2, nid))  # type: ignore[union-attr]
        decided[label] = next(iter(outs)) if len(outs) == 1 and isinstance(next(iter(outs)), bool) else None
    if all(v is not None for v in decided.values()):
        want = {"unset": True, "'true'": True, "'1'": True, "'yes'": True, "'on'": True, "' ON '": True, "'0'": False, "'false'": False, "'off'": False}
        wrong = {k: v for k, v in decided.items() if bool(v) != want[k]}
        ok = not wrong
        ctx.ob("C14.R4", rv, "verification defaults to ON", env[0] if env else None, ok,
               "DATASHARD_VERIFY_CHECKSUMS unset / true / 1 / yes / on (any case, padded) -> ON; 0 / false / off -> OFF"
               + (f"; but {wrong}: a deployment that switches verification ON reads altered bytes unverified" if wrong else ""))
    else:
        ctx.ob("C14.R4", rv, "verification defaults to ON", env[0] if env else None, ok,
               "the environment default is one of the values accepted as true")


def r5(ctx: Ctx) -> None:
    ctx.rule("C14.R5", "the checksum travels: computed from the final file, copied by append_data, stored by the manifest writer, "
             "restored by the manifest reader", 4)
    wd = ctx.fn("data_operations.DataFileManager.write_data_file")
    g = ctx.cfg(wd)
    sl = ctx.slicer(wd)
    ctor = [n for n in g.calls() if n.callee and n.callee.kind == "ctor" and n.callee.cls and n.callee.cls.name == "DataFile"]
    ok = False
    for c in ctor:
        ck = kwarg(c.ast, "checksum")
        org = sl.origins(ck, c.id)
        names = {(dotted(x.func) or "").split(".")[-1] for x in org["calls"] if isinstance(x, ast.Call)}
        wr = [n for n in g.nodes if n.kind == "with_exit" and "DataFileWriter" in n.text]
        dom = ctx.dom(wd, NORMAL)
        after_close = bool(wr) and any(w.id in dom[c.id] for w in wr)
        ok = bool(names & {"compute_file_checksum", "compute_checksum_from_stream", "compute_checksum"}) and after_close
        ctx.ob("C14.R5", wd, "checksum computed from the finished file", c, ok,
               "DataFile.checksum derives from an IntegrityChecker computation placed after the writer was closed")
    for c in ctor:
        ck = kwarg(c.ast, "checksum")
        if isinstance(ck, ast.Name):
            defs = ctx.rd(wd).reaching(c.id, ck.id)
            nonc = [d for d in defs if not (isinstance(g.nodes[d].ast, ast.Assign) and isinstance(g.nodes[d].ast.value, ast.Call)
                                            and "checksum" in norm_text(g.nodes[d].ast.value.func))]
            if nonc:
                # `size, checksum = self._measure(...)`: the value each definition unpacks (helper analysed in place)
                srcs = resolve_value(ctx, wd, ck, c.id)
                if srcs and all(isinstance(v, ast.Call) and "checksum" in norm_text(v.func) for v, _at in srcs):
                    nonc = []
            ctx.ob("C14.R5", wd, "every reaching definition of the checksum is a computed digest", c, bool(defs) and not nonc,
                   "a fallback such as `checksum = None` after a failed read-back records a file that is never verified again"
                   + (f"; other definitions at lines {[g.nodes[d].lineno for d in nonc]}" if nonc else ""))
        for cc in [n for n in g.calls() if any(t.name.startswith("compute_") and "checksum" in t.name for t in ctx.eff.callees(wd, n))]:
            esc, caught = ctx.eff.propagate(wd, {"OSError"}, cc.frames, record=False)
            ctx.ob("C14.R5", wd, "a failing checksum read-back fails the append", cc, bool(esc) and not caught,
                   "the read-back error propagates (fail closed): the file is not recorded without a checksum")
    ad = ctx.fn("transaction.Transaction.append_data")
    for c in [n for n in ctx.cfg(ad).calls() if n.callee and n.callee.kind == "ctor" and n.callee.cls and n.callee.cls.name == "DataFile"]:
        ck = kwarg(c.ast, "checksum")
        ctx.ob("C14.R5", ad, "append_data copies the checksum", c, ck is not None and norm_text(ck).endswith(".checksum"),
               "the re-pathed DataFile keeps the checksum of the written file")
    # census: every DataFile(...) constructed inside the package carries a checksum
    for f2 in ctx.prog.functions.values():
        if f2.module.short not in ("transaction", "file_manager", "data_operations"):
            continue
        for c in [n for n in ctx.cfg(f2).calls() if n.callee and n.callee.kind == "ctor" and n.callee.cls and n.callee.cls.name == "DataFile"]:
            ck = kwarg(c.ast, "checksum")
            star = any(k.arg is None for k in c.ast.keywords) if isinstance(c.ast, ast.Call) else False  # type: ignore[union-attr]
            ctx.ob("C14.R5", f2, "DataFile(...) site passes a checksum", c, ck is not None or star,
                   "a DataFile rebuilt without its checksum (e.g. a survivor of a manifest rewrite) is read WITHOUT verification "
                   "from then on: byte damage yields altered rows instead of CorruptDataError", nontrivial=False)
    # survivors of a delete-rewrite are passed on unchanged (no per-field copy that could drop the checksum)
    cf = ctx.fn("transaction.Transaction._commit_file_ops")
    for c in ctx.calls(cf, name="create_manifest_file"):
        ex = kwarg(c.ast, "existing_files")
        if ex is None:
            continue
        org = ctx.slicer(cf).origins(ex, c.id)
        helpers = [x for x in org["calls"] if isinstance(x, ast.Call) and ctx.prog.resolve_call(x, cf).kind == "func"
                   and id(x) not in ctx.cfg(cf).inlined_calls  # a helper added later is looked through (its returns are sliced)
                   and not (dotted(x.func) or "").endswith(("read_manifest_file", "read_manifest_list_file"))]
        ctx.ob("C14.R5", cf, "carried-over files are the DataFile objects read from the manifest", c, not helpers,
               "existing_files derives from read_manifest_file(...) by filtering only"
               + (f"; transformed by {[norm_text(h)[:50] for h in helpers]}" if helpers else ""))
    cm = ctx.fn("file_manager.FileManager.create_manifest_file")
    dicts = [n for n in walk_all(ctx, cm) if isinstance(n, ast.Dict)]
    stored = any(isinstance(k, ast.Constant) and k.value == "checksum" and norm_text(v).endswith(".checksum")
                 for d in dicts for k, v in zip(d.keys, d.values))
    ctx.ob("C14.R5", cm, "manifest writer stores the checksum", None, stored, "'checksum': df.checksum in the entry record")
    rm = ctx.fn("file_manager.FileManager.read_manifest_file")
    rg = ctx.cfg(rm)
    ctors = [n for n in rg.calls() if n.callee and n.callee.kind == "ctor" and n.callee.cls and n.callee.cls.name == "DataFile"]
    for c in ctors:
        ck = kwarg(c.ast, "checksum")
        ctx.ob("C14.R5", rm, "manifest reader restores the checksum", c, ck is not None and "checksum" in norm_text(ck),
               "DataFile(checksum=<record>['checksum'])")


def entry_paths_read_strictly(ctx: Ctx, rid: str) -> None:
    ctx.rule(rid, "an entry without a path is not an entry: the path of every decoded DataFile / ManifestFile (file_path / "
             "manifest_path) is read from the parsed record with a SUBSCRIPT - a `.get(...)` turns a damaged entry into a record "
             "whose path is None, which the reader skips: the table answers with a subset of its rows (or as empty) instead of raising", 2)
    fm = ctx.prog.modules.get("datashard.file_manager")
    if fm is None:
        raise AnalysisError("file_manager module vanished")
    n = 0
    for cname, fld in (("DataFile", "file_path"), ("ManifestFile", "manifest_path")):
        for f in sorted((x for x in ctx.prog.functions.values() if x.module is fm and not isinstance(x.node, ast.Lambda)), key=lambda x: x.qname):
            if not (f.name.startswith("read_") or f.name.startswith("_")) or "create" in f.name or "write" in f.name:
                continue
            for c in [x for x in ast.walk(f.node) if isinstance(x, ast.Call) and (dotted(x.func) or "").split(".")[-1] == cname]:
                vals = [k.value for k in c.keywords if k.arg == fld]
                for k in c.keywords:
                    if k.arg is None and isinstance(k.value, ast.Name):  # **fields with `fields = {..}` built in this function
                        for d in [a.value for a in ast.walk(f.node) if isinstance(a, ast.Assign) and len(a.targets) == 1
                                  and isinstance(a.targets[0], ast.Name) and a.targets[0].id == k.value.id and isinstance(a.value, ast.Dict)]:
                            vals += [v for kk, v in zip(d.keys, d.values) if isinstance(kk, ast.Constant) and kk.value == fld]
                        for d in [a.value for a in ast.walk(f.node) if isinstance(a, ast.Assign) and len(a.targets) == 1
                                  and isinstance(a.targets[0], ast.Name) and a.targets[0].id == k.value.id and isinstance(a.value, ast.DictComp)]:
                            vals.append(d.value)  # a comprehension that was not unrolled: its value expression serves every key
                if not vals:
                    continue
                for v in vals:
                    n += 1
                    lenient = [x for x in ast.walk(v) if isinstance(x, ast.Call) and isinstance(x.func, ast.Attribute) and x.func.attr in ("get", "pop", "setdefault")]
                    strict = any(isinstance(x, ast.Subscript) for x in ast.walk(v))
                    ctx.ob(rid, f, f"{cname}.{fld} is read with a subscript", None, strict and not lenient,
                           f"`{norm_text(v)[:60]}`" + ("" if strict and not lenient else ": a record that lost its path is decoded with path None and "
                                                       "silently skipped by the readers"), text=f"{cname}:{norm_text(v)[:40]}", line=c.lineno)
    if n == 0:
        raise AnalysisError("no DataFile / ManifestFile constructed from a parsed record in file_manager")
